SPECIFICATION MCSpec
CONSTANTS
  DefaultBufSize = 4096
  Sizes = {0, 1, 4095, 4096, 4097, 9000, 20000}
  MaxOps = 4
  FailAts = {0, 1, 2}
  Inits <- MCInits
INVARIANT Inv CoreInvHolds
PROPERTIES RefinesCore StickyError FlushEmpties ErrorsPerContract
CHECK_DEADLOCK FALSE
