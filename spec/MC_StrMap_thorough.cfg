SPECIFICATION MCSpec
CONSTANTS
  Keys = {"", "a", "ab", "b"}
  SlotVals = {0, 1, 2, 5}
  MaxLoads = 2
INVARIANT Inv
CHECK_DEADLOCK FALSE
