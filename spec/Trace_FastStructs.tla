--------------------------- MODULE Trace_FastStructs ---------------------------
(***************************************************************************)
(* Judges recorded calls of the shipped FastCodec structs and of the       *)
(* message marshalling helpers against FastStructs.                        *)
(*  st_write : BLength / FastWrite / FastWriteNocopy(nil) of a value       *)
(*  st_read  : FastRead of an input                                        *)
(*  nocopy   : FastWriteNocopy with a recording direct writer (C15)        *)
(*  msg_m / msg_u : MarshalFastMsg / UnmarshalFastMsg (C12)                *)
(***************************************************************************)
EXTENDS FastStructs, TraceCommon
VARIABLES l
Prop == IOEnv.VPROP

IsNilRecv(ev) == "nilrecv" \in DOMAIN ev /\ ev.nilrecv
ExpVal(ev) == IF ev.schema \in {"RawStr", "RawBin"} THEN ev.val ELSE NormVal(ev.schema, ev.val)
ExpEnc(ev) == IF IsNilRecv(ev) THEN Lit(<<0>>)
              ELSE IF ev.schema \in {"RawStr", "RawBin"} THEN Norm(StrEnc(ev.val.s1))   \* Binary.WriteString/BinaryNocopy called directly
              ELSE EncStruct(ev.schema, ExpVal(ev))

\* a written struct: lengths agree; bytes are the canonical encoding, or (map with >= 2 entries: Go map order is free)
\* an encoding that reads back to the same value
WriteOK(ev) ==
  LET out == MkIn(ev.out)
      e   == ExpEnc(ev)
  IN /\ ev.ret = SegsLen(e) /\ ev.blen = SegsLen(e) /\ out.len = SegsLen(e)
     /\ \/ SegsEq(ev.out, e)
        \/ /\ ~IsNilRecv(ev) /\ "extra" \in DOMAIN ev.val /\ ev.val.extra.set /\ Len(ev.val.extra.pairs) >= 2
           /\ LET r == ReadStruct(ev.schema, out) IN r.ok /\ r.n = out.len /\ SameVal(ev.schema, r.val, ExpVal(ev))

ReadOK(ev) ==
  LET in == MkIn(ev.in)
      r  == ReadStruct(ev.schema, in)
  IN CASE Prop = "C03" -> ~ev.panic /\ (ev.ok => (0 <= ev.n /\ ev.n <= in.len))
       [] OTHER ->
          /\ ~ev.panic
          /\ r.ok  => (ev.ok /\ ev.n = r.n /\ SameVal(ev.schema, NormVal(ev.schema, ev.val), r.val))
          /\ ~r.ok => ~ev.ok

\* ---- no-copy path (C15) ---------------------------------------------------
\* splice the directly written pieces into the linear buffer at the positions the library indicated:
\* piece i goes at linear offset B - remainCap_i
RECURSIVE Splice(_, _, _, _, _)
Splice(lin, ret, ds, B, pos) ==
  IF ds = <<>> THEN Take(Drop(lin, pos), ret - pos)
  ELSE LET cut == B - Head(ds).remain IN
       Take(Drop(lin, pos), cut - pos) \o Head(ds).segs \o Splice(lin, ret, Tail(ds), B, cut)

RECURSIVE DirectsFit(_, _, _, _)
DirectsFit(ds, B, pos, ret) ==
  IF ds = <<>> THEN TRUE
  ELSE LET cut == B - Head(ds).remain IN
       /\ pos <= cut                                   \* positions move forward through the linear stream
       /\ cut <= ret                                   \* ... and lie within the linear bytes the call reports as written
       /\ Head(ds).remain >= SegsLen(Head(ds).segs)    \* the reserved tail can hold the piece
       /\ DirectsFit(Tail(ds), B, cut, ret)

NocopyOK(ev) ==
  LET e == ExpEnc(ev) IN
  /\ ev.blen = SegsLen(e)                               \* advertised no-copy length = copying length
  /\ ev.copyret = SegsLen(e)
  /\ DirectsFit(ev.directs, ev.B, 0, ev.ret)
  /\ LET sp == Norm(Splice(ev.linear, ev.ret, ev.directs, ev.B, 0))
         sI == MkIn(sp)
     IN /\ sI.len = SegsLen(e)
        /\ \/ SegsEq(sp, e)
           \/ /\ "extra" \in DOMAIN ev.val /\ ev.val.extra.set /\ Len(ev.val.extra.pairs) >= 2
              /\ LET r == ReadStruct(ev.schema, sI) IN r.ok /\ r.n = sI.len /\ SameVal(ev.schema, r.val, ExpVal(ev))
  /\ (ev.haswriter = FALSE) => ev.directs = <<>>
  \* every string at or above the threshold went through the direct writer, every smaller one was copied
  /\ ev.haswriter => ev.ndirect = ev.nlarge

\* ---- message envelope (C12) ---------------------------------------------------
MsgMarshalOK(ev) ==
  IF SegsLen(ev.method) = 0 THEN ~ev.ok                          \* an empty method name is an error
  ELSE LET e == Norm(Enc("msgbegin", [mt |-> ev.mt, name |-> ev.method, seq |-> ev.seq]) \o ExpEnc(ev)) IN
       /\ ev.ok
       /\ \/ SegsEq(ev.out, e)
          \/ /\ "extra" \in DOMAIN ev.val /\ ev.val.extra.set /\ Len(ev.val.extra.pairs) >= 2 /\ SegsLen(ev.out) = SegsLen(e)

MsgUnmarshalOK(ev) ==
  LET in == MkIn(ev.in)
      h  == Dec("msgbegin", in)
  IN /\ ~ev.panic
     /\ IF ~h.ok THEN ~ev.ok /\ ~ev.isexc
        ELSE LET body == MkIn(Drop(in.segs, h.n)) IN
             IF h.val.mt = 3                                      \* EXCEPTION
             THEN LET x == ReadStruct("AppEx", body) IN
                  IF x.ok THEN /\ ev.isexc /\ ev.exctid = x.val.i /\ SegsEq(ev.excmsg, x.val.s1)
                               /\ ev.untouched                      \* the caller's struct is not decoded into
                               /\ SegsEq(ev.method, Slice(in, h.val.name.at, h.val.name.len)) /\ ev.seq = h.val.seq
                  ELSE ~ev.ok /\ ~ev.isexc
             ELSE LET r == ReadStruct(ev.schema, body) IN
                  IF r.ok THEN /\ ev.ok /\ ~ev.isexc
                               /\ SegsEq(ev.method, Slice(in, h.val.name.at, h.val.name.len)) /\ ev.seq = h.val.seq
                               /\ SameVal(ev.schema, NormVal(ev.schema, ev.val), r.val)
                  ELSE ~ev.ok /\ ~ev.isexc

EvOK(ev) ==
  CASE ev.k = "st_write" -> WriteOK(ev)
    [] ev.k = "st_read"  -> ReadOK(ev)
    [] ev.k = "nocopy"   -> NocopyOK(ev)
    [] ev.k = "nclen"    -> \* the advertised no-copy lengths equal the copying lengths (= the encoded length)
                            LET e == SegsLen(Enc("string", [segs |-> ev.segs])) IN
                            ev.strnc = e /\ ev.binnc = e /\ ev.str = e /\ ev.bin = e
    [] ev.k = "msg_m"    -> MsgMarshalOK(ev)
    [] ev.k = "msg_u"    -> IF Prop = "C03" THEN ~ev.panic ELSE MsgUnmarshalOK(ev)
    [] OTHER -> TRUE

Why(ev) == ev.k \o "/" \o (IF "schema" \in DOMAIN ev THEN ev.schema ELSE "-")

TraceInit == l = 1
TraceNext ==
  /\ l <= Len(Trace)
  /\ l' = l + 1
  /\ LET ev == Trace[l] IN ~EvOK(ev) => ReportWhy("MISMATCH", l, Why(ev))
TraceSpec == TraceInit /\ [][TraceNext]_l
=============================================================================
