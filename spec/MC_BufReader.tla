---------------------------- MODULE MC_BufReader ----------------------------
(* Bounded exhaustive exploration of ReaderImpl against the C04 contract.   *)
EXTENDS BufReader

CONSTANTS Sizes,        \* operand sizes n
          Streams,      \* stream lengths S (= position of the source fault)
          Policies,     \* chunk policy per behaviour: 0 = (0,nil) forever, k>0 = at most k bytes per Read (a huge k = as much as fits), MixedPolicy (= 2; a cfg file cannot hold a negative number) = empty / one byte / all that fits, chosen freely at every Read
          MaxOps,       \* operations per behaviour
          SmallN,       \* largest operand explored under the 1-byte chunk policy
          ByteCaps      \* spare capacities of a bytes-backed reader's slice

VARIABLES policy, nops, flavour
mcvars == <<vars, policy, nops, flavour>>

Ops == {"next", "peek", "skip", "readbinary"}

MCInit ==
  /\ policy \in Policies
  /\ nops = 0
  /\ pc = "idle" /\ g = GInit /\ res = NoRes
  /\ cur = [op |-> "none", n |-> 0, gb |-> GInit]
  /\ \/ /\ flavour = "io" /\ R = RInitIO
        /\ \E S \in Streams, fk \in {"EOF", "ERR"}, wd \in BOOLEAN :
             src = [S |-> S, pos |-> 0, failed |-> FALSE, fkind |-> fk, withData |-> wd]
     \/ /\ flavour = "bytes"
        /\ \E S \in Streams, x \in ByteCaps :
             /\ R = RInitBytes(S, S + x)
             /\ src = [S |-> S, pos |-> S, failed |-> TRUE, fkind |-> "EOF", withData |-> FALSE]

MixedPolicy == 2
\* the per-behaviour chunk policy restricts which source outcomes are explored
PolicyAllows(o, want) ==
  IF policy = 0 THEN o.m = 0
  ELSE IF policy = MixedPolicy THEN o.m \in {0, 1, Min(want, SrcLeft)}     \* free mixing of empty, one-byte and full reads
  ELSE o.m = Min(Min(want, SrcLeft), policy)

MCNext ==
  \/ /\ nops < MaxOps /\ nops' = nops + 1
     /\ \/ \E op \in Ops, n \in Sizes : (policy \in {1, MixedPolicy} => n <= SmallN) /\ Start(op, n)
           \* (1-byte chunks are explored with small operands only: a 9000-byte
           \*  operand would add 9000-step chains without new behaviour)
        \/ \E op \in Ops \ {"readbinary"} : Start(op, -1)
        \/ Release
     /\ UNCHANGED <<policy, flavour>>
  \/ /\ \E o \in SrcOutcomes(R.bcap - R.blen) :
          /\ (src.failed \/ SrcLeft = 0 \/ PolicyAllows(o, R.bcap - R.blen))
          /\ SrcRead(o.m, o.e)
     /\ UNCHANGED <<policy, nops, flavour>>

SrcStep == \E o \in SrcOutcomes(R.bcap - R.blen) :
             /\ (src.failed \/ SrcLeft = 0 \/ PolicyAllows(o, R.bcap - R.blen))
             /\ SrcRead(o.m, o.e)
             /\ UNCHANGED <<policy, nops, flavour>>
MCSpec == MCInit /\ [][MCNext]_mcvars
\* liveness: under weak fairness of the source step every operation terminates, whatever the source does
\* (productive chunks, empty reads forever, failure): the acquire loop is bounded by MaxEmpty and by the data
MCLiveSpec == MCSpec /\ WF_mcvars(SrcStep)
EveryOpTerminates == (pc = "reading") ~> (pc = "idle")

\* history-free view: res / cur.gb are observation variables
View == <<src, R, g.c - g.rmark, g.gaveUp, g.trail, pc, cur.op, cur.n, policy, nops, flavour,
          (res.op \notin {"none", "release"}) => AbsAccepts(cur.gb, g, src, res)>>

\* Every completed operation is accepted by the abstract contract.
Inv == TypeOK /\ InSource /\ CursorIsRi /\ ReadLenInv /\ Contract /\ RoomWhenReading /\ NoErrWhenReading

\* Refinement: every step of the detailed model (real growth policy, statistics window, parked buffers) is a step of
\* the integer core whose invariants Apalache proves for operands, streams and capacities of any size (Ind_BufReader.tla)
Core == INSTANCE Ind_BufReader WITH
          GrowCountsRi <- TRUE,
          base <- R.base, blen <- R.blen, bcap <- R.bcap, ri <- R.ri, err <- R.err, empt <- R.empt,
          S <- src.S, pos <- src.pos, failed <- src.failed, fkind <- src.fkind, wd <- src.withData,
          c <- g.c, rmark <- g.rmark, trail <- g.trail, gaveUp <- g.gaveUp, pc <- pc,
          op <- IF cur.op \in Ops THEN cur.op ELSE "next", n <- cur.n, c0 <- cur.gb.c, gaveUp0 <- cur.gb.gaveUp,
          rkind <- IF res.op = "none" THEN "none" ELSE IF res.op = "release" THEN "release" ELSE "op",
          res <- [ok |-> res.ok, start |-> res.start, m |-> res.m, e |-> res.e]
RefinesCore == Core!Init /\ [][Core!Next]_(Core!cvars)
CoreInvHolds == Core!IndInv

\* Action properties
PeekNeverAdvances == [][(pc' = "idle" /\ res'.op = "peek" /\ cur'.op = "peek" /\ pc = "reading") => g'.c = g.c]_mcvars
StickyError == [][(R.err # "nil") => (R'.err = R.err)]_mcvars
=============================================================================
