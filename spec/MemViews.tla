------------------------------ MODULE MemViews ------------------------------
(***************************************************************************)
(* Memory objects and views (properties C20, C16).                         *)
(*                                                                         *)
(* An object is a backing array; a view is (obj, off, len, cap).  Go       *)
(* strings are immutable: memory that backs a string must never be         *)
(* written.  The alias machine below has the zero-copy conversions of      *)
(* unsafex, append on byte-slice views, the span allocator used by the     *)
(* decoders, and input mutation.                                           *)
(***************************************************************************)
EXTENDS Integers, Sequences, FiniteSets, TLC

VARIABLES objs,    \* function obj id -> [size, str (backs a Go string), writes (set of written byte ranges <<lo, hi>>)]
          views,   \* function view id -> [obj, off, len, cap, kind ("string" | "bytes")]
          nobj, nview

mvars == <<objs, views, nobj, nview>>

NewObj(size, str) == [size |-> size, str |-> str, writes |-> {}]
Ext(f, k, v) == [x \in DOMAIN f \cup {k} |-> IF x = k THEN v ELSE f[x]]

\* StringToBinary(s): shares memory, cap = len                      (CapRule = "len" in the code)
\* a seeded design error CapRule = "backing" keeps the spare capacity of the backing array
S2B(s, CapRule) ==
  LET v == views[s]
      c == IF CapRule = "len" THEN v.len ELSE objs[v.obj].size - v.off IN
  /\ v.kind = "string"
  /\ views' = Ext(views, nview, [obj |-> v.obj, off |-> v.off, len |-> v.len, cap |-> c, kind |-> "bytes"])
  /\ nview' = nview + 1 /\ UNCHANGED <<objs, nobj>>

\* BinaryToString(b): shares memory
B2S(b) ==
  LET v == views[b] IN
  /\ v.kind = "bytes"
  /\ views' = Ext(views, nview, [obj |-> v.obj, off |-> v.off, len |-> v.len, cap |-> v.len, kind |-> "string"])
  /\ nview' = nview + 1 /\ UNCHANGED <<objs, nobj>>

\* append(b, k bytes...): in place when capacity allows, else a fresh object
AppendTo(b, k) ==
  LET v == views[b] IN
  /\ v.kind = "bytes" /\ k > 0
  /\ IF v.len + k <= v.cap
     THEN /\ objs' = [objs EXCEPT ![v.obj].writes = @ \cup {<<v.off + v.len, v.off + v.len + k>>}]
          /\ views' = Ext(views, nview, [v EXCEPT !.len = v.len + k])
          /\ nobj' = nobj
     ELSE /\ objs' = Ext(objs, nobj, NewObj(2 * (v.len + k), FALSE))
          /\ views' = Ext(views, nview, [obj |-> nobj, off |-> 0, len |-> v.len + k, cap |-> 2 * (v.len + k), kind |-> "bytes"])
          /\ nobj' = nobj + 1
  /\ nview' = nview + 1

\* C20: no write ever lands in memory that backs a string
StringMemNeverWritten == \A o \in DOMAIN objs : objs[o].str => objs[o].writes = {}

\* ---- span allocator (bytedance/gopkg/lang/span) ----------------------------
\* one span: [size, read, buf (object id)] ; Make(n) returns a region [read-n, read) with cap = len
SpanClassOK(n, minObj, maxObj) == n >= minObj /\ n <= maxObj
\* the region handed out for a request of n bytes given span state sp: [fresh (new backing array), lo, hi]
SpanMake(sp, n) ==
  IF n >= sp.size THEN [private |-> TRUE, sp |-> sp, lo |-> 0, hi |-> n]
  ELSE IF sp.read + n <= sp.size THEN [private |-> FALSE, sp |-> [sp EXCEPT !.read = sp.read + n], lo |-> sp.read, hi |-> sp.read + n]
  ELSE [private |-> FALSE, sp |-> [sp EXCEPT !.read = n, !.gen = sp.gen + 1], lo |-> 0, hi |-> n]   \* wrap: new backing array

\* C16 on recorded regions: every decoded result is [c (cluster), o (offset), len, cap]
Disjoint(a, b) == a.c # b.c \/ a.len = 0 \/ b.len = 0 \/ a.o + a.len <= b.o \/ b.o + b.len <= a.o
=============================================================================
