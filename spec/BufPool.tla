------------------------------- MODULE BufPool -------------------------------
(***************************************************************************)
(* Ownership model of the shared buffer pool (mcache) as used by the       *)
(* bufiox reader/writer and by ReaderSkipDecoder (property C09).           *)
(*                                                                         *)
(* Every pool buffer has an owner: "pool" (free), "inst" (the instance     *)
(* under test: current or parked buffer) or "co" (an adversarial co-tenant *)
(* that takes whatever is free and scribbles over it).  Memory owned by    *)
(* the caller is buffer 0 and never enters the pool.  Every slice handed   *)
(* out by the instance is (sid, buf) and lives until the next epoch end    *)
(* (Release / Flush).                                                      *)
(*                                                                         *)
(* The actions below are the pool-boundary events; their guards are the    *)
(* rules P1..P5 of DESIGN.md App. C.  MC_BufPool composes them under the   *)
(* buffer life-cycle protocol of the reader/writer (grow-and-park, release *)
(* / flush) to show that the protocol keeps the invariants under every     *)
(* interleaving with the co-tenant; Trace_BufPool checks recorded events   *)
(* of the real code against the same guards.                               *)
(***************************************************************************)
EXTENDS Integers, Sequences, FiniteSets, TLC

VARIABLES
  \* @type: Int -> Str;
  own,     \* function: buffer id -> "pool" | "inst" | "co"   (domain = buffers seen so far)
  \* @type: Set({sid: Int, buf: Int});
  live,    \* set of [sid, buf] : slices handed out in the current epoch
  \* @type: Set(Int);
  dirty,   \* set of buffers the co-tenant has overwritten while they were free or its own
  \* @type: Bool;
  nopool   \* TRUE for an instance that must not use the pool at all (bytes-backed writer)

pvars == <<own, live, dirty, nopool>>

Owner(b) == IF b \in DOMAIN own THEN own[b] ELSE "pool"     \* unseen buffers are fresh/free
Seen(b) == b \in DOMAIN own
SetOwner(b, o) == [x \in DOMAIN own \cup {b} |-> IF x = b THEN o ELSE own[x]]
LiveBufs == {s.buf : s \in live}

PInit(np) == own = [x \in {} |-> "pool"] /\ live = {} /\ dirty = {} /\ nopool = np

\* Guards = the rules P1..P5 (what a recorded event must satisfy)
MallocAllowed(b, by) ==
  /\ b # 0
  /\ Owner(b) = "pool"
  /\ (by = "inst") => ~nopool                                   \* P5
FreeAllowed(b, by) ==
  /\ b # 0                                                      \* P3: caller memory is never recycled
  /\ (Owner(b) = by \/ (by = "inst" /\ ~Seen(b)))               \* P1: only what it obtained and has not freed since
       \* (a buffer never seen in this trace may be one a pooled decoder object kept from an earlier life)
  /\ (by = "inst") => (b \notin LiveBufs /\ ~nopool)            \* P2 (no free while a handed-out slice lives), P5
HandOutAllowed(b) == b = 0 \/ Owner(b) = "inst" \/ ~Seen(b)     \* never a slice of memory it does not hold

\* Effects (what the event does to the ownership state, allowed or not)
MallocEffect(b, by) ==
  /\ own' = SetOwner(b, by)
  /\ dirty' = IF by = "co" THEN dirty \cup {b} ELSE dirty \ {b} \* the co-tenant scribbles over what it gets
  /\ UNCHANGED <<live, nopool>>
FreeEffect(b, by) == own' = SetOwner(b, "pool") /\ UNCHANGED <<live, dirty, nopool>>
HandOutEffect(sid, b) == /\ live' = live \cup {[sid |-> sid, buf |-> b]}
                         /\ own' = IF b # 0 /\ ~Seen(b) THEN SetOwner(b, "inst") ELSE own
                         /\ UNCHANGED <<dirty, nopool>>

\* the pool hands buffer b to `by`
PoolMalloc(b, by) == MallocAllowed(b, by) /\ MallocEffect(b, by)
\* `by` returns buffer b to the pool
PoolFree(b, by) == FreeAllowed(b, by) /\ FreeEffect(b, by)
\* the instance hands out slice sid inside buffer b (0 = caller memory)
HandOut(sid, b) == HandOutAllowed(b) /\ HandOutEffect(sid, b)

\* Release / Flush: handed-out slices die
EpochEnd == live' = {} /\ UNCHANGED <<own, dirty, nopool>>

\* Invariants of the ownership design
LiveSliceBufferNotInPool == \A s \in live : s.buf = 0 \/ Owner(s.buf) = "inst"
CallerNeverPooled == 0 \notin DOMAIN own
NoPoolWhenDisabled == nopool => \A b \in DOMAIN own : own[b] # "inst"
=============================================================================
