SPECIFICATION GenSpec
CONSTANTS
  DefaultBufSize = 4096
  MaxEmpty = 3
  Sizes = {0, 1, 5, 4096, 4097, 9000}
  SmallN = 5
  Streams = {0, 5, 4097, 10000}
  Policies = {0, 2, 4096, 1000000}
  MaxOps = 2
  ByteCaps = {0, 3}
INVARIANT Inv
CONSTRAINT Emit
VIEW View
CHECK_DEADLOCK FALSE
