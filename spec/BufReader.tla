------------------------------ MODULE BufReader ------------------------------
(***************************************************************************)
(* bufiox.DefaultReader / bufiox.BytesReader (bufiox/defaultbuf.go).       *)
(*                                                                         *)
(* Two levels in one module:                                               *)
(*  - ReaderImpl : one action per critical step of the code: Start (fast   *)
(*    path | sticky error | allocate | grow-and-park), SrcRead (one        *)
(*    io.Reader.Read), Finish (epilogue of Next/Peek/Skip/ReadBinary),     *)
(*    Release (free parked, free-or-compact-or-reslice).  Real constants   *)
(*    (4096, x2 growth, pool classes = powers of two).                     *)
(*  - ReaderAbs : the C04 contract over observable values only: cursor c,  *)
(*    release mark rmark, bytes handed over by the source, whether the     *)
(*    source failed and with which error.  AbsAccepts(g, res) is the ONLY  *)
(*    rule that yields a VIOLATION in trace validation.                    *)
(* TLC checks that every behaviour of ReaderImpl yields results that       *)
(* ReaderAbs accepts (MC_BufReader); Trace_BufReader replays recorded      *)
(* executions of the real code through the same actions.                   *)
(***************************************************************************)
EXTENDS Integers, Sequences, FiniteSets, TLC

CONSTANTS DefaultBufSize,   \* 4096 in the code
          MaxEmpty          \* maxConsecutiveEmptyReads = 100 in the code

VARIABLES
  src,    \* the io.Reader: [S, pos, failed, fkind, withData]
  R,      \* reader implementation state (record, see RInit)
  g,      \* abstract (ghost) state: [c, rmark, trail (empty reads in a row at the end of this call's reads), gaveUp]
  pc,     \* "idle" | "reading"
  cur,    \* operation in flight: [op, n, gc]  (gc = cursor at Start)
  res     \* observable result of the last completed operation

vars == <<src, R, g, pc, cur, res>>

-----------------------------------------------------------------------------
(* arithmetic helpers *)
RECURSIVE P2(_, _)
P2(x, p) == IF p >= x THEN p ELSE P2(x, 2 * p)
NextPow2(x) == P2(x, 1)                    \* mcache class capacity for a request of x bytes
RECURSIVE DoubleTo(_, _)
DoubleTo(v, need) == IF v >= need THEN v ELSE DoubleTo(2 * v, need)   \* for ; v < need; v *= 2
Max(a, b) == IF a >= b THEN a ELSE b
Min(a, b) == IF a <= b THEN a ELSE b
RECURSIVE SeqMax(_)
SeqMax(s) == IF s = <<>> THEN 0 ELSE Max(Head(s), SeqMax(Tail(s)))

-----------------------------------------------------------------------------
(* The reader record.                                                      *)
(*  base  : stream position of buf[0]                                      *)
(*  blen  : len(buf)      bcap : cap(buf)      ri : read index             *)
(*  err   : sticky error  "nil" | "EOF" | "ERR" | "NOPROG"                 *)
(*  ro    : bufReadOnly (caller-owned current buffer)                      *)
(*  pend  : capacities of parked pool buffers (pendingBuf)                 *)
(*  stats : the last <= 10 capacities recorded by maxSizeStats             *)
(*  empt  : consecutive empty reads in the current acquire                 *)
RInitIO == [base |-> 0, blen |-> 0, bcap |-> 0, ri |-> 0, err |-> "nil",
            ro |-> FALSE, pend |-> <<>>, stats |-> <<>>, empt |-> 0]
\* NewBytesReader(buf): len = S, cap = C; read-only iff C > 0
RInitBytes(S, C) == [base |-> 0, blen |-> S, bcap |-> C, ri |-> 0, err |-> "nil",
                     ro |-> (C > 0), pend |-> <<>>, stats |-> <<>>, empt |-> 0]

StatsPush(st, v) == IF Len(st) < 10 THEN Append(st, v) ELSE Append(Tail(st), v)

Avail(r) == r.blen - r.ri

\* acquireSlow, part 1: allocate when there is no buffer, grow when n does not fit.
AcqPrep(r, n) ==
  LET r1 == IF r.bcap = 0
            THEN [r EXCEPT !.bcap = NextPow2(DoubleTo(Max(SeqMax(r.stats), DefaultBufSize), n)),
                           !.blen = 0, !.ro = FALSE]
            ELSE r
      r2 == IF n > r1.bcap - r1.ri
            THEN [r1 EXCEPT !.bcap = NextPow2(DoubleTo(2 * r1.bcap, n + r1.ri)),
                            !.pend = IF r1.ro THEN r1.pend ELSE Append(r1.pend, r1.bcap),
                            !.ro = FALSE]
            ELSE r1
  IN [r2 EXCEPT !.empt = 0]

\* acquireSlow, part 2: one Read of the source returned (m, e).
\* Result: [r |-> reader', done |-> BOOLEAN, a |-> value returned by acquire]
AcqRead(r, n, m, e) ==
  LET r1 == [r EXCEPT !.blen = r.blen + m] IN
  IF e # "nil" THEN [r |-> [r1 EXCEPT !.err = e], done |-> TRUE, a |-> Avail(r1)]
  ELSE IF n <= Avail(r1) THEN [r |-> r1, done |-> TRUE, a |-> n]
  ELSE IF m > 0 THEN [r |-> [r1 EXCEPT !.empt = 0], done |-> FALSE, a |-> 0]
  ELSE IF r1.empt + 1 >= MaxEmpty
       THEN [r |-> [r1 EXCEPT !.err = "NOPROG", !.empt = 0], done |-> TRUE, a |-> Avail(r1)]
       ELSE [r |-> [r1 EXCEPT !.empt = r1.empt + 1], done |-> FALSE, a |-> 0]

\* Epilogue of the four operations given acquire's result a.
\* Returns [r, res] where res = [op, n, ok, start, m, e]
Epilogue(r, op, n, a) ==
  IF op = "readbinary"
  THEN LET m == Min(a, n) IN
       [r   |-> [r EXCEPT !.ri = r.ri + m],
        res |-> [op |-> op, n |-> n, ok |-> (m = n), start |-> r.base + r.ri, m |-> m,
                 e |-> IF n > m THEN r.err ELSE "nil"]]
  ELSE IF n > a
  THEN [r |-> r, res |-> [op |-> op, n |-> n, ok |-> FALSE, start |-> r.base + r.ri, m |-> 0, e |-> r.err]]
  ELSE [r   |-> IF op = "peek" THEN r ELSE [r EXCEPT !.ri = r.ri + n],
        res |-> [op |-> op, n |-> n, ok |-> TRUE, start |-> r.base + r.ri, m |-> n, e |-> "nil"]]

\* Release: free parked; free/compact/re-slice the current buffer.
DoRelease(r) ==
  LET r1 == [r EXCEPT !.pend = <<>>] IN
  IF Avail(r1) = 0
  THEN [r1 EXCEPT !.stats = StatsPush(r1.stats, r1.bcap), !.base = r1.base + r1.blen,
                  !.blen = 0, !.bcap = 0, !.ri = 0, !.ro = FALSE]
       \* (ro is irrelevant once cap = 0: the next allocation clears it)
  ELSE IF r1.ro
  THEN [r1 EXCEPT !.base = r1.base + r1.ri, !.blen = r1.blen - r1.ri, !.bcap = r1.bcap - r1.ri, !.ri = 0]
  ELSE [r1 EXCEPT !.base = r1.base + r1.ri, !.blen = r1.blen - r1.ri, !.ri = 0]

-----------------------------------------------------------------------------
(* The source machine: what one Read(p), len(p) = want, may return.        *)
SrcLeft == src.S - src.pos
SrcOutcomes(want) ==
  IF src.failed THEN {[m |-> 0, e |-> src.fkind]}
  ELSE IF SrcLeft = 0 THEN {[m |-> 0, e |-> src.fkind]}
  ELSE {[m |-> m, e |-> "nil"] : m \in 0 .. Min(want, SrcLeft) - 1}
       \cup {[m |-> Min(want, SrcLeft), e |-> IF want >= SrcLeft /\ src.withData THEN src.fkind ELSE "nil"]}
\* the same as a predicate (trace validation meets reads into buffers of 128 MiB: the set above is not to be built)
SrcOutcomeOK(want, m, e) ==
  IF src.failed \/ SrcLeft = 0 THEN m = 0 /\ e = src.fkind
  ELSE \/ 0 <= m /\ m < Min(want, SrcLeft) /\ e = "nil"
       \/ m = Min(want, SrcLeft) /\ e = (IF want >= SrcLeft /\ src.withData THEN src.fkind ELSE "nil")
SrcAfter(o) == [src EXCEPT !.pos = src.pos + o.m, !.failed = src.failed \/ o.e # "nil"]

-----------------------------------------------------------------------------
(* ReaderAbs: the contract of property C04, over observables only.         *)
(*  gb   : ghost state when the operation started                          *)
(*  sb   : the source when the operation finished (pos, failed, fkind)     *)
(*  r    : result record                                                   *)
(* Accepts exactly what the property words allow.                          *)
IsSrcErr(e, s) == e = s.fkind
\* the least number of consecutive empty reads that justifies giving up (the code waits for MaxEmpty = 100 of them;
\* the contract only says "more than one": an isolated empty read between data is fragmentation, not a stall)
MinGiveUpRun == 2
AbsAccepts(gb, ga, s, r) ==
  LET c == gb.c
      justified == s.failed \/ ga.trail >= MinGiveUpRun \/ gb.gaveUp   \* a failure needs a cause: the source
          \* failed, or the reads of this call ENDED with empty reads in a row (a reader may lose patience with a
          \* source that stops making progress, not with one that interleaves empty reads with data), or the
          \* reader had already given up
      errOK(need) ==                                \* clauses on a failing (or short) call
          /\ r.e # "nil"                            \* "a non-nil error"
          /\ c + need > s.pos                       \* the bytes handed over so far do not suffice
          /\ justified
          /\ s.failed => IsSrcErr(r.e, s)           \* "the source's own error is what surfaces"
  IN
  IF r.n < 0 THEN ~r.ok /\ r.e # "nil" /\ ga.c = c
  ELSE CASE r.op \in {"next", "skip"} ->
              \/ r.ok /\ r.m = r.n /\ r.start = c /\ ga.c = c + r.n /\ c + r.n <= s.pos
              \/ ~r.ok /\ ga.c = c /\ errOK(r.n)
         [] r.op = "peek" ->
              \/ r.ok /\ r.m = r.n /\ r.start = c /\ ga.c = c /\ c + r.n <= s.pos
              \/ ~r.ok /\ ga.c = c /\ errOK(r.n)
         [] r.op = "readbinary" ->
              /\ 0 <= r.m /\ r.m <= r.n
              /\ r.start = c /\ ga.c = c + r.m /\ c + r.m <= s.pos
              /\ r.m < r.n => errOK(r.n)

\* ReadLen after every event
ReadLenOK(ga, readlen) == readlen = ga.c - ga.rmark

-----------------------------------------------------------------------------
(* Actions                                                                 *)
GInit == [c |-> 0, rmark |-> 0, trail |-> 0, gaveUp |-> FALSE]
NoRes == [op |-> "none", n |-> 0, ok |-> TRUE, start |-> 0, m |-> 0, e |-> "nil"]

\* Completing an operation: apply the epilogue, advance the ghost cursor by what
\* the implementation reports as consumed.
Complete(r, op, n, a, gTrail) ==
  LET ep == Epilogue(r, op, n, a)
      adv == ep.r.ri - r.ri
  IN /\ R' = ep.r
     /\ res' = ep.res
     /\ g' = [g EXCEPT !.c = g.c + adv, !.trail = gTrail,
                       !.gaveUp = g.gaveUp \/ (ep.res.e # "nil" /\ ~src'.failed /\ gTrail >= MinGiveUpRun)]
     /\ pc' = "idle"

Start(op, n) ==
  /\ pc = "idle"
  /\ cur' = [op |-> op, n |-> n, gb |-> [g EXCEPT !.trail = 0]]
  /\ IF n < 0 /\ op # "readbinary"
     THEN /\ res' = [op |-> op, n |-> n, ok |-> FALSE, start |-> R.base + R.ri, m |-> 0, e |-> "NEG"]
          /\ g' = [g EXCEPT !.trail = 0]
          /\ UNCHANGED <<R, pc, src>>
     ELSE IF n <= Avail(R)                                   \* fast path
     THEN UNCHANGED src /\ Complete(R, op, n, n, 0)
     ELSE IF R.err # "nil"                                   \* sticky error: no read is issued
     THEN UNCHANGED src /\ Complete(R, op, n, Avail(R), 0)
     ELSE /\ R' = AcqPrep(R, n)
          /\ pc' = "reading"
          /\ g' = [g EXCEPT !.trail = 0]
          /\ UNCHANGED <<src, res>>

SrcRead(m, e) ==
  /\ pc = "reading"
  /\ SrcOutcomeOK(R.bcap - R.blen, m, e)
  /\ src' = SrcAfter([m |-> m, e |-> e])
  /\ LET x == AcqRead(R, cur.n, m, e)
         emp == IF m = 0 /\ e = "nil" /\ R.bcap - R.blen > 0 THEN Min(g.trail + 1, MinGiveUpRun)
                ELSE IF m > 0 THEN 0 ELSE g.trail
     IN IF x.done
        THEN Complete(x.r, cur.op, cur.n, x.a, emp)
        ELSE /\ R' = x.r /\ g' = [g EXCEPT !.trail = emp]
             /\ UNCHANGED <<pc, res>>
  /\ UNCHANGED cur

Release ==
  /\ pc = "idle"
  /\ R' = DoRelease(R)
  /\ g' = [g EXCEPT !.rmark = g.c]
  /\ res' = [NoRes EXCEPT !.op = "release"]
  /\ cur' = [op |-> "release", n |-> 0, gb |-> g]
  /\ UNCHANGED <<src, pc>>

-----------------------------------------------------------------------------
(* Invariants (C04 clauses + model sanity)                                 *)
TypeOK == /\ 0 <= R.ri /\ R.ri <= R.blen /\ R.blen <= R.bcap
          /\ pc \in {"idle", "reading"}
InSource == R.base + R.blen = src.pos             \* no loss, no duplication inside the buffer
CursorIsRi == pc = "idle" => g.c = R.base + R.ri  \* refinement mapping Impl -> Abs
ReadLenInv == pc = "idle" => ReadLenOK(g, R.ri)
Contract == (pc = "idle" /\ res.op \notin {"none", "release"}) => AbsAccepts(cur.gb, g, src, res)
RoomWhenReading == pc = "reading" => R.bcap - R.blen > 0
NoErrWhenReading == pc = "reading" => R.err = "nil"
=============================================================================
