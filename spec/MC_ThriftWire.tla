---------------------------- MODULE MC_ThriftWire ----------------------------
(* Dec o Enc = id, Enc o Dec = id and length agreement of the wire format,   *)
(* exhaustively over bool / i8 / i16, every type byte, all 65536 first words *)
(* of a message header, boundary-lane i32 / i64 / ids / sizes and short and  *)
(* buffer-boundary strings.                                                  *)
EXTENDS ThriftWire, FiniteSets
CONSTANTS LaneAlphabet     \* {0, 1, 127, 128, 255}
VARIABLE x
Init == x = 0
Next == UNCHANGED x
Spec == Init /\ [][Next]_x

In(bs) == MkIn(Lit(bs))
Seqs(k) == [1 .. k -> LaneAlphabet]

RoundTrip(kind, v) == LET e == Enc(kind, v)  d == Dec(kind, MkIn(e)) IN d.ok /\ d.val = v /\ d.n = SegsLen(e)
BytesRoundTrip(kind, bs) == LET d == Dec(kind, In(bs)) IN d.ok /\ d.n = Len(bs) /\ Enc(kind, d.val) = Lit(bs)

Bools   == \A b \in BOOLEAN : RoundTrip("bool", [b |-> b])
Bytes8  == \A i \in -128 .. 127 : RoundTrip("byte", [i |-> i])
I16All  == \A i \in -32768 .. 32767 : RoundTrip("i16", [i |-> i])
I32Lane == \A s \in Seqs(4) : BytesRoundTrip("i32", s)
I32Vals == \A i \in {0, 1, -1, 127, 128, 255, 256, 65535, 65536, 16777216, 2147483647, -2147483647, -2147483647 - 1, -128, -129, -32768, -32769} :
              RoundTrip("i32", [i |-> i])
I64Lane == \A s \in [1 .. 8 -> {0, 1, 128, 255}] : BytesRoundTrip("i64", s) /\ BytesRoundTrip("double", s)
Fields  == \A t \in -128 .. 127, id \in {0, 1, -1, 255, 256, 32767, -32768, -129} :
              t # 0 => RoundTrip("fieldbegin", [t |-> t, id |-> id])
Stop    == Dec("fieldbegin", In(<<0>>)) = DecOK(1, [t |-> 0, id |-> 0]) /\ Enc("fieldstop", <<>>) = Lit(<<0>>)
Maps    == \A kt \in {-128, -1, 0, 2, 11, 13, 127}, vt \in {-128, 0, 8, 12, 127}, s \in Seqs(4) :
              BytesRoundTrip("mapbegin", <<I8Lane(kt), I8Lane(vt)>> \o s)
Lists   == \A et \in -128 .. 127, s \in Seqs(4) :
              BytesRoundTrip("listbegin", <<I8Lane(et)>> \o s) /\ BytesRoundTrip("setbegin", <<I8Lane(et)>> \o s)
\* strings: every string of length 0..3 over {0, 255} and pattern runs straddling the buffer boundaries
StrLit  == \A k \in 0 .. 3 : \A s \in [1 .. k -> {0, 255}] :
              LET e == Enc("string", [segs |-> Lit(s)])  d == Dec("string", MkIn(e)) IN
              d.ok /\ d.n = 4 + k /\ d.val = [at |-> 4, len |-> k] /\ SegsLen(e) = 4 + k
StrRun  == \A n \in {13, 4091, 4092, 4096, 4097, 8188, 8192, 65535, 65536, 70000} :
              LET e == Enc("binary", [segs |-> <<[r |-> <<7, 0, n>>]>>])  d == Dec("binary", MkIn(e)) IN
              d.ok /\ d.n = 4 + n /\ d.val = [at |-> 4, len |-> n] /\ e[1].l = U32Lanes(n)
\* strict version: exactly the first words 0x8001 are accepted, for all 65536 values; every message type round-trips
Version == \A a \in 0 .. 255, b \in 0 .. 255 :
              LET d == Dec("msgbegin", In(<<a, b, 0, 1, 0, 0, 0, 1, 65, 0, 0, 0, 9>>)) IN
              IF a = 128 /\ b = 1 THEN d.ok /\ d.n = 13 /\ d.val.mt = 1 /\ d.val.seq = 9 /\ d.val.name = [at |-> 8, len |-> 1]
              ELSE ~d.ok /\ d.cause = "badversion"
MsgTypes == \A mt \in 0 .. 65535 :
              LET e == Enc("msgbegin", [mt |-> mt, name |-> Lit(<<109>>), seq |-> -2])  d == Dec("msgbegin", MkIn(e)) IN
              d.ok /\ d.val.mt = mt /\ d.val.seq = -2 /\ d.n = 13
\* every truncation of a message header is rejected
MsgCuts == LET full == <<128, 1, 0, 2, 0, 0, 0, 3, 97, 98, 99, 255, 255, 255, 254>> IN
           \A k \in 0 .. Len(full) - 1 : ~Dec("msgbegin", In(SubSeq(full, 1, k))).ok
Inv == Bools /\ Bytes8 /\ I16All /\ I32Lane /\ I32Vals /\ I64Lane /\ Fields /\ Stop /\ Maps /\ Lists /\ StrLit /\ StrRun
       /\ Version /\ MsgTypes /\ MsgCuts
=============================================================================
