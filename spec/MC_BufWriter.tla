---------------------------- MODULE MC_BufWriter ----------------------------
(* Bounded exhaustive exploration of WriterImpl against WriterAbs.          *)
EXTENDS BufWriter
CONSTANTS Sizes, MaxOps, FailAts, Inits   \* Inits: set of <<len, cap, isnil>> shapes of the bytes target
VARIABLES nops, nid
MCInits == {<<0, 0, TRUE>>, <<0, 0, FALSE>>, <<0, 10, FALSE>>, <<5, 10, FALSE>>, <<10, 10, FALSE>>,
            <<16, 16, FALSE>>, <<5000, 8192, FALSE>>}   \* nil, empty, spare, partially filled, full, pool-class sized
mcvars == <<wvars, nops, nid>>

MCInit ==
  /\ nops = 0 /\ nid = 1
  /\ wres = [op |-> "none", n |-> 0, e |-> "nil"]
  /\ \/ /\ W = WInitIO /\ G = GInitW(0)
        /\ \E f \in FailAts : sink = [writes |-> 0, failAt |-> f]
     \/ \E i \in Inits :
        /\ W = WInitBytes(i[1], i[2], i[3]) /\ G = GInitW(i[1])
        /\ sink = [writes |-> 0, failAt |-> 0]

MCNext ==
  /\ nops < MaxOps /\ nops' = nops + 1 /\ nid' = nid + 1
  /\ \/ \E n \in Sizes : Malloc(n, nid)
     \/ Malloc(-1, nid)
     \/ \E n \in Sizes : WriteBinary(n, nid)
     \/ Flush

MCSpec == MCInit /\ [][MCNext]_mcvars

Inv == WTypeOK /\ WindowsTile /\ RegionInOwnWindow /\ RegionsContiguous /\ WrittenLenIsPending /\ StickyMatches

\* Refinement: every step of the detailed model is a step of the integer core (Ind_BufWriter.tla, whose invariants Apalache
\* proves for regions, buffers and histories of any size and length), for EACH choice k of the region the core tracks
CoreOf(k) == INSTANCE Ind_BufWriter WITH
   ParkKeepsWindow <- TRUE,
   len <- W.len, cap <- W.cap, isnil <- W.isnil, failed <- (W.err # "nil"), cache <- W.cache,
   winLo <- (IF W.pend = <<>> THEN 0 ELSE W.pend[Len(W.pend)].len), npark <- Len(W.pend),
   base <- (IF G.first THEN G.init ELSE 0), sumPend <- SumLen(G.pend), nreg <- Len(G.pend),
   tk <- (k <= Len(W.regs)),
   tOff <- (IF k <= Len(W.regs) THEN W.regs[k].off ELSE 0),
   tLen <- (IF k <= Len(W.regs) THEN W.regs[k].len ELSE 0),
   tBefore <- (IF k <= Len(W.regs) THEN SumLen(SubSeq(G.pend, 1, k - 1)) ELSE 0),
   tCur <- (k <= Len(W.regs) /\ W.regs[k].buf = Len(W.pend) + 1),
   tLo <- (IF k <= Len(W.regs) /\ W.regs[k].buf <= Len(W.pend) THEN WinLo(W, W.regs[k].buf) ELSE 0),
   tHi <- (IF k <= Len(W.regs) /\ W.regs[k].buf <= Len(W.pend) THEN WinHi(W, W.regs[k].buf) ELSE 0),
   rop <- wres.op, rn <- wres.n, re <- wres.e
RefinesCore == \A k \in 1 .. MaxOps : (CoreOf(k)!Init /\ [][CoreOf(k)!Next]_(CoreOf(k)!wcvars))
CoreInvHolds == \A k \in 1 .. MaxOps : CoreOf(k)!IndInv

\* action properties
StickyError == [][(W.err # "nil") => (W' = W /\ sink' = sink /\ wres'.e = W.err)]_mcvars
FlushEmpties == [][(wres'.op = "flush" /\ wres'.e = "nil" /\ nops' = nops + 1) => (W'.len = 0 /\ G'.pend = <<>>)]_mcvars
ErrorsPerContract == [][(nops' = nops + 1 /\ wres'.op = "malloc") => AbsMallocOK(G, wres')]_mcvars
=============================================================================
