----------------------------- MODULE FastStructs -----------------------------
(***************************************************************************)
(* The shipped FastCodec structs (Base, BaseResp, ApplicationException):   *)
(* a schema-driven reference reader and writer.                            *)
(*                                                                         *)
(*   ReadStruct(schema, in) : loop  field-begin -> STOP | known (id, type) *)
(*       -> typed read | anything else -> Skip with the reference grammar  *)
(*       of ThriftSkip.  The last occurrence of a known field wins.        *)
(*   EncStruct(schema, v)   : canonical writer (map entries in the given   *)
(*       order), BLen(schema, v) its length.                               *)
(*   MsgRead / MsgEnc       : message envelope + struct (MarshalFastMsg /  *)
(*       UnmarshalFastMsg, property C12).                                  *)
(*                                                                         *)
(* Struct values: a record with one entry per known field.  String fields  *)
(* are segment lists (normalised with Norm), i32 fields integers, the      *)
(* optional map field is [set |-> BOOLEAN, pairs |-> sequence of <<key, value>>].      *)
(***************************************************************************)
EXTENDS ThriftSkip, ThriftWire

\* ---- segment helpers ---------------------------------------------------
\* the sub-string of `in` of length n starting at 0-based offset `at`, as a segment list
RECURSIVE Drop(_, _), Take(_, _)
Drop(ss, k) ==
  IF k = 0 \/ ss = <<>> THEN ss
  ELSE LET h == Head(ss)  n == SegLen(h) IN
       IF k >= n THEN Drop(Tail(ss), k - n)
       ELSE IF IsRun(h) THEN <<[r |-> <<h.r[1], h.r[2] + k, n - k>>]>> \o Tail(ss)
       ELSE IF IsZeros(h) THEN <<[z |-> n - k]>> \o Tail(ss)
       ELSE <<[l |-> SubSeq(h.l, k + 1, n)]>> \o Tail(ss)
Take(ss, k) ==
  IF k = 0 \/ ss = <<>> THEN <<>>
  ELSE LET h == Head(ss)  n == SegLen(h) IN
       IF k >= n THEN <<h>> \o Take(Tail(ss), k - n)
       ELSE IF IsRun(h) THEN <<[r |-> <<h.r[1], h.r[2], k>>]>>
       ELSE IF IsZeros(h) THEN <<[z |-> k]>>
       ELSE <<[l |-> SubSeq(h.l, 1, k)]>>
Slice(in, at, n) == Take(Drop(in.segs, at), n)

\* normal form of a byte string given as segments: pattern runs of up to NormLimit bytes are spelled out
\* as literals, adjacent literals are merged, empty segments dropped.  Two segment lists produced under the
\* harness's conventions denote the same bytes iff their normal forms are equal.
NormLimit == 64
RunToLit(s) == IF IsRun(s) /\ s.r[3] <= NormLimit THEN [l |-> [i \in 1 .. s.r[3] |-> PatByte(s.r[1], s.r[2] + i - 1)]]
               ELSE IF IsZeros(s) /\ s.z <= NormLimit THEN [l |-> [i \in 1 .. s.z |-> 0]] ELSE s
Norm(ss) == Canon([k \in 1 .. Len(ss) |-> RunToLit(ss[k])])

\* equality of the byte strings denoted by two segment lists: equal normal forms, or (when the recogniser
\* segmented the same bytes differently, e.g. a run that happens to continue into the next byte) byte by byte
SegsEq(a, b) == \/ a = b
                \/ /\ SegsLen(a) = SegsLen(b)        \* (cheap refutation first: maps of hundreds of keys compare n^2 pairs)
                   /\ Norm(a) = Norm(b)
                \/ /\ SegsLen(a) = SegsLen(b)
                   /\ \A i \in 1 .. SegsLen(a) : SegsByte(a, i) = SegsByte(b, i) /\ SegsByte(a, i) >= 0

\* pair lists (maps) as sets, with semantic equality of keys and values
PairIn(p, ps) == \E x \in DOMAIN ps : SegsEq(p[1], ps[x][1]) /\ SegsEq(p[2], ps[x][2])
SamePairs(a, b) == /\ Len(a) = Len(b)
                   /\ \A x \in DOMAIN a : PairIn(a[x], b)
                   /\ \A x \in DOMAIN b : PairIn(b[x], a)

\* ---- schemas -------------------------------------------------------------
\* field kinds: "str" (STRING, tag 11), "i32" (tag 8), "map" (MAP<STRING,STRING>, tag 13, optional)
Schema(name) ==
  CASE name = "Base"     -> <<[id |-> 1, k |-> "str", f |-> "s1"], [id |-> 2, k |-> "str", f |-> "s2"],
                              [id |-> 3, k |-> "str", f |-> "s3"], [id |-> 6, k |-> "map", f |-> "extra"]>>
    [] name = "BaseResp" -> <<[id |-> 1, k |-> "str", f |-> "s1"], [id |-> 2, k |-> "i32", f |-> "i"],
                              [id |-> 3, k |-> "map", f |-> "extra"]>>
    [] name = "AppEx"    -> <<[id |-> 1, k |-> "str", f |-> "s1"], [id |-> 2, k |-> "i32", f |-> "i"]>>
TagOf(k) == CASE k = "str" -> 11 [] k = "i32" -> 8 [] k = "map" -> 13

NoMap == [set |-> FALSE, pairs |-> <<>>]
Default(name) ==
  CASE name = "Base"     -> [s1 |-> <<>>, s2 |-> <<>>, s3 |-> <<>>, extra |-> NoMap]
    [] name = "BaseResp" -> [s1 |-> <<>>, i |-> 0, extra |-> NoMap]
    [] name = "AppEx"    -> [s1 |-> <<>>, i |-> 0]

FieldFor(sch, id, t) ==
  LET hits == {j \in 1 .. Len(sch) : sch[j].id = id /\ TagOf(sch[j].k) = t} IN
  IF hits = {} THEN 0 ELSE CHOOSE j \in hits : TRUE

\* ---- reader --------------------------------------------------------------
RFail(n, c) == [ok |-> FALSE, n |-> n, cause |-> c, val |-> <<>>]

\* map<string,string> body at position i (after the 6-byte header), n entries; later duplicates of a key win
RECURSIVE ReadPairs(_, _, _, _)
ReadPairs(in, i, n, acc) ==
  IF n = 0 THEN [ok |-> TRUE, i |-> i, pairs |-> acc, cause |-> ""]
  ELSE LET k == DecStrAt(in, i) IN
       IF ~k.ok THEN [ok |-> FALSE, i |-> i, pairs |-> acc, cause |-> k.cause]
       ELSE LET v == DecStrAt(in, i + k.n) IN
            IF ~v.ok THEN [ok |-> FALSE, i |-> i, pairs |-> acc, cause |-> v.cause]
            ELSE LET kk == Norm(Slice(in, k.val.at, k.val.len))
                     vv == Norm(Slice(in, v.val.at, v.val.len))
                     rest == SelectSeq(acc, LAMBDA p : ~SegsEq(p[1], kk))
                 IN ReadPairs(in, i + k.n + v.n, n - 1, Append(rest, <<kk, vv>>))

RECURSIVE ReadFields(_, _, _, _)
ReadFields(name, in, i, val) ==
  IF Rem(in, i) < 1 THEN RFail(i - 1, "short")
  ELSE LET t == I8(At(in, i)) IN
       IF t = 0 THEN [ok |-> TRUE, n |-> i, cause |-> "", val |-> val]
       ELSE IF Rem(in, i) < 3 THEN RFail(i - 1, "short")
       ELSE LET id == S16(in, i + 1)
                j  == FieldFor(Schema(name), id, t)
                p  == i + 3
            IN IF j = 0
               THEN LET r == Skip(in, p, t, DefaultDepth, FALSE) IN        \* unknown / differently typed: skipped
                    IF r.e # "" THEN RFail(p - 1, r.e) ELSE ReadFields(name, in, p + r.n, val)
               ELSE LET fd == Schema(name)[j] IN
                    IF fd.k = "str" THEN
                         LET d == DecStrAt(in, p) IN
                         IF ~d.ok THEN RFail(p - 1, d.cause)
                         ELSE ReadFields(name, in, p + d.n, [val EXCEPT ![fd.f] = Norm(Slice(in, d.val.at, d.val.len))])
                    ELSE IF fd.k = "i32" THEN
                         IF Rem(in, p) < 4 THEN RFail(p - 1, "short")
                         ELSE ReadFields(name, in, p + 4, [val EXCEPT ![fd.f] = S32(in, p)])
                    ELSE \* map<string,string>; the declared count is read as an unsigned number
                         IF Rem(in, p) < 6 THEN RFail(p - 1, "short")
                         ELSE LET cnt == Size4(in, p + 2) IN
                              IF cnt < 0 THEN RFail(p - 1, "hugecount")   \* >= 2^31 entries can never be present
                              ELSE LET m == ReadPairs(in, p + 6, cnt, <<>>) IN
                                   IF ~m.ok THEN RFail(m.i - 1, m.cause)
                                   ELSE ReadFields(name, in, m.i, [val EXCEPT ![fd.f] = [set |-> TRUE, pairs |-> m.pairs]])

\* n = bytes consumed
ReadStruct(name, in) == LET r == ReadFields(name, in, 1, Default(name)) IN
                        IF r.ok THEN [r EXCEPT !.n = r.n] ELSE r

\* ---- writer ----------------------------------------------------------------
StrEnc(segs) == Lit(U32Lanes(SegsLen(segs))) \o segs
RECURSIVE PairsEnc(_)
PairsEnc(ps) == IF ps = <<>> THEN <<>> ELSE StrEnc(Head(ps)[1]) \o StrEnc(Head(ps)[2]) \o PairsEnc(Tail(ps))
FieldEnc(fd, v) ==
  LET hdr == Lit(<<TagOf(fd.k)>> \o I16Lanes(fd.id)) IN
  IF fd.k = "str" THEN hdr \o StrEnc(v[fd.f])
  ELSE IF fd.k = "i32" THEN hdr \o Lit(I32Lanes(v[fd.f]))
  ELSE IF ~v[fd.f].set THEN <<>>
  ELSE hdr \o Lit(<<11, 11>> \o U32Lanes(Len(v[fd.f].pairs))) \o PairsEnc(v[fd.f].pairs)
RECURSIVE FieldsEnc(_, _, _)
FieldsEnc(sch, j, v) == IF j > Len(sch) THEN Lit(<<0>>) ELSE FieldEnc(sch[j], v) \o FieldsEnc(sch, j + 1, v)
EncStruct(name, v) == Norm(FieldsEnc(Schema(name), 1, v))
BLen(name, v) == SegsLen(EncStruct(name, v))

\* value equality up to map entry order
SameVal(name, a, b) ==
  \A j \in 1 .. Len(Schema(name)) :
     LET f == Schema(name)[j].f IN
     IF Schema(name)[j].k = "map"
     THEN /\ a[f].set = b[f].set
          /\ SamePairs(a[f].pairs, b[f].pairs)
     ELSE IF Schema(name)[j].k = "str" THEN SegsEq(a[f], b[f])
     ELSE a[f] = b[f]

\* normalise a logged value (strings as segment lists, map as pairs) for comparison
NormVal(name, v) ==
  [f \in DOMAIN v |->
     IF f \in {"s1", "s2", "s3"} THEN Norm(v[f])
     ELSE IF f = "extra" THEN [set |-> v[f].set, pairs |-> [x \in DOMAIN v[f].pairs |-> <<Norm(v[f].pairs[x][1]), Norm(v[f].pairs[x][2])>>]]
     ELSE v[f]]
=============================================================================
