------------------------------ MODULE BufWriter ------------------------------
(***************************************************************************)
(* bufiox.DefaultWriter / bufiox.BytesWriter (bufiox/defaultbuf.go).       *)
(*                                                                         *)
(*  WriterImpl : the code's buffers.  W.cur = [len, cap], W.pend = parked  *)
(*    buffers (length at parking time, capacity), W.regs = where every     *)
(*    region handed out since the last Flush physically lives (buffer      *)
(*    index, offset, length).  Growth parks the current buffer WITHOUT     *)
(*    copying; Flush stitches parked buffer j into the final buffer over   *)
(*    the offset window [L(j-1), L(j)) and issues one sink Write.          *)
(*  WriterAbs  : the C05 contract over observables: the pending regions in *)
(*    order, the sticky sink error, WrittenLen, the bytes target.          *)
(***************************************************************************)
EXTENDS Integers, Sequences, FiniteSets, TLC

CONSTANTS DefaultBufSize      \* 4096

VARIABLES
  W,      \* implementation state
  G,      \* abstract state
  sink,   \* [writes, failAt]  number of sink writes so far / the write that fails (0 = never)
  wres    \* result of the last operation

wvars == <<W, G, sink, wres>>

RECURSIVE P2(_, _)
P2(x, p) == IF p >= x THEN p ELSE P2(x, 2 * p)
NextPow2(x) == P2(x, 1)
RECURSIVE DoubleTo(_, _)
DoubleTo(v, need) == IF v >= need THEN v ELSE DoubleTo(2 * v, need)
Max(a, b) == IF a >= b THEN a ELSE b
RECURSIVE SeqMax(_)
SeqMax(s) == IF s = <<>> THEN 0 ELSE Max(Head(s), SeqMax(Tail(s)))
RECURSIVE SumLen(_)
SumLen(rs) == IF rs = <<>> THEN 0 ELSE Head(rs).len + SumLen(Tail(rs))
StatsPush(st, v) == IF Len(st) < 10 THEN Append(st, v) ELSE Append(Tail(st), v)

-----------------------------------------------------------------------------
(* W: len, cap : current buffer;  isnil : w.buf == nil                      *)
(*    pend : <<[len, cap]>> parked buffers;  err : "nil" | "SINK"           *)
(*    cache : FALSE for the bytes-backed writer (disableCache)              *)
(*    regs : <<[buf, off, len]>> physical place of each pending region      *)
(*           (buf = index into pend \o <<cur>> at the time of Malloc)       *)
WInitIO == [len |-> 0, cap |-> 0, isnil |-> TRUE, pend |-> <<>>, err |-> "nil", cache |-> TRUE,
            stats |-> <<>>, regs |-> <<>>]
\* NewBytesWriter(&buf): len(buf) = L, cap(buf) = C, buf == nil iff isnil
WInitBytes(L, C, isnil) == [len |-> L, cap |-> C, isnil |-> isnil, pend |-> <<>>, err |-> "nil",
                            cache |-> FALSE, stats |-> <<>>, regs |-> <<>>]

\* capacity obtained for a request of c bytes
AllocCap(w, c) == IF w.cache THEN NextPow2(c) ELSE c

\* acquire(n)
Acquire(w, n) ==
  IF w.len + n <= w.cap THEN w
  ELSE LET w1 == IF w.cap = 0
                 THEN [w EXCEPT !.cap = AllocCap(w, DoubleTo(Max(SeqMax(w.stats), DefaultBufSize), n)),
                                !.len = 0, !.isnil = FALSE]
                 ELSE w
       IN IF n > w1.cap - w1.len
          THEN [w1 EXCEPT !.cap = AllocCap(w1, DoubleTo(2 * w1.cap, n + w1.len)),
                          !.pend = Append(w1.pend, [len |-> w1.len, cap |-> w1.cap])]
          ELSE w1

\* Malloc / WriteBinary place a region at the end of the current buffer
Place(w, n) ==
  LET a == Acquire(w, n) IN
  [a EXCEPT !.len = a.len + n,
            !.regs = Append(a.regs, [buf |-> Len(a.pend) + 1, off |-> a.len, len |-> n])]

\* window of buffer j (1..Len(pend)+1) in the stitched image
WinLo(w, j) == IF j = 1 THEN 0 ELSE w.pend[j - 1].len
WinHi(w, j) == IF j = Len(w.pend) + 1 THEN w.len ELSE w.pend[j].len

\* after a successful Flush
Flushed(w) == [w EXCEPT !.len = 0, !.cap = 0, !.isnil = TRUE, !.pend = <<>>, !.regs = <<>>,
                        !.stats = StatsPush(w.stats, w.cap)]

-----------------------------------------------------------------------------
(* WriterAbs                                                                *)
(* G: pend : <<[len, id]>> regions in order (id names the region/payload)   *)
(*    failed, init (bytes target: length of the initial contents),          *)
(*    first (no successful Flush yet)                                       *)
GInitW(init) == [pend |-> <<>>, failed |-> FALSE, init |-> init, first |-> TRUE]

\* What the C05 contract says about each observable result.
\*   r = [op, n, e, wl]  plus for flush: r.image = <<[len, id]>> the regions found in the sink payload(s)
\*   and r.sinkcalls; for bytes flavour r.target = <<[len, id]>> (without the initial part) and r.tinit
AbsMallocOK(gb, r) ==
  IF gb.failed THEN r.e = "SINK"
  ELSE IF r.n < 0 THEN r.e # "nil"
  ELSE r.e = "nil"
AbsWrittenLenOK(ga, wl) ==
  ga.failed \/ wl = SumLen(ga.pend) + (IF ga.first THEN ga.init ELSE 0)

-----------------------------------------------------------------------------
(* Actions                                                                  *)
Malloc(n, id) ==
  /\ IF W.err # "nil"
     THEN /\ wres' = [op |-> "malloc", n |-> n, e |-> W.err] /\ UNCHANGED <<W, G>>
     ELSE IF n < 0
     THEN /\ wres' = [op |-> "malloc", n |-> n, e |-> "NEG"] /\ UNCHANGED <<W, G>>
     ELSE /\ W' = Place(W, n)
          /\ G' = [G EXCEPT !.pend = Append(G.pend, [len |-> n, id |-> id])]
          /\ wres' = [op |-> "malloc", n |-> n, e |-> "nil"]
  /\ UNCHANGED sink

WriteBinary(n, id) ==
  /\ IF W.err # "nil"
     THEN /\ wres' = [op |-> "writebinary", n |-> n, e |-> W.err] /\ UNCHANGED <<W, G>>
     ELSE /\ W' = Place(W, n)
          /\ G' = [G EXCEPT !.pend = Append(G.pend, [len |-> n, id |-> id])]
          /\ wres' = [op |-> "writebinary", n |-> n, e |-> "nil"]
  /\ UNCHANGED sink

\* Flush: sinkOK says whether the sink accepts this write
Flush ==
  IF W.err # "nil"
  THEN /\ wres' = [op |-> "flush", n |-> 0, e |-> W.err, wrote |-> FALSE] /\ UNCHANGED <<W, G, sink>>
  ELSE IF W.isnil
  THEN \* w.buf == nil: nothing but zero-length regions can be pending; no sink write is issued
       /\ wres' = [op |-> "flush", n |-> 0, e |-> "nil", wrote |-> FALSE]
       /\ W' = [W EXCEPT !.regs = <<>>] /\ G' = [G EXCEPT !.pend = <<>>] /\ UNCHANGED sink
  ELSE /\ sink' = [sink EXCEPT !.writes = sink.writes + 1]
       /\ IF ~W.cache \/ sink.failAt # sink.writes + 1
          THEN /\ W' = Flushed(W)
               /\ G' = [G EXCEPT !.pend = <<>>, !.first = FALSE]
               /\ wres' = [op |-> "flush", n |-> 0, e |-> "nil", wrote |-> TRUE]
          ELSE /\ W' = [W EXCEPT !.err = "SINK"]
               /\ G' = [G EXCEPT !.failed = TRUE]
               /\ wres' = [op |-> "flush", n |-> 0, e |-> "SINK", wrote |-> TRUE]

-----------------------------------------------------------------------------
(* Invariants                                                               *)
WTypeOK == /\ 0 <= W.len /\ W.len <= W.cap
           /\ \A j \in 1 .. Len(W.pend) : W.pend[j].len <= W.pend[j].cap
\* parked lengths are non-decreasing and bounded by the current length: the stitch windows tile [0, len)
WindowsTile == /\ \A j \in 1 .. Len(W.pend) : WinLo(W, j) <= WinHi(W, j)
               /\ WinLo(W, Len(W.pend) + 1) <= W.len
\* every region lies in the stitch window of the buffer it was written to (=> delayed copying is correct)
RegionInOwnWindow ==
  \A k \in 1 .. Len(W.regs) :
     LET r == W.regs[k] IN WinLo(W, r.buf) <= r.off /\ r.off + r.len <= WinHi(W, r.buf)
\* regions are laid out back to back in order, after the initial contents: FlushImage = initial \o Concat(regions)
RegionsContiguous ==
  /\ Len(W.regs) = Len(G.pend)
  /\ \A k \in 1 .. Len(W.regs) :
        /\ W.regs[k].len = G.pend[k].len
        /\ W.regs[k].off = (IF G.first THEN G.init ELSE 0) + SumLen(SubSeq(G.pend, 1, k - 1))
  /\ (W.err = "nil") => W.len = (IF G.first THEN G.init ELSE 0) + SumLen(G.pend)
WrittenLenIsPending == (W.err = "nil") => AbsWrittenLenOK(G, W.len)
StickyMatches == (W.err # "nil") = G.failed
NoPoolWhenCacheDisabled == TRUE   \* see BufPool.tla (ownership model); kept here as a marker
=============================================================================
