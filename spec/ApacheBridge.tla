---------------------------- MODULE ApacheBridge ----------------------------
(***************************************************************************)
(* protocol/thrift/apache: the buffer transport IS the bytes.Buffer it was *)
(* created over (one state, two handles T = transport, B = buffer); the    *)
(* generic transport's RemainingBytes; the callback registry.              *)
(***************************************************************************)
EXTENDS Integers, Sequences, TLC

VARIABLES buf      \* the unread bytes of the one underlying buffer
Min(a, b) == IF a <= b THEN a ELSE b

\* every operation is available through either handle h \in {"T", "B"} and acts on the same state
Write(h, bs) == buf' = buf \o bs
ReadN(n) == Min(n, Len(buf))
Read(h, n) == buf' = SubSeq(buf, ReadN(n) + 1, Len(buf))
ReadErr(n) == IF Len(buf) = 0 /\ n > 0 THEN "EOF" ELSE "nil"
ReadData(n) == SubSeq(buf, 1, ReadN(n))
Reset(h) == buf' = <<>>
Close == buf' = <<>>                    \* Close empties the buffer
Remaining == Len(buf)                   \* RemainingBytes = the buffer's unread length

\* generic transport: readable = the wrapped object's ReadableLen() (or -1 if it has no such method)
GenericRemaining(readable) == IF readable > 0 THEN readable ELSE -1     \* -1 stands for "unknown" (max uint64)

\* ... and when the wrapped object's answer changes from one call to the next (a live connection): whatever the
\* transport asked and however often, it reports a POSITIVE length the object actually exposed, or "unknown";
\* "unknown" needs a reason (some answer was not positive, or the object was never asked)
GenericRemainingLive(answers, rem) ==
  \/ rem > 0 /\ \E i \in 1 .. Len(answers) : answers[i] = rem
  \/ rem = -1 /\ (answers = <<>> \/ \E i \in 1 .. Len(answers) : answers[i] <= 0)

\* callback registry: a registered callback receives exactly the arguments and its result is returned;
\* an unregistered one yields the specific error
RegistryResult(registered, cbret) == IF registered THEN cbret ELSE "notregistered"
=============================================================================
