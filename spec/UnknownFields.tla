---------------------------- MODULE UnknownFields ----------------------------
(***************************************************************************)
(* Unknown-field trees (protocol/thrift/unknownfields).                    *)
(*                                                                         *)
(* A field is [id, t, kt, vt, v]:  t its type tag, kt / vt the key and     *)
(* value (element) type tags - set only where meaningful: vt for set and   *)
(* list, kt and vt for map, 0 otherwise - and v its value:                 *)
(*   bool [b], i8/i16/i32 [i], i64/double [lanes], string [segs],          *)
(*   set/list [elems] (fields with id = position, t = element type),       *)
(*   map [kv] (flattened key0, val0, key1, val1, ...; id = pair index),    *)
(*   struct [fields].                                                      *)
(* ToTree parses a sequence of encoded fields, ToBytes writes a tree,      *)
(* TreeLen its length.  Property C13: ToBytes(ToTree(b)) = b for canonical *)
(* bools, ToTree(ToBytes(t)) = t for well-typed t, TreeLen = Len.          *)
(***************************************************************************)
EXTENDS FastStructs

Fld(id, t, kt, vt, v) == [id |-> id, t |-> t, kt |-> kt, vt |-> vt, v |-> v]
PFail(c) == [ok |-> FALSE, n |-> 0, cause |-> c, f |-> <<>>]

\* position-based ids wrap like int16(i)
Id16(k) == LET m == k % 65536 IN IF m >= 32768 THEN m - 65536 ELSE m

RECURSIVE ParseVal(_, _, _, _), ParseElems(_, _, _, _, _, _), ParsePairs(_, _, _, _, _, _, _), ParseFields(_, _, _)

\* value of type t at position i, given the id to attach: [ok, n, cause, f]
ParseVal(in, i, t, id) ==
  CASE t = 2  -> IF Rem(in, i) < 1 THEN PFail("short") ELSE [ok |-> TRUE, n |-> 1, cause |-> "", f |-> Fld(id, t, 0, 0, [b |-> At(in, i) = 1])]
    [] t = 3  -> IF Rem(in, i) < 1 THEN PFail("short") ELSE [ok |-> TRUE, n |-> 1, cause |-> "", f |-> Fld(id, t, 0, 0, [i |-> I8(At(in, i))])]
    [] t = 6  -> IF Rem(in, i) < 2 THEN PFail("short") ELSE [ok |-> TRUE, n |-> 2, cause |-> "", f |-> Fld(id, t, 0, 0, [i |-> S16(in, i)])]
    [] t = 8  -> IF Rem(in, i) < 4 THEN PFail("short") ELSE [ok |-> TRUE, n |-> 4, cause |-> "", f |-> Fld(id, t, 0, 0, [i |-> S32(in, i)])]
    [] t \in {4, 10} -> IF Rem(in, i) < 8 THEN PFail("short")
                        ELSE [ok |-> TRUE, n |-> 8, cause |-> "", f |-> Fld(id, t, 0, 0, [lanes |-> LanesAt(in, i, 8)])]
    [] t = 11 -> LET d == DecStrAt(in, i) IN
                 IF ~d.ok THEN PFail(d.cause)
                 ELSE [ok |-> TRUE, n |-> d.n, cause |-> "", f |-> Fld(id, t, 0, 0, [segs |-> Norm(Slice(in, d.val.at, d.val.len))])]
    [] t \in {14, 15} ->
         IF Rem(in, i) < 5 THEN PFail("short")
         ELSE LET et == I8(At(in, i))  cnt == Size4(in, i + 1) IN
              IF cnt < 0 THEN PFail("hugecount")
              ELSE LET r == ParseElems(in, i + 5, et, cnt, 0, <<>>) IN
                   IF ~r.ok THEN PFail(r.cause)
                   ELSE [ok |-> TRUE, n |-> 5 + r.n, cause |-> "", f |-> Fld(id, t, 0, et, [elems |-> r.fs])]
    [] t = 13 ->
         IF Rem(in, i) < 6 THEN PFail("short")
         ELSE LET kt == I8(At(in, i))  vt == I8(At(in, i + 1))  cnt == Size4(in, i + 2) IN
              IF cnt < 0 THEN PFail("hugecount")
              ELSE LET r == ParsePairs(in, i + 6, kt, vt, cnt, 0, <<>>) IN
                   IF ~r.ok THEN PFail(r.cause)
                   ELSE [ok |-> TRUE, n |-> 6 + r.n, cause |-> "", f |-> Fld(id, t, kt, vt, [kv |-> r.fs])]
    [] t = 12 -> LET r == ParseFields(in, i, <<>>) IN
                 IF ~r.ok THEN PFail(r.cause)
                 ELSE [ok |-> TRUE, n |-> r.n, cause |-> "", f |-> Fld(id, t, 0, 0, [fields |-> r.fs])]
    [] OTHER -> PFail("type")

\* cnt elements of type et starting at i; k = index of the next element: [ok, n, cause, fs]
ParseElems(in, i, et, cnt, k, acc) ==
  IF k = cnt THEN [ok |-> TRUE, n |-> 0, cause |-> "", fs |-> acc]
  ELSE LET r == ParseVal(in, i, et, Id16(k)) IN
       IF ~r.ok THEN [ok |-> FALSE, n |-> 0, cause |-> r.cause, fs |-> acc]
       ELSE LET rest == ParseElems(in, i + r.n, et, cnt, k + 1, Append(acc, r.f)) IN
            [rest EXCEPT !.n = IF rest.ok THEN r.n + rest.n ELSE 0]

ParsePairs(in, i, kt, vt, cnt, k, acc) ==
  IF k = cnt THEN [ok |-> TRUE, n |-> 0, cause |-> "", fs |-> acc]
  ELSE LET a == ParseVal(in, i, kt, Id16(k)) IN
       IF ~a.ok THEN [ok |-> FALSE, n |-> 0, cause |-> a.cause, fs |-> acc]
       ELSE LET b == ParseVal(in, i + a.n, vt, Id16(k)) IN
            IF ~b.ok THEN [ok |-> FALSE, n |-> 0, cause |-> b.cause, fs |-> acc]
            ELSE LET rest == ParsePairs(in, i + a.n + b.n, kt, vt, cnt, k + 1, acc \o <<a.f, b.f>>) IN
                 [rest EXCEPT !.n = IF rest.ok THEN a.n + b.n + rest.n ELSE 0]

\* struct body: (type, id, value)* STOP ; n includes the STOP byte
ParseFields(in, i, acc) ==
  IF Rem(in, i) < 1 THEN [ok |-> FALSE, n |-> 0, cause |-> "short", fs |-> acc]
  ELSE LET t == I8(At(in, i)) IN
       IF t = 0 THEN [ok |-> TRUE, n |-> 1, cause |-> "", fs |-> acc]
       ELSE IF Rem(in, i) < 3 THEN [ok |-> FALSE, n |-> 0, cause |-> "short", fs |-> acc]
       ELSE LET r == ParseVal(in, i + 3, t, S16(in, i + 1)) IN
            IF ~r.ok THEN [ok |-> FALSE, n |-> 0, cause |-> r.cause, fs |-> acc]
            ELSE LET rest == ParseFields(in, i + 3 + r.n, Append(acc, r.f)) IN
                 [rest EXCEPT !.n = IF rest.ok THEN 3 + r.n + rest.n ELSE 0]

\* ConvertUnknownFields: a non-empty sequence of fields up to the end of the buffer (no STOP)
RECURSIVE TopFields(_, _, _)
TopFields(in, i, acc) ==
  IF i = in.len + 1 THEN [ok |-> TRUE, fs |-> acc, cause |-> ""]
  ELSE IF Rem(in, i) < 1 THEN [ok |-> FALSE, fs |-> acc, cause |-> "short"]
  ELSE LET t == I8(At(in, i)) IN
       IF t = 0 THEN \* a STOP tag is read as a field of type 0 -> unknown data type
            [ok |-> FALSE, fs |-> acc, cause |-> "type"]
       ELSE IF Rem(in, i) < 3 THEN [ok |-> FALSE, fs |-> acc, cause |-> "short"]
       ELSE LET r == ParseVal(in, i + 3, t, S16(in, i + 1)) IN
            IF ~r.ok THEN [ok |-> FALSE, fs |-> acc, cause |-> r.cause]
            ELSE TopFields(in, i + 3 + r.n, Append(acc, r.f))
ToTree(in) == IF in.len = 0 THEN [ok |-> FALSE, fs |-> <<>>, cause |-> "empty"] ELSE TopFields(in, 1, <<>>)

\* ---- writer ----------------------------------------------------------------
RECURSIVE ValBytes(_), SeqBytes(_), FieldsBytes(_)
ValBytes(f) ==
  CASE f.t = 2 -> Lit(<<IF f.v.b THEN 1 ELSE 0>>)
    [] f.t = 3 -> Lit(<<I8Lane(f.v.i)>>)
    [] f.t = 6 -> Lit(I16Lanes(f.v.i))
    [] f.t = 8 -> Lit(I32Lanes(f.v.i))
    [] f.t \in {4, 10} -> Lit(f.v.lanes)
    [] f.t = 11 -> StrEnc(f.v.segs)
    [] f.t \in {14, 15} -> Lit(<<I8Lane(f.vt)>> \o U32Lanes(Len(f.v.elems))) \o SeqBytes(f.v.elems)
    [] f.t = 13 -> Lit(<<I8Lane(f.kt), I8Lane(f.vt)>> \o U32Lanes(Len(f.v.kv) \div 2)) \o SeqBytes(f.v.kv)
    [] f.t = 12 -> FieldsBytes(f.v.fields) \o Lit(<<0>>)
SeqBytes(fs) == IF fs = <<>> THEN <<>> ELSE ValBytes(Head(fs)) \o SeqBytes(Tail(fs))
FieldsBytes(fs) == IF fs = <<>> THEN <<>>
                   ELSE Lit(<<I8Lane(Head(fs).t)>> \o I16Lanes(Head(fs).id)) \o ValBytes(Head(fs)) \o FieldsBytes(Tail(fs))
ToBytes(fs) == Norm(FieldsBytes(fs))
TreeLen(fs) == SegsLen(FieldsBytes(fs))
=============================================================================
