SPECIFICATION TraceSpec
POSTCONDITION TraceConsumed
CHECK_DEADLOCK FALSE
