SPECIFICATION TraceSpec
CONSTANTS
  DefaultBufSize = 4096
  MaxEmpty = 100
POSTCONDITION TraceConsumed
CHECK_DEADLOCK FALSE
