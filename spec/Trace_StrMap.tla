------------------------------ MODULE Trace_StrMap ------------------------------
(* Validates recorded histories of the real StrMap[int], StrMap[struct] and      *)
(* Str2Str: every load is an enabled Load action on the REAL table (slots and    *)
(* hashtable read through the verif hook), every Get agrees with MapAbs (the Go  *)
(* map semantics => MISMATCH) and with ImplGet on the real table (=> DRIFT).     *)
EXTENDS StrMap, TraceCommon
VARIABLES l, skip
tvars == <<mvars, l, skip>>

Pairs(ev) == [i \in DOMAIN ev.kv |-> <<ev.kv[i][1], ev.kv[i][2]>>]
ValOf(ev, key) == (CHOOSE i \in DOMAIN ev.kv : ev.kv[i][1] = key)
Its(ev) == [i \in DOMAIN ev.items |-> [key |-> ev.items[i][1], slot |-> ev.items[i][2], v |-> ev.kv[ValOf(ev, ev.items[i][1])][2]]]
HtFn(ev) == [sl \in 0 .. Len(ev.ht) - 1 |-> ev.ht[sl + 1]]

LoadEv(ev) ==
  IF ev.ok
  THEN /\ \A i \in DOMAIN ev.items : \E j \in DOMAIN ev.kv : ev.kv[j][1] = ev.items[i][1]   \* every stored key was loaded
       /\ Len(ev.ht) = Slots(Len(ev.kv))
       /\ Load(Pairs(ev), Its(ev), HtFn(ev))
       /\ ev.len = Len(ev.kv)
       /\ {<<ev.enum[i][1], ev.enum[i][2]>> : i \in DOMAIN ev.enum} = {Pairs(ev)[i] : i \in DOMAIN ev.kv}   \* Item(i) enumerates the loaded pairs
       /\ Len(ev.enum) = Len(ev.kv)
  ELSE \* a failed load changes nothing: the real table still equals the model
       /\ FailedLoad
       /\ ev.len = Len(items)
       /\ Len(ev.items) = Len(items) /\ \A i \in DOMAIN ev.items : ev.items[i][1] = items[i].key /\ ev.items[i][2] = items[i].slot
       /\ {<<ev.enum[i][1], ev.enum[i][2]>> : i \in DOMAIN ev.enum} = abs

\* the abstract verdict on a Get
GetAbsOK(ev) == ~ev.panic /\ LET a == AbsGet(abs, ev.key) IN ev.ok = a.ok /\ (a.ok => ev.val = a.v)
GetImplOK(ev) == LET r == ImplGet(items, ht, loaded /\ ev.hasslot, ev.key, ev.slot) IN r.ok = ev.ok /\ (r.ok => r.v = ev.val)

TraceInit == l = 1 /\ skip = TRUE /\ MInit
TraceNext ==
  /\ l <= Len(Trace)
  /\ l' = l + 1
  /\ LET ev == Trace[l] IN
     IF ev.k = "reset" THEN /\ abs' = {} /\ items' = <<>> /\ ht' = <<>> /\ loaded' = FALSE /\ skip' = FALSE
     ELSE IF skip THEN UNCHANGED <<mvars, skip>>
     ELSE IF ev.k = "load"
          THEN \/ LoadEv(ev) /\ skip' = FALSE
               \/ ~ENABLED LoadEv(ev) /\ ReportWhy("MISMATCH", l, "load") /\ skip' = TRUE /\ UNCHANGED mvars
     ELSE IF ev.k = "get"
          THEN /\ UNCHANGED mvars
               /\ IF ~GetAbsOK(ev) THEN ReportWhy("MISMATCH", l, "get") /\ skip' = TRUE
                  ELSE IF ~GetImplOK(ev) THEN ReportWhy("DRIFT", l, "get") /\ skip' = FALSE
                  ELSE skip' = FALSE
     ELSE UNCHANGED <<mvars, skip>>
TraceSpec == TraceInit /\ [][TraceNext]_tvars
=============================================================================
