---------------------------- MODULE MC_MemViews ----------------------------
(* C20: all input shapes (whole string, substring of a larger string, empty)  *)
(* x conversion / append histories up to MaxSteps: with cap = len no write    *)
(* ever lands in string memory.  C16: span allocator regions are disjoint     *)
(* across a run of requests that wraps the span.                              *)
EXTENDS MemViews
CONSTANTS CapRule, MaxSteps, SpanSize
VARIABLES steps, sp, regions
mcvars == <<mvars, steps, sp, regions>>

MCInit ==
  /\ nobj = 2 /\ steps = 0
  /\ objs = (0 :> NewObj(8, TRUE)) @@ (1 :> NewObj(0, TRUE))
  /\ \E v \in {[obj |-> 0, off |-> 0, len |-> 8, cap |-> 8, kind |-> "string"],      \* a whole string
               [obj |-> 0, off |-> 2, len |-> 3, cap |-> 3, kind |-> "string"],      \* substring of a larger string
               [obj |-> 1, off |-> 0, len |-> 0, cap |-> 0, kind |-> "string"]} :    \* empty
       views = (0 :> v)
  /\ nview = 1
  /\ sp = [size |-> SpanSize, read |-> 0, gen |-> 0] /\ regions = {}

MCNext ==
  /\ steps < MaxSteps /\ steps' = steps + 1
  /\ \/ (\E s \in DOMAIN views : S2B(s, CapRule)) /\ UNCHANGED <<sp, regions>>
     \/ (\E b \in DOMAIN views : B2S(b)) /\ UNCHANGED <<sp, regions>>
     \/ (\E b \in DOMAIN views, k \in {1, 3} : AppendTo(b, k)) /\ UNCHANGED <<sp, regions>>
     \/ \E n \in {1, 3, 5, SpanSize, SpanSize + 1} :
          LET r == SpanMake(sp, n) IN
          /\ sp' = r.sp
          /\ regions' = IF r.private THEN regions ELSE regions \cup {[c |-> r.sp.gen, o |-> r.lo, len |-> n, cap |-> n]}
          /\ UNCHANGED mvars
MCSpec == MCInit /\ [][MCNext]_mcvars
SpanRegionsDisjoint == \A a \in regions, b \in regions : a # b => Disjoint(a, b)
SpanInBounds == \A a \in regions : a.o + a.len <= SpanSize
Inv == StringMemNeverWritten /\ SpanRegionsDisjoint /\ SpanInBounds
=============================================================================
