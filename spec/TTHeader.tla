------------------------------ MODULE TTHeader ------------------------------
(***************************************************************************)
(* The TTHeader frame (protocol/ttheader): layout, a reference parser      *)
(* (Parse) and the encoder contract.                                       *)
(*                                                                         *)
(*  0..3   total length (set by the caller afterwards)                     *)
(*  4..5   magic 0x1000         6..7  flags        8..11 sequence id       *)
(*  12..13 header-info size / 4                                            *)
(*  14..   protocol id, #transforms, transform ids, info sections:         *)
(*         0x01 string kv : count u16, (klen u16, key, vlen u16, val)*     *)
(*         0x10 int kv    : count u16, (key u16, vlen u16, val)*           *)
(*         0x11 ACL token : len u16, token                                 *)
(*         0x00 padding                                                    *)
(*  Parameters: [flags, seq, proto, int, str] where int / str are          *)
(*  sequences of <<key, value>> pairs (values/keys as normalised segment   *)
(*  lists, int keys as numbers); later pairs with the same key win.        *)
(***************************************************************************)
EXTENDS FastStructs

MetaSize == 14
MaxInfo == 65536
Protocols == {0, 3, 4, 16, 17}            \* ThriftBinary, CompactV2, KitexProtobuf, ThriftStruct, ProtobufStruct
GDPRKey == <<[l |-> <<82, 80, 67, 95, 84, 82, 65, 78, 83, 73, 84, 95, 103, 100, 112, 114, 45, 116, 111, 107, 101, 110>>]>>
          \* "RPC_TRANSIT_gdpr-token"

TFail(c, used) == [ok |-> FALSE, cause |-> c, used |-> used]

\* 2-byte-length string at 1-based position i inside the info block ending at `end` (inclusive): [ok, n, segs]
Str2(in, i, end) ==
  IF end - i + 1 < 2 THEN [ok |-> FALSE, n |-> 0, segs |-> <<>>]
  ELSE LET n == U16(in, i) IN
       IF end - i + 1 - 2 < n THEN [ok |-> FALSE, n |-> 0, segs |-> <<>>]
       ELSE [ok |-> TRUE, n |-> 2 + n, segs |-> Norm(Slice(in, i + 1, n))]

PutPair(ps, k, v) == Append(SelectSeq(ps, LAMBDA p : ~SegsEq(p[1], k)), <<k, v>>)
PutIntPair(ps, k, v) == Append(SelectSeq(ps, LAMBDA p : p[1] # k), <<k, v>>)

RECURSIVE StrKVs(_, _, _, _, _), IntKVs(_, _, _, _, _), Sections(_, _, _, _, _)
\* cnt string pairs starting at i : [ok, i, ps]
StrKVs(in, i, end, cnt, ps) ==
  IF cnt = 0 THEN [ok |-> TRUE, i |-> i, ps |-> ps]
  ELSE LET k == Str2(in, i, end) IN
       IF ~k.ok THEN [ok |-> FALSE, i |-> i, ps |-> ps]
       ELSE LET v == Str2(in, i + k.n, end) IN
            IF ~v.ok THEN [ok |-> FALSE, i |-> i, ps |-> ps]
            ELSE StrKVs(in, i + k.n + v.n, end, cnt - 1, PutPair(ps, k.segs, v.segs))
IntKVs(in, i, end, cnt, ps) ==
  IF cnt = 0 THEN [ok |-> TRUE, i |-> i, ps |-> ps]
  ELSE IF end - i + 1 < 2 THEN [ok |-> FALSE, i |-> i, ps |-> ps]
  ELSE LET v == Str2(in, i + 2, end) IN
       IF ~v.ok THEN [ok |-> FALSE, i |-> i, ps |-> ps]
       ELSE IntKVs(in, i + 2 + v.n, end, cnt - 1, PutIntPair(ps, U16(in, i), v.segs))

\* the section loop: [ok, int, str]
Sections(in, i, end, ints, strs) ==
  IF i > end THEN [ok |-> TRUE, int |-> ints, str |-> strs]
  ELSE LET id == At(in, i) IN
       IF id = 0 THEN \* padding; a whole zero-run segment is skipped in one step
            LET z == ZeroSpan(in, i)  step == IF z > 0 THEN (IF i + z - 1 > end THEN end - i + 1 ELSE z) ELSE 1 IN
            Sections(in, i + step, end, ints, strs)
       ELSE IF id = 1 THEN
            IF end - i < 2 THEN [ok |-> FALSE, int |-> ints, str |-> strs]
            ELSE LET r == StrKVs(in, i + 3, end, U16(in, i + 1), strs) IN
                 IF ~r.ok THEN [ok |-> FALSE, int |-> ints, str |-> strs] ELSE Sections(in, r.i, end, ints, r.ps)
       ELSE IF id = 16 THEN
            IF end - i < 2 THEN [ok |-> FALSE, int |-> ints, str |-> strs]
            ELSE LET r == IntKVs(in, i + 3, end, U16(in, i + 1), ints) IN
                 IF ~r.ok THEN [ok |-> FALSE, int |-> ints, str |-> strs] ELSE Sections(in, r.i, end, r.ps, strs)
       ELSE IF id = 17 THEN
            LET v == Str2(in, i + 1, end) IN
            IF ~v.ok THEN [ok |-> FALSE, int |-> ints, str |-> strs]
            ELSE Sections(in, i + 1 + v.n, end, ints, PutPair(strs, GDPRKey, v.segs))
       ELSE [ok |-> FALSE, int |-> ints, str |-> strs]

\* Parse(frame) : [ok, cause, used, param, hlen, declared, totallanes]
\*   used = number of bytes a decoder may have consumed at most (14, or 14 + declared once the size is accepted)
Parse(in) ==
  IF in.len < MetaSize THEN TFail("short", in.len)
  ELSE IF ~(At(in, 5) = 16 /\ At(in, 6) = 0) THEN TFail("magic", MetaSize)
  ELSE LET f == U16(in, 13)  declared == 4 * f IN
       IF f < 1 \/ declared > MaxInfo THEN TFail("size", MetaSize)
       ELSE IF in.len - MetaSize < declared THEN TFail("short", in.len)
       ELSE LET end == MetaSize + declared
                proto == At(in, 15)
                ntr == At(in, 16) IN
            IF proto \notin Protocols THEN TFail("protocol", end)
            ELSE IF declared - 2 < ntr THEN TFail("transforms", end)
            ELSE LET s == Sections(in, 17 + ntr, end, <<>>, <<>>) IN
                 IF ~s.ok THEN TFail("section", end)
                 ELSE [ok |-> TRUE, cause |-> "", used |-> end, hlen |-> end, declared |-> declared,
                       param |-> [flags |-> U16(in, 7), seq |-> S32(in, 9), proto |-> proto, int |-> s.int, str |-> s.str],
                       total |-> LanesAt(in, 1, 4)]

\* the most a decoder may consume of `in` whatever the outcome: 14 bytes plus the declared size, never more than the input
MaxConsume(in) ==
  IF in.len < MetaSize THEN in.len
  ELSE LET declared == 4 * U16(in, 13) IN
       IF MetaSize + declared <= in.len THEN MetaSize + declared ELSE in.len

\* ---- encoder contract ------------------------------------------------------
\* size of the header info the encoder must produce for a parameter set (before the 65536 check)
RECURSIVE SumStr(_), SumInt(_)
SumStr(ps) == IF ps = <<>> THEN 0 ELSE 4 + SegsLen(Head(ps)[1]) + SegsLen(Head(ps)[2]) + SumStr(Tail(ps))
SumInt(ps) == IF ps = <<>> THEN 0 ELSE 4 + SegsLen(Head(ps)[2]) + SumInt(Tail(ps))
InfoSize(p) ==
  LET acl    == SelectSeq(p.str, LAMBDA q : SegsEq(q[1], GDPRKey))
      others == SelectSeq(p.str, LAMBDA q : ~SegsEq(q[1], GDPRKey))
      raw == 2 + (IF acl = <<>> THEN 0 ELSE 3 + SegsLen(acl[1][2]))
               + (IF others = <<>> THEN 0 ELSE 3 + SumStr(others))
               + (IF p.int = <<>> THEN 0 ELSE 3 + SumInt(p.int))
  IN raw + ((4 - (raw % 4)) % 4)

IntPairIn(p, ps) == \E x \in DOMAIN ps : p[1] = ps[x][1] /\ SegsEq(p[2], ps[x][2])
SameIntPairs(a, b) == Len(a) = Len(b) /\ (\A x \in DOMAIN a : IntPairIn(a[x], b)) /\ (\A x \in DOMAIN b : IntPairIn(b[x], a))
SameParam(a, b) == /\ a.flags = b.flags /\ a.seq = b.seq /\ a.proto = b.proto
                   /\ SameIntPairs(a.int, b.int) /\ SamePairs(a.str, b.str)
NormPairs(ps, intkeys) == [k \in DOMAIN ps |-> <<IF intkeys THEN ps[k][1] ELSE Norm(ps[k][1]), Norm(ps[k][2])>>]
NormParam(p) == [p EXCEPT !.int = NormPairs(p.int, TRUE), !.str = NormPairs(p.str, FALSE)]
=============================================================================
