------------------------- MODULE Trace_ApacheBridge -------------------------
(* Validates recorded operation sequences on a real bytes.Buffer and the      *)
(* transport created over it: after every step both handles must show the     *)
(* state of the single-buffer model.                                           *)
EXTENDS ApacheBridge, TraceCommon
VARIABLES l, skip
tvars == <<buf, l, skip>>

Step(ev) ==
  CASE ev.op = "write"  -> Write(ev.h, ev.arg) /\ ev.ret = Len(ev.arg) /\ ev.err = "nil"
    [] ev.op = "read"   -> Read(ev.h, ev.n) /\ ev.ret = ReadN(ev.n) /\ ev.err = ReadErr(ev.n) /\ ev.data = ReadData(ev.n)
    [] ev.op = "reset"  -> Reset(ev.h)
    [] ev.op = "close"  -> Close /\ ev.err = "nil"
    [] ev.op = "remaining" -> UNCHANGED buf /\ ev.ret = Remaining
    [] ev.op \in {"flush", "open"} -> UNCHANGED buf /\ ev.err = "nil"      \* no life cycle: nothing to flush, always open
    [] ev.op = "isopen" -> UNCHANGED buf /\ ev.ret = 1
    [] OTHER -> UNCHANGED buf
\* both handles observe the same state after the step
Views(ev) == ev.vb.bytes = buf' /\ ev.vb.len = Len(buf') /\ ev.vt.rem = Len(buf')

EvOK(ev) ==
  CASE ev.k = "dt"  -> ev.rem = GenericRemaining(ev.readable)
    [] ev.k = "dtlive" -> GenericRemainingLive(ev.answers, ev.rem)
    [] ev.k = "dtlife" -> ev.isopen /\ ev.allnil /\ ev.remsame
    [] ev.k = "regconc" -> ev.lost = 0     \* hooks registered at the same time by different goroutines: every one is in force
    [] ev.k = "regrep" -> ev.calls = ev.n /\ ev.rcalls = ev.n /\ ev.wcalls = ev.n /\ ev.idok /\ ev.resok   \* one registration, many calls: each reaches the callback
    [] ev.k = "regre" -> ev.done /\ ev.ok = ev.rounds /\ ev.checked = ev.rounds   \* re-entrant callbacks: every dispatch returns the callback's result
    [] ev.k = "reg" -> /\ ev.ret = RegistryResult(ev.registered, ev.cbret)
                       /\ ev.registered => ev.argok
                       /\ ~ev.panic
    [] OTHER -> TRUE

TraceInit == l = 1 /\ skip = TRUE /\ buf = <<>>
TraceNext ==
  /\ l <= Len(Trace)
  /\ l' = l + 1
  /\ LET ev == Trace[l] IN
     IF ev.k = "reset" THEN buf' = ev.init /\ skip' = FALSE
     ELSE IF ev.k = "ap" THEN
          IF skip THEN UNCHANGED <<buf, skip>>
          ELSE \/ Step(ev) /\ Views(ev) /\ skip' = FALSE
               \/ ~ENABLED (Step(ev) /\ Views(ev)) /\ ReportWhy("MISMATCH", l, ev.op) /\ skip' = TRUE /\ UNCHANGED buf
     ELSE /\ UNCHANGED <<buf, skip>>
          /\ ~EvOK(ev) => ReportWhy("MISMATCH", l, ev.k)
TraceSpec == TraceInit /\ [][TraceNext]_tvars
=============================================================================
