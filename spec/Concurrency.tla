----------------------------- MODULE Concurrency -----------------------------
(***************************************************************************)
(* Concurrent use of distinct instances (property C14).                    *)
(*                                                                         *)
(* Goroutines run create / use / release cycles over pooled objects        *)
(* (BufferReader, BufferWriter, the three skip decoders: sync.Pool with a  *)
(* nondeterministic Get), and allocate decode results from the shared span *)
(* (CAS lock, bump, slice, unlock; fallback to a private allocation when   *)
(* the lock is taken).  A loaded string map is only read.                  *)
(***************************************************************************)
EXTENDS Integers, Sequences, FiniteSets, TLC

CONSTANTS
  \* @type: Int;
  SpanSize,
  \* @type: Bool;
  ResetOnPut  \* TRUE = the code (fields cleared before Put); FALSE = a seeded design error

VARIABLES
  \* @type: Str -> Str;
  holder,     \* object -> goroutine | "pool"   (objects not in the domain are fresh)
  \* @type: Str -> Str;
  ref,        \* object -> goroutine | "none" : whose reader/source/slice the object references
  \* @type: Str -> Set(Str);
  mine,       \* goroutine -> set of objects it holds
  \* @type: Str;
  lock,       \* span lock holder or "none"
  \* @type: Int;
  read,       \* span bump pointer
  \* @type: Set({g: Str, lo: Int, hi: Int});
  regions,    \* set of [g, lo, hi] handed out from the span
  \* @type: Str -> Str;
  spc,        \* G -> span call program counter: "none" | "locked" | "bumped"
  \* @type: Str -> Int;
  pend,       \* G -> size of the span request in flight
  \* @type: Str;
  map         \* the loaded map (never changes)

cvars == <<holder, ref, mine, lock, read, regions, spc, pend, map>>

\* @type: (a -> b, a, b) => (a -> b);
Ext(f, k, v) == [x \in DOMAIN f \cup {k} |-> IF x = k THEN v ELSE f[x]]
Holder(o) == IF o \in DOMAIN holder THEN holder[o] ELSE "fresh"
Mine(g) == IF g \in DOMAIN mine THEN mine[g] ELSE {}
Spc(g) == IF g \in DOMAIN spc THEN spc[g] ELSE "none"

CInit ==
  /\ holder = [x \in {} |-> "none"] /\ ref = [x \in {} |-> "none"] /\ mine = [x \in {} |-> {}]
  /\ lock = "none" /\ read = 0 /\ regions = {} /\ spc = [x \in {} |-> "none"] /\ pend = [x \in {} |-> 0]
  /\ map = "loaded"

\* NewX(...): sync.Pool.Get returns any pooled object or a fresh one; the caller installs its own reader
Acquire(g, o) ==
  /\ Holder(o) \in {"pool", "fresh"}
  /\ holder' = Ext(holder, o, g) /\ ref' = Ext(ref, o, g)
  /\ mine' = Ext(mine, g, Mine(g) \cup {o})
  /\ UNCHANGED <<lock, read, regions, spc, pend, map>>

\* Release / Recycle: clear the fields (ResetOnPut), then Put
Release(g, o) ==
  /\ Holder(o) = g
  /\ holder' = Ext(holder, o, "pool")
  /\ ref' = Ext(ref, o, IF ResetOnPut THEN "none" ELSE g)
  /\ mine' = Ext(mine, g, Mine(g) \ {o})
  /\ UNCHANGED <<lock, read, regions, spc, pend, map>>

\* span.Make(n), one atomic step each: CAS | fallback, bump (+wrap), slice + unlock
SpanTryLock(g, n) ==
  /\ Spc(g) = "none"
  /\ IF lock = "none" /\ n < SpanSize
     THEN lock' = g /\ spc' = Ext(spc, g, "locked") /\ pend' = Ext(pend, g, n)
     ELSE UNCHANGED <<lock, spc, pend>>                      \* private allocation: no shared state touched
  /\ UNCHANGED <<holder, ref, mine, read, regions, map>>
SpanBump(g) ==
  /\ Spc(g) = "locked" /\ lock = g
  /\ read' = IF read + pend[g] <= SpanSize THEN read + pend[g] ELSE pend[g]     \* wrap: a new backing array
  /\ regions' = IF read + pend[g] <= SpanSize THEN regions ELSE {}
  /\ spc' = Ext(spc, g, "bumped")
  /\ UNCHANGED <<holder, ref, mine, lock, pend, map>>
SpanSliceUnlock(g) ==
  /\ Spc(g) = "bumped" /\ lock = g
  /\ regions' = regions \cup {[g |-> g, lo |-> read - pend[g], hi |-> read]}
  /\ lock' = "none" /\ spc' = Ext(spc, g, "none")
  /\ UNCHANGED <<holder, ref, mine, read, pend, map>>

\* a Get on the shared map is a read-only step
MapGet(g) == UNCHANGED cvars

ExclusiveOwnership == \A a, b \in DOMAIN mine : a # b => mine[a] \cap mine[b] = {}
HolderConsistent == \A o \in DOMAIN holder : (holder[o] # "pool") => o \in Mine(holder[o])
\* a pooled object references nothing of its last user
ResetOnRecycle == \A o \in DOMAIN holder : holder[o] = "pool" => ref[o] = "none"
\* an object in use references only its holder's reader
NoForeignRef == \A o \in DOMAIN holder : (holder[o] # "pool") => ref[o] = holder[o]
SpanRegionsDisjoint == \A a, b \in regions : a # b => (a.hi <= b.lo \/ b.hi <= a.lo)
LockExclusive == \A g \in DOMAIN spc : spc[g] # "none" => lock = g
MapNeverWritten == map = "loaded"
=============================================================================
