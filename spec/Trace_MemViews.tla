---------------------------- MODULE Trace_MemViews ----------------------------
(* C20: recorded zero-copy conversions and appends on their results.           *)
(* C16: recorded decode runs: result regions (as cluster/offset/len/cap),      *)
(* input mutation and result mutation/append checks, span cache on and off.    *)
EXTENDS MemViews, TraceCommon
VARIABLES l, live, input, skip
tvars == <<mvars, l, live, input, skip>>

ConvOK(ev) ==
  /\ ev.out.len = ev.in.len                                   \* content and length preserved for every input incl. empty and nil
  /\ ev.content
  /\ (ev.in.len > 0) => ev.sameptr                            \* shares memory with its argument instead of copying
  /\ (ev.fn = "s2b") => ev.out.cap = ev.out.len               \* no spare capacity: an append can never write into the string
AppendOK(ev) == ev.srcintact /\ ((ev.added > 0) => ~ev.inplace)

\* a decoded result occupies [o, o + cap) of its cluster
Span(r) == [c |-> r.c, o |-> r.o, len |-> r.cap]
DecOK(ev) ==
  /\ ev.valok
  /\ Disjoint(Span(ev.region), input)                          \* an independent copy of the input bytes
  /\ \A r \in live : Disjoint(Span(ev.region), r)              \* and of every other returned value
  /\ ev.span => ev.region.cap = ev.region.len                  \* span regions have cap = len

TraceInit == /\ l = 1 /\ live = {} /\ input = [c |-> -1, o |-> 0, len |-> 0] /\ skip = TRUE
             /\ objs = <<>> /\ views = <<>> /\ nobj = 0 /\ nview = 0    \* (the alias machine itself is exercised by MC_MemViews)
TraceNext ==
  /\ l <= Len(Trace)
  /\ l' = l + 1
  /\ UNCHANGED mvars
  /\ LET ev == Trace[l] IN
     CASE ev.k = "reset" -> live' = {} /\ input' = ev.input /\ skip' = FALSE
       [] ev.k = "conv"   -> UNCHANGED <<live, input, skip>> /\ (~ConvOK(ev) => ReportWhy("MISMATCH", l, ev.fn))
       [] ev.k = "appendchk" -> UNCHANGED <<live, input, skip>> /\ (~AppendOK(ev) => ReportWhy("MISMATCH", l, "append"))
       [] ev.k = "dec" ->
            IF skip THEN UNCHANGED <<live, input, skip>>
            ELSE IF DecOK(ev) THEN live' = live \cup {Span(ev.region)} /\ UNCHANGED <<input, skip>>
            ELSE ReportWhy("MISMATCH", l, "dec") /\ skip' = TRUE /\ UNCHANGED <<live, input>>
       [] ev.k = "mut" -> UNCHANGED <<live, input, skip>> /\ ((~skip /\ ~(ev.intact /\ ev.inputintact)) => ReportWhy("MISMATCH", l, ev.what))
       [] ev.k = "cmp" -> UNCHANGED <<live, input, skip>> /\ (~ev.equal => ReportWhy("MISMATCH", l, "span-on-off"))
       [] OTHER -> UNCHANGED <<live, input, skip>>
TraceSpec == TraceInit /\ [][TraceNext]_tvars
=============================================================================
