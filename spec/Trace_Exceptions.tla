--------------------------- MODULE Trace_Exceptions ---------------------------
(* Judges recorded PrependError / NewProtocolExceptionWithErr / errors.Is /     *)
(* Unwrap results against the Exceptions algebra.                               *)
EXTENDS Exceptions, TraceCommon
VARIABLES l
EvOK(ev) ==
  CASE ev.k = "exc_prepend" -> Obs(Prepend(ev.prefix, ev.in)) = ev.out
    [] ev.k = "exc_wrap" ->
         /\ Obs(Wrap(ev.in)) = ev.out
         /\ ev.same = (ev.in.kind = "protocol")                 \* identity on errors that already are protocol exceptions
         /\ ev.isin = Comparable(ev.in)                         \* the cause stays reachable through errors.Is (which cannot
                                                                \* identify a value of an uncomparable type, and must not panic)
         /\ (ev.in.kind # "protocol") => ev.unwrapsame          \* ... and Unwrap returns exactly it
         /\ ev.iscause = (~IsErr(ev.in.cause) \/ Comparable(ev.in.cause))   \* ... and so does everything the given error wraps itself
    [] ev.k = "exc_is" -> ev.res = ErrorsIs(ev.x, ev.t)
    [] OTHER -> TRUE
TraceInit == l = 1
TraceNext == /\ l <= Len(Trace) /\ l' = l + 1
             /\ LET ev == Trace[l] IN ~EvOK(ev) => ReportWhy("MISMATCH", l, ev.k)
TraceSpec == TraceInit /\ [][TraceNext]_l
=============================================================================
