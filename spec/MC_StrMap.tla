------------------------------ MODULE MC_StrMap ------------------------------
(* All key subsets of a small universe (empty key, prefixes of one another)  *)
(* x every assignment of keys to slots (the hash is arbitrary) x every       *)
(* slot-sorted item order x load histories (grow, shrink, failed load,       *)
(* never loaded): Get agrees with the Go-map semantics for every probe and   *)
(* every slot the probe may hash to.                                         *)
EXTENDS StrMap
CONSTANTS Keys, SlotVals, MaxLoads
VARIABLES nloads
mcvars == <<mvars, nloads>>

Probes == Keys \cup {"zz"}
Perms(S) == {p \in [1 .. Cardinality(S) -> S] : \A i, j \in 1 .. Cardinality(S) : i # j => p[i] # p[j]}

MCInit == MInit /\ nloads = 0
MCNext ==
  /\ nloads < MaxLoads /\ nloads' = nloads + 1
  /\ \/ \E S \in SUBSET Keys :
          \E order \in Perms(S) :
            LET n == Cardinality(S)  ns == Slots(n) IN
            \E h \in [S -> {s \in SlotVals : s < ns} \cup {ns - 1}] :
              LET pairs == [i \in 1 .. n |-> <<order[i], nloads * 10 + i>>]
                  its   == [i \in 1 .. n |-> [key |-> order[i], slot |-> h[order[i]], v |-> nloads * 10 + i]]
              IN SortedBySlot(its) /\ Load(pairs, its, FirstIdx(its, ns))
     \/ FailedLoad
MCSpec == MCInit /\ [][MCNext]_mcvars

\* for every probe and every slot it may hash to (loaded keys hash to their own slot)
GetAgrees ==
  \A p \in Probes :
    LET ns == IF loaded THEN Slots(Len(items)) ELSE 0
        own == {items[i].slot : i \in {j \in 1 .. Len(items) : items[j].key = p}}
        cand == IF ~loaded THEN {0} ELSE IF own # {} THEN own ELSE 0 .. ns - 1
    IN \A s \in cand : ImplGet(items, ht, loaded, p, s) = AbsGet(abs, p)
NeverLoadedAbsent == ~loaded => \A p \in Probes : ~ImplGet(items, ht, loaded, p, 0).ok
Inv == TableOK /\ LenOK /\ GetAgrees /\ NeverLoadedAbsent
=============================================================================
