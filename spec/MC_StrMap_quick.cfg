SPECIFICATION MCSpec
CONSTANTS
  Keys = {"", "a", "ab"}
  SlotVals = {0, 1, 2}
  MaxLoads = 2
INVARIANT Inv
CHECK_DEADLOCK FALSE
