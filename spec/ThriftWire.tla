----------------------------- MODULE ThriftWire -----------------------------
(***************************************************************************)
(* The Thrift Binary wire format of scalars, strings/binaries, field /     *)
(* list / set / map headers and the message envelope: one encoder Enc and  *)
(* one decoder Dec.  The three writer APIs (in-place, append, stream) and  *)
(* the two reader APIs (buffer, stream) of the library are five views of   *)
(* these two functions (properties C01, C12); the failure causes of Dec    *)
(* define the exception type ids of C17.                                   *)
(*                                                                         *)
(* Values: bool as BOOLEAN, i8/i16/i32/type tags/field ids/message types   *)
(* as (signed) integers, i64/double and container sizes beyond 2^31 as     *)
(* big-endian byte lanes (TLC integers are 32-bit), strings/binaries as    *)
(* segment lists when encoding and as references into the input when       *)
(* decoding.                                                               *)
(***************************************************************************)
EXTENDS Bytes, TLC

\* big-endian lanes of an unsigned value < 2^31
U32Lanes(n) == <<n \div 16777216, (n \div 65536) % 256, (n \div 256) % 256, n % 256>>
U16Lanes(n) == <<n \div 256, n % 256>>
\* two's complement lanes of signed values (written so that no intermediate exceeds 32 bits)
I8Lane(v)   == IF v < 0 THEN v + 256 ELSE v
I16Lanes(v) == U16Lanes(IF v < 0 THEN v + 65536 ELSE v)
I32Lanes(v) == IF v >= 0 THEN U32Lanes(v)
               ELSE LET w == (v + 2147483647) + 1 IN        \* v + 2^31, in 0 .. 2^31-1
                    <<128 + w \div 16777216, (w \div 65536) % 256, (w \div 256) % 256, w % 256>>

\* ---------------------------------------------------------------------------
\* Enc(kind, v): the encoding as a segment list
Lit(bs) == IF bs = <<>> THEN <<>> ELSE <<[l |-> bs]>>
\* merge adjacent literal segments and drop empty ones (canonical form for comparison)
RECURSIVE Canon(_)
Canon(ss) ==
  IF ss = <<>> THEN <<>>
  ELSE IF SegLen(Head(ss)) = 0 THEN Canon(Tail(ss))
  ELSE IF Len(ss) >= 2 /\ IsLit(ss[1]) /\ IsLit(ss[2])
       THEN Canon(<<[l |-> ss[1].l \o ss[2].l]>> \o SubSeq(ss, 3, Len(ss)))
  ELSE IF Len(ss) >= 2 /\ SegLen(ss[2]) = 0 THEN Canon(<<ss[1]>> \o SubSeq(ss, 3, Len(ss)))
  ELSE <<Head(ss)>> \o Canon(Tail(ss))

MsgVersionHi == <<128, 1>>                       \* 0x8001 : strict version marker

\* a container size is given as a number (size, < 2^31) or as 4 lanes (sizel)
SizeL(v) == IF "sizel" \in DOMAIN v THEN v.sizel ELSE I32Lanes(v.size)

Enc(kind, v) ==
  CASE kind = "bool"   -> Lit(<<IF v.b THEN 1 ELSE 0>>)
    [] kind = "byte"   -> Lit(<<I8Lane(v.i)>>)
    [] kind = "i16"    -> Lit(I16Lanes(v.i))
    [] kind = "i32"    -> Lit(I32Lanes(v.i))
    [] kind \in {"i64", "double"} -> Lit(v.lanes)
    [] kind \in {"string", "binary"} -> Canon(Lit(U32Lanes(SegsLen(v.segs))) \o v.segs)
    [] kind = "fieldbegin" -> Lit(<<I8Lane(v.t)>> \o I16Lanes(v.id))
    [] kind = "fieldstop"  -> Lit(<<0>>)
    [] kind = "mapbegin"   -> Lit(<<I8Lane(v.kt), I8Lane(v.vt)>> \o SizeL(v))
    [] kind \in {"listbegin", "setbegin"} -> Lit(<<I8Lane(v.et)>> \o SizeL(v))
    [] kind = "msgbegin"   -> Canon(Lit(MsgVersionHi \o U16Lanes(v.mt % 65536) \o U32Lanes(SegsLen(v.name))) \o v.name
                                    \o Lit(I32Lanes(v.seq)))
EncLen(kind, v) == SegsLen(Enc(kind, v))

\* ---------------------------------------------------------------------------
\* Dec(kind, in): [ok, n, cause, val]
DecFail(c) == [ok |-> FALSE, n |-> 0, cause |-> c, val |-> <<>>]
DecOK(n, v) == [ok |-> TRUE, n |-> n, cause |-> "", val |-> v]
LanesAt(in, i, k) == [j \in 1 .. k |-> At(in, i + j - 1)]
S16(in, i) == LET u == U16(in, i) IN IF u >= 32768 THEN u - 65536 ELSE u
\* signed 32-bit value of 4 bytes
S32(in, i) == IF At(in, i) >= 128
              THEN (((At(in, i) - 128) * 16777216 + At(in, i + 1) * 65536 + At(in, i + 2) * 256 + At(in, i + 3)) - 2147483647) - 1
              ELSE At(in, i) * 16777216 + At(in, i + 1) * 65536 + At(in, i + 2) * 256 + At(in, i + 3)

\* string/binary at position i: [ok, n, cause, at (0-based offset of the payload), len]
DecStrAt(in, i) ==
  IF Rem(in, i) < 4 THEN DecFail("short")
  ELSE LET n == Size4(in, i) IN
       IF n < 0 THEN DecFail("neg")
       ELSE IF n > Rem(in, i) - 4 THEN DecFail("short")
       ELSE DecOK(4 + n, [at |-> i + 3, len |-> n])

Dec(kind, in) ==
  CASE kind = "bool"   -> IF in.len < 1 THEN DecFail("short") ELSE DecOK(1, [b |-> At(in, 1) = 1])
    [] kind = "byte"   -> IF in.len < 1 THEN DecFail("short") ELSE DecOK(1, [i |-> I8(At(in, 1))])
    [] kind = "i16"    -> IF in.len < 2 THEN DecFail("short") ELSE DecOK(2, [i |-> S16(in, 1)])
    [] kind = "i32"    -> IF in.len < 4 THEN DecFail("short") ELSE DecOK(4, [i |-> S32(in, 1)])
    [] kind \in {"i64", "double"} -> IF in.len < 8 THEN DecFail("short") ELSE DecOK(8, [lanes |-> LanesAt(in, 1, 8)])
    [] kind \in {"string", "binary"} -> DecStrAt(in, 1)
    [] kind = "fieldbegin" ->
         IF in.len < 1 THEN DecFail("short")
         ELSE IF At(in, 1) = 0 THEN DecOK(1, [t |-> 0, id |-> 0])
         ELSE IF in.len < 3 THEN DecFail("short")
         ELSE DecOK(3, [t |-> I8(At(in, 1)), id |-> S16(in, 2)])
    [] kind = "mapbegin" ->
         IF in.len < 6 THEN DecFail("short")
         ELSE DecOK(6, [kt |-> I8(At(in, 1)), vt |-> I8(At(in, 2)), sizel |-> LanesAt(in, 3, 4)])
    [] kind \in {"listbegin", "setbegin"} ->
         IF in.len < 5 THEN DecFail("short")
         ELSE DecOK(5, [et |-> I8(At(in, 1)), sizel |-> LanesAt(in, 2, 4)])
    [] kind = "msgbegin" ->
         IF in.len < 4 THEN DecFail("short")
         ELSE IF ~(At(in, 1) = 128 /\ At(in, 2) = 1) THEN DecFail("badversion")
         ELSE LET s == DecStrAt(in, 5) IN
              IF ~s.ok THEN DecFail(IF s.cause = "neg" THEN "negname" ELSE "short")
              ELSE IF Rem(in, 5 + s.n) < 4 THEN DecFail("short")
              ELSE DecOK(4 + s.n + 4, [mt |-> U16(in, 3), name |-> s.val, seq |-> S32(in, 5 + s.n)])

\* Exception type ids admitted for a failure cause of the in-memory functions (C17).
\* A negative name length inside message-begin may be reported as invalid data or as negative size.
TypeIds(cause) == CASE cause = "short" -> {1} [] cause = "neg" -> {2} [] cause = "badversion" -> {4}
                    [] cause = "negname" -> {1, 2} [] OTHER -> {}
=============================================================================
