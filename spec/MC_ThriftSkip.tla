---------------------------- MODULE MC_ThriftSkip ----------------------------
(* Bounded-exhaustive check of grammar facts that the C02/C08 oracles rely  *)
(* on, over every byte string up to MaxLen over a grammar-relevant alphabet *)
(* and every requested type:                                               *)
(*   SelfDelimiting : a value's extent does not depend on what follows it, *)
(*                    and every strict prefix of a valid encoding is       *)
(*                    rejected as "short" (never accepted shorter/longer); *)
(*   Bounded        : success => n <= len (the oracle never over-reports); *)
(*   DepthAgree     : strict and lenient accounting agree on these inputs  *)
(*                    (all have nesting < 64).                             *)
EXTENDS ThriftSkip, FiniteSets
CONSTANTS Alphabet, MaxLen, Types
VARIABLE s
Init == s = <<>>
Next == Len(s) < MaxLen /\ \E a \in Alphabet : s' = Append(s, a)
Spec == Init /\ [][Next]_s

In(x) == MkIn(IF x = <<>> THEN <<>> ELSE <<[l |-> x]>>)
R(x, t) == SkipStrict(In(x), t)

Bounded == \A t \in Types : R(s, t).e = "" => R(s, t).n <= Len(s)
DepthAgree == \A t \in Types : SkipStrict(In(s), t) = SkipLenient(In(s), t)
\* the verdict on s restricted to the accepted extent is the same, and every shorter prefix is "short"
SelfDelimiting ==
  \A t \in Types :
    LET r == R(s, t) IN
    r.e = "" =>
      /\ R(SubSeq(s, 1, r.n), t) = r
      /\ \A k \in 0 .. r.n - 1 : R(SubSeq(s, 1, k), t).e = "short"
\* an error verdict never turns into success by truncation (monotonicity of rejection under cutting)
CutStaysRejected ==
  \A t \in Types : R(s, t).e \in {"neg", "type"} => \A k \in 0 .. Len(s) : R(SubSeq(s, 1, k), t).e # ""
UnknownTypeRejected == \A t \in Types \ KnownTypes : R(s, t).e # ""
Inv == Bounded /\ DepthAgree /\ SelfDelimiting /\ CutStaysRejected /\ UnknownTypeRejected
=============================================================================
