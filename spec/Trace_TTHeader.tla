---------------------------- MODULE Trace_TTHeader ----------------------------
(* Judges recorded Encode / EncodeToBytes / Decode / DecodeFromBytes calls      *)
(* against TTHeader.tla.  VPROP: C06 (encoder contract + round trip),           *)
(* C10 (hostile frames: success exactly as the reference, framing arithmetic,   *)
(* consumption bound), C03 (no panic).                                          *)
EXTENDS TTHeader, TraceCommon
VARIABLES l
Prop == IOEnv.VPROP

TEncOK(ev) ==
  LET p == NormParam(ev.param) IN
  /\ ~ev.panic
  /\ IF p.proto \notin Protocols THEN TRUE                       \* the property quantifies over supported protocol ids
     ELSE IF InfoSize(p) > MaxInfo THEN ~ev.ok                         \* "encoding either fails with an error ..."
     ELSE /\ ev.ok
          /\ ("tlfok" \in DOMAIN ev) => ev.tlfok                   \* the returned slice is the frame's total-length field; bytes in front of the frame are untouched
          /\ LET fr == MkIn(ev.frame)  r == Parse(fr) IN
             /\ r.ok                                               \* "... or produces a frame that follows the layout"
             /\ fr.len = MetaSize + InfoSize(p)
             /\ r.hlen = fr.len /\ ev.written = fr.len             \* header length = bytes written
             /\ U16(fr, 13) * 4 = fr.len - MetaSize                \* size field = header size / 4
             /\ At(fr, 16) = 0                                     \* no transforms
             /\ SameParam(r.param, p)                              \* decodes back to exactly the same parameters

\* Encode over a bufiox.Writer that accepts `budget` bytes and then fails (flen = length of the frame the same
\* parameters produce on an unlimited writer, judged by TEncOK): success exactly when the frame fits
TEncBudgetOK(ev) ==
  /\ ~ev.panic
  /\ IF ev.budget >= ev.flen THEN ev.ok /\ ev.wrote = ev.flen
     ELSE ~ev.ok /\ ev.wrote <= ev.budget      \* (the encoder re-words the writer's error; only "an error" is required)

\* ---- the exported byte helpers of utils.go -------------------------------------------------------------------
BE(n, k) == [i \in 1 .. k |-> (n \div (256 ^ (k - i))) % 256]            \* big-endian bytes of a non-negative number
Low(num, bits) == IF num >= 0 THEN num % (2 ^ bits) ELSE (num + 2147483647 + 1) % (2 ^ bits) \* low bits of a two's-complement int32
Top32(num) == IF num >= 0 THEN num \div 16777216 ELSE 128 + (num + 2147483647 + 1) \div 16777216
UtilOK(ev) ==
  LET n == SegsLen(ev.val) IN
  CASE ev.fn = "ws2" -> ev.ok /\ ev.ret = n + 2 /\ SegsEq(ev.out, <<[l |-> BE(n, 2)]>> \o ev.val)
    [] ev.fn = "ws4" -> ev.ok /\ ev.ret = n + 4 /\ SegsEq(ev.out, <<[l |-> BE(n, 4)]>> \o ev.val)
    [] ev.fn = "wb"  -> ev.ok /\ SegsEq(ev.out, <<[l |-> <<Low(ev.num, 8)>>]>>)
    [] ev.fn = "w16" -> ev.ok /\ SegsEq(ev.out, <<[l |-> BE(Low(ev.num, 16), 2)]>>)
    [] ev.fn = "w32" -> ev.ok /\ SegsEq(ev.out, <<[l |-> <<Top32(ev.num)>> \o BE(Low(ev.num, 24), 3)]>>)
    [] OTHER -> ~ev.ok                                                      \* "-short": one byte of room missing => an error
RUtilOK(ev) ==
  LET in == MkIn(ev.in)  o == ev.off  left == in.len - o IN
  /\ ~ev.panic
  /\ ev.u8ok = (left >= 1) /\ (ev.u8ok => ev.u8 = At(in, o + 1))
  /\ ev.u16ok = (left >= 2) /\ (ev.u16ok => ev.u16 = U16(in, o + 1))
  /\ LET L == IF left >= 2 THEN U16(in, o + 1) ELSE 0 IN
     /\ ev.sok = (left >= 2 /\ left - 2 >= L)
     /\ ev.sok => (ev.n = L + 2 /\ SegsEq(ev.s, Slice(in, o + 2, L)))

TDecOK(ev) ==
  LET in == MkIn(ev.in)  r == Parse(in) IN
  CASE Prop = "C03" -> ~ev.panic
    [] OTHER ->
       /\ ~ev.panic
       /\ ev.readlen <= MaxConsume(in)                             \* at most 14 + declared, never more than the input holds
       \* the two classifiers on ANY input: 8 bytes suffice, fewer are never a TTHeader / streaming frame
       /\ ev.isth = (in.len >= 8 /\ U16(in, 5) = 4096)
       /\ ev.isstreaming = (in.len >= 8 /\ U16(in, 5) = 4096 /\ (U16(in, 7) \div 2) % 2 = 1)
       /\ r.ok => /\ ev.ok
                  /\ SameParam(NormParam(ev.param), r.param)
                  /\ ev.hlen = r.hlen                              \* 14 + declared size
                  /\ ev.plendelta = 4 - r.hlen                     \* payload length = total length + 4 - header length
                  /\ ev.total = r.total
                  /\ ev.readlen = r.hlen                           \* = the number of bytes the decoder consumed
                  /\ ev.isth /\ (ev.isstreaming = ((r.param.flags \div 2) % 2 = 1))
       /\ ~r.ok => ~ev.ok
       \* on a live connection the header has arrived and the payload has not: the decoder asks for the header only
       /\ ("over" \in DOMAIN ev /\ r.ok) => ~ev.over

\* ---- a stream of framed messages: header + payload (message envelope + struct), back to back --------------
\* "the decoded payload length equals total + 4 - header length, so any payload is delimited exactly"
TotalOf(lanes) == lanes[1] * 16777216 + lanes[2] * 65536 + lanes[3] * 256 + lanes[4]    \* (< 2^31 in these traces)
RECURSIVE FramesOK(_, _, _)
FramesOK(segs, frames, k) ==
  IF k > Len(frames) THEN SegsLen(segs) = 0                              \* the stream is consumed exactly
  ELSE LET in == MkIn(segs)  r == Parse(in)  f == frames[k] IN
       /\ r.ok /\ f.ok /\ f.hlen = r.hlen
       /\ LET plen == TotalOf(r.total) + 4 - r.hlen IN
          /\ f.plen = plen /\ plen >= 0 /\ r.hlen + plen <= in.len
          /\ LET pay == MkIn(Take(Drop(segs, r.hlen), plen))
                 h   == Dec("msgbegin", pay) IN
             /\ h.ok /\ f.seq = h.val.seq
             /\ SegsEq(f.method, Slice(pay, h.val.name.at, h.val.name.len))
             /\ LET body == MkIn(Drop(pay.segs, h.n))
                    st   == ReadStruct(f.schema, body) IN
                st.ok /\ st.n = body.len /\ SameVal(f.schema, NormVal(f.schema, f.val), st.val)
          /\ FramesOK(Drop(segs, r.hlen + plen), frames, k + 1)

EvOK(ev) == CASE ev.k = "tth_stream" -> FramesOK(ev.in, ev.frames, 1)
              [] ev.k = "tth_enc" -> TEncOK(ev) [] ev.k = "tth_dec" -> TDecOK(ev)
              [] ev.k = "tth_encb" -> (Prop = "C06") => TEncBudgetOK(ev)
              [] ev.k = "tth_util" -> UtilOK(ev) [] ev.k = "tth_rutil" -> RUtilOK(ev) [] OTHER -> TRUE
TraceInit == l = 1
TraceNext == /\ l <= Len(Trace) /\ l' = l + 1
             /\ LET ev == Trace[l] IN ~EvOK(ev) => ReportWhy("MISMATCH", l, ev.k \o "/" \o (IF "api" \in DOMAIN ev THEN ev.api ELSE "stream"))
TraceSpec == TraceInit /\ [][TraceNext]_l
=============================================================================
