--------------------------- MODULE MC_SkipMachine ---------------------------
(* Machine == Reference: for every byte string up to MaxLen over the grammar   *)
(* alphabet and every type tag, the pushdown machine ends with the verdict,    *)
(* cause and extent of the recursive-descent reference (strict accounting),    *)
(* and its stack never exceeds 3 frames per nesting level.  Deep nesting:      *)
(* chains of 1..70 nested containers of every kind.                            *)
EXTENDS SkipMachine, FiniteSets
CONSTANTS Alphabet, MaxLen, Types
VARIABLE s
vars == <<s, smvars>>
Init == s = <<>> /\ stack = <<>> /\ pos = 0 /\ status = "ok" /\ nreq = 0
Next == Len(s) < MaxLen /\ (\E a \in Alphabet : s' = Append(s, a)) /\ UNCHANGED smvars
Spec == Init /\ [][Next]_vars

In(x) == MkIn(IF x = <<>> THEN <<>> ELSE <<[l |-> x]>>)
Agree(in, t) ==
  LET m == Run(in, t)  r == SkipStrict(in, t) IN
  /\ (r.e = "") = (m.status = "ok")
  /\ (r.e = "") => m.pos = r.n
  /\ (r.e # "") => m.status = r.e
  /\ m.maxh <= 3 * DefaultDepth + 3
MachineIsReference == \A t \in Types : Agree(In(s), t)

\* nested chains (evaluated once, in the initial state)
RECURSIVE ListChain(_), StructChain(_), MapChain(_)
ListChain(k) == IF k = 1 THEN <<8, 0, 0, 0, 0>> ELSE <<15, 0, 0, 0, 1>> \o ListChain(k - 1)
StructChain(k) == IF k = 1 THEN <<0>> ELSE <<12, 0, 1>> \o StructChain(k - 1) \o <<0>>
MapChain(k) == IF k = 1 THEN <<8, 8, 0, 0, 0, 0>> ELSE <<8, 13, 0, 0, 0, 1, 0, 0, 0, 9>> \o MapChain(k - 1)
Deep == s = <<>> => \A k \in 1 .. 70 : Agree(In(ListChain(k)), 15) /\ Agree(In(StructChain(k)), 12) /\ Agree(In(MapChain(k)), 13)
Inv == MachineIsReference /\ Deep
=============================================================================
