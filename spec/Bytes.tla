------------------------------- MODULE Bytes -------------------------------
(* Byte strings as segment lists (DESIGN.md 3.2): structural bytes are      *)
(* literal, bulk payload is a run of the position-dependent pattern.        *)
(* TLC integers are 32-bit: 4-byte sizes with the top bit set are never     *)
(* converted to numbers (Size4 returns -1 = "negative").                    *)
EXTENDS Integers, Sequences

\* Byte i (0-based) of the pattern stream with the given seed.  The quadratic term makes shifted copies of a
\* pattern different from every other pattern (a linear pattern shifted by k is another seed's pattern, which
\* lets two different (seed, offset) descriptions denote the same bytes).
PatByte(seed, i) == LET q == i % 256 IN (q * q * 7 + i * 131 + (i \div 256) + seed * 17) % 256

\* A segment is  [r |-> <<seed, off, len>>]  (len bytes of pattern `seed` from offset off),
\*               [l |-> <<b1, ..., bn>>]     (literal bytes) or
\*               [g |-> <<len, hash>>]       (unrecognised bytes) or
\*               [z |-> len]                 (len zero bytes).
IsRun(s) == "r" \in DOMAIN s
IsLit(s) == "l" \in DOMAIN s
IsGarbage(s) == "g" \in DOMAIN s
IsZeros(s) == "z" \in DOMAIN s
SegLen(s) == IF IsRun(s) THEN s.r[3] ELSE IF IsLit(s) THEN Len(s.l) ELSE IF IsZeros(s) THEN s.z ELSE s.g[1]
\* Byte i (1-based) of a segment; -1 for garbage
SegByte(s, i) == IF IsRun(s) THEN PatByte(s.r[1], s.r[2] + i - 1) ELSE IF IsLit(s) THEN s.l[i] ELSE IF IsZeros(s) THEN 0 ELSE -1

RECURSIVE SegsLen(_)
SegsLen(ss) == IF ss = <<>> THEN 0 ELSE SegLen(Head(ss)) + SegsLen(Tail(ss))
\* Byte i (1-based) of a segment list
RECURSIVE SegsByteFrom(_, _, _)
SegsByteFrom(ss, k, i) == IF i <= SegLen(ss[k]) THEN SegByte(ss[k], i) ELSE SegsByteFrom(ss, k + 1, i - SegLen(ss[k]))
SegsByte(ss, i) == SegsByteFrom(ss, 1, i)
\* number of bytes from position i (1-based) to the end of the zero-run segment containing it (0 if it is not in one)
RECURSIVE ZeroSpanFrom(_, _, _)
ZeroSpanFrom(ss, k, i) == IF k > Len(ss) THEN 0
                          ELSE IF i <= SegLen(ss[k]) THEN (IF IsZeros(ss[k]) THEN SegLen(ss[k]) - i + 1 ELSE 0)
                          ELSE ZeroSpanFrom(ss, k + 1, i - SegLen(ss[k]))

\* An input is [len |-> n, segs |-> <<...>>]
MkIn(segs) == [len |-> SegsLen(segs), segs |-> segs]
At(in, i) == SegsByte(in.segs, i)
ZeroSpan(in, i) == ZeroSpanFrom(in.segs, 1, i)
Rem(in, i) == in.len - i + 1          \* bytes available from position i (1-based)

U16(in, i) == At(in, i) * 256 + At(in, i + 1)
\* 4-byte big-endian size; -1 when the top bit is set (negative as int32)
Size4(in, i) == IF At(in, i) >= 128 THEN -1
                ELSE At(in, i) * 16777216 + At(in, i + 1) * 65536 + At(in, i + 2) * 256 + At(in, i + 3)
\* a wire byte as int8
I8(b) == IF b >= 128 THEN b - 256 ELSE b
=============================================================================
