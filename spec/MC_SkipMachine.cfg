SPECIFICATION Spec
CONSTANTS
  Alphabet = {0, 1, 2, 8, 11, 12, 13, 15, 128, 255}
  MaxLen = 5
  Types = {0, 1, 2, 3, 4, 5, 6, 8, 10, 11, 12, 13, 14, 15, 16}
INVARIANT Inv
CHECK_DEADLOCK FALSE
