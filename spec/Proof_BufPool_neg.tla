---------------------------- MODULE Proof_BufPool_neg ----------------------------
(* NEGATIVE CONTROL (must leave an obligation unproved). TLAPS proof that the buffer life-cycle protocol keeps the C09 ownership     *)
(* invariants for ANY set of pool buffers, every instance kind and any run.    *)
EXTENDS MC_BufPool, TLAPS

ASSUME BufAssm == Bufs \subseteq Nat \ {0}
ASSUME KindAssm == Kind \in {"reader", "writer"} /\ Protocol = "freeOnGrow" /\ MaxSteps \in Nat

Held == {b \in DOMAIN own : own[b] = "inst"}

TypeOK ==
  /\ own \in [DOMAIN own -> {"pool", "inst", "co"}] /\ DOMAIN own \subseteq Bufs
  /\ dirty \subseteq DOMAIN own
  /\ cur \in Bufs \cup {0, -1}
  /\ pend \subseteq Bufs
  /\ live \subseteq [sid : Nat, buf : Bufs \cup {0}]
  /\ nsid \in Nat /\ steps \in Nat
  /\ nopool = (Kind = "byteswriter")

Str ==
  /\ cur \notin pend
  /\ (cur > 0) => (cur \in Held)
  /\ pend \subseteq Held
  /\ (Kind = "decoder") => pend = {}
  /\ (Kind # "decoder") => Held \subseteq ({cur} \cup pend)
  /\ \A b \in Held : b \notin dirty
  /\ \A s \in live : s.buf \in ({0, cur} \cup pend)
  /\ (cur = 0) => Kind \in {"bytesreader", "byteswriter"}

IndInv == TypeOK /\ Str /\ Inv

LEMMA InitOK == MCInit => IndInv
  BY BufAssm, KindAssm DEF MCInit, PInit, IndInv, TypeOK, Str, Inv, Held, LiveSliceBufferNotInPool, CallerNeverPooled, NoPoolWhenDisabled,
     HoldsExactly, LiveNeverScribbled, Owner

LEMMA StepOK == IndInv /\ [MCNext]_mcvars => IndInv'
<1> SUFFICES ASSUME IndInv, [MCNext]_mcvars PROVE IndInv'
  OBVIOUS
<1> USE BufAssm, KindAssm
<1> USE DEF IndInv, TypeOK, Str, Inv, Held, LiveSliceBufferNotInPool, CallerNeverPooled, NoPoolWhenDisabled, HoldsExactly, LiveNeverScribbled,
        Owner, Seen, SetOwner, LiveBufs, Step
<1>0. CASE UNCHANGED mcvars
  BY <1>0 DEF mcvars, pvars
<1>1. CASE Grow
  BY <1>1 DEF Grow, PoolMalloc, MallocAllowed, MallocEffect, pvars
<1>2. ASSUME NEW b \in Bufs, FreeOld(b) PROVE IndInv'
  BY <1>2 DEF FreeOld, FreeEffect
<1>3. CASE HandOutCur
  BY <1>3 DEF HandOutCur, HandOut, HandOutAllowed, HandOutEffect
<1>4. CASE EndEpoch
  BY <1>4 DEF EndEpoch, EpochEnd
<1>5. CASE FreeParked
  BY <1>5 DEF FreeParked, FreeEffect
<1>6. CASE FreeCur
  BY <1>6 DEF FreeCur, FreeEffect
<1>7. CASE DropCaller
  BY <1>7 DEF DropCaller, pvars
<1>8. CASE CoMalloc
  BY <1>8 DEF CoMalloc, PoolMalloc, MallocAllowed, MallocEffect
<1>9. CASE CoFree
  BY <1>9 DEF CoFree, PoolFree, FreeAllowed, FreeEffect
<1> QED
  BY <1>0, <1>1, <1>2, <1>3, <1>4, <1>5, <1>6, <1>7, <1>8, <1>9 DEF MCNext

THEOREM Safety == MCSpec => []IndInv
  BY InitOK, StepOK, PTL DEF MCSpec
=============================================================================
