SPECIFICATION MCSpec
CONSTANTS
  MaxOps = 5
INVARIANT Inv
CHECK_DEADLOCK FALSE
