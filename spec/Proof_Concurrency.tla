-------------------------- MODULE Proof_Concurrency --------------------------
(* TLAPS proof that the concurrency design keeps its invariants for ANY set   *)
(* of goroutines, ANY set of pooled objects, any span size and any run.       *)
EXTENDS Concurrency, TLAPS

CONSTANTS G, Objs
ASSUME GAssm == "pool" \notin G /\ "none" \notin G /\ "fresh" \notin G
ASSUME SpanAssm == SpanSize \in Nat /\ SpanSize >= 1 /\ ResetOnPut = TRUE

Next ==
  \E g \in G :
     \/ \E o \in Objs : Acquire(g, o)
     \/ \E o \in Objs : Release(g, o)
     \/ \E n \in Nat : n >= 1 /\ SpanTryLock(g, n)
     \/ SpanBump(g)
     \/ SpanSliceUnlock(g)
Spec == CInit /\ [][Next]_cvars

Busy == {g \in DOMAIN spc : spc[g] # "none"}
Bumped == {g \in DOMAIN spc : spc[g] = "bumped"}

TypeOK ==
  /\ holder \in [DOMAIN holder -> G \cup {"pool"}] /\ DOMAIN holder \subseteq Objs
  /\ ref \in [DOMAIN holder -> G \cup {"none"}]
  /\ mine \in [DOMAIN mine -> SUBSET Objs] /\ DOMAIN mine \subseteq G
  /\ lock \in G \cup {"none"}
  /\ spc \in [DOMAIN spc -> {"none", "locked", "bumped"}] /\ DOMAIN spc \subseteq G
  /\ pend \in [DOMAIN pend -> Nat] /\ DOMAIN pend \subseteq G
  /\ read \in Nat
  /\ regions \subseteq [g : G, lo : Nat, hi : Nat]
  /\ map = "loaded"

Str ==
  /\ \A g \in DOMAIN mine : \A o \in mine[g] : o \in DOMAIN holder /\ holder[o] = g
  /\ \A g \in Busy : lock = g /\ g \in DOMAIN pend /\ pend[g] >= 1 /\ pend[g] < SpanSize
  /\ (lock # "none") => (lock \in DOMAIN spc /\ spc[lock] # "none")
  /\ read <= SpanSize
  /\ \A g \in Bumped : pend[g] <= read
  /\ \A r \in regions : r.lo < r.hi /\ r.hi <= read
  /\ \A r \in regions : \A g \in Bumped : r.hi <= read - pend[g]

IndInv ==
  /\ TypeOK /\ Str
  /\ ExclusiveOwnership /\ HolderConsistent /\ ResetOnRecycle /\ NoForeignRef
  /\ SpanRegionsDisjoint /\ LockExclusive /\ MapNeverWritten

LEMMA InitOK == CInit => IndInv
  BY GAssm, SpanAssm DEF CInit, IndInv, TypeOK, Str, Busy, Bumped, ExclusiveOwnership, HolderConsistent, ResetOnRecycle,
     NoForeignRef, SpanRegionsDisjoint, LockExclusive, MapNeverWritten, Mine

LEMMA StepOK == IndInv /\ [Next]_cvars => IndInv'
<1> SUFFICES ASSUME IndInv, [Next]_cvars PROVE IndInv'
  OBVIOUS
<1> USE GAssm, SpanAssm
<1>1. CASE UNCHANGED cvars
  BY <1>1 DEF cvars, IndInv, TypeOK, Str, Busy, Bumped, ExclusiveOwnership, HolderConsistent, ResetOnRecycle,
     NoForeignRef, SpanRegionsDisjoint, LockExclusive, MapNeverWritten, Mine
<1>2. ASSUME NEW g \in G, NEW o \in Objs, Acquire(g, o) PROVE IndInv'
  BY <1>2 DEF Acquire, Ext, Holder, Mine, IndInv, TypeOK, Str, Busy, Bumped, ExclusiveOwnership, HolderConsistent, ResetOnRecycle,
     NoForeignRef, SpanRegionsDisjoint, LockExclusive, MapNeverWritten
<1>3. ASSUME NEW g \in G, NEW o \in Objs, Release(g, o) PROVE IndInv'
  BY <1>3 DEF Release, Ext, Holder, Mine, IndInv, TypeOK, Str, Busy, Bumped, ExclusiveOwnership, HolderConsistent, ResetOnRecycle,
     NoForeignRef, SpanRegionsDisjoint, LockExclusive, MapNeverWritten
<1>4. ASSUME NEW g \in G, NEW n \in Nat, n >= 1, SpanTryLock(g, n) PROVE IndInv'
  BY <1>4 DEF SpanTryLock, Ext, Spc, Mine, IndInv, TypeOK, Str, Busy, Bumped, ExclusiveOwnership, HolderConsistent, ResetOnRecycle,
     NoForeignRef, SpanRegionsDisjoint, LockExclusive, MapNeverWritten
<1>5. ASSUME NEW g \in G, SpanBump(g) PROVE IndInv'
  BY <1>5 DEF SpanBump, Ext, Spc, Mine, IndInv, TypeOK, Str, Busy, Bumped, ExclusiveOwnership, HolderConsistent, ResetOnRecycle,
     NoForeignRef, SpanRegionsDisjoint, LockExclusive, MapNeverWritten
<1>6. ASSUME NEW g \in G, SpanSliceUnlock(g) PROVE IndInv'
  BY <1>6 DEF SpanSliceUnlock, Ext, Spc, Mine, IndInv, TypeOK, Str, Busy, Bumped, ExclusiveOwnership, HolderConsistent, ResetOnRecycle,
     NoForeignRef, SpanRegionsDisjoint, LockExclusive, MapNeverWritten
<1> QED
  BY <1>1, <1>2, <1>3, <1>4, <1>5, <1>6 DEF Next

THEOREM Safety == Spec => []IndInv
  BY InitOK, StepOK, PTL DEF Spec
=============================================================================
