--------------------------- MODULE Trace_ThriftSkip ---------------------------
(***************************************************************************)
(* Judges recorded calls of the five skipping facilities against the       *)
(* reference grammar of ThriftSkip.  One event = one (input, requested     *)
(* type) pair together with the outcome of every skipper / source shape    *)
(* that was run on it.  The environment variable VPROP selects the clause  *)
(* set of the property being checked:                                      *)
(*   C02  well-formed value + trailing bytes: success, exact length,       *)
(*        returned bytes, source position                                  *)
(*   C08  any input: outcome in the admissible set of the grammar          *)
(*   C03  any input: no panic/fault, success => 0 <= n <= len(input)       *)
(*   C17  any input: type id of thrift.Binary failures names the cause;    *)
(*        stream failures caused by the source match the source's error    *)
(***************************************************************************)
EXTENDS ThriftSkip, TraceCommon

VARIABLES l
Prop == IOEnv.VPROP

ResOK(r, in, rs, rl) ==
  LET accN(n) == (rs.e = "" /\ rs.n = n) \/ (rl.e = "" /\ rl.n = n)
      rej     == rs.e # "" \/ rl.e # ""
      causes  == {rs.e, rl.e} \ {""}
  IN CASE Prop = "C02" -> (rs.e = "" /\ rl.e = "") => (r.ok /\ ~r.panic /\ r.n = rs.n /\ r.ret /\ r.used = rs.n /\ ~r.over)
                          \* (over: the source was asked for more after the value's last byte had been handed out --
                          \*  "exactly the value's bytes are consumed": on a live connection such a request blocks)
       [] Prop = "C08" -> /\ ~r.panic /\ (r.ok => accN(r.n)) /\ (~r.ok => rej)
                          /\ (r.giant => causes # {"neg"})   \* a negative size is rejected, never acted upon
       [] Prop = "C03" -> ~r.panic /\ (r.ok => (0 <= r.n /\ r.n <= in.len))
       [] Prop = "C17" ->
            \/ r.panic \/ r.ok \/ ~rej              \* judged by C03 / C08
            \/ /\ r.impl = "binary" => r.tid \in {TypeIdOf(c) : c \in causes}
               /\ (r.impl \in {"bufferreader", "skipdec", "readerdec"} /\ r.shape # "bytes" /\ ~r.giant /\ causes = {"short"}) => r.srcerr
                  \* (giant: the harness refused a request larger than the input could hold; no source error involved)
       [] OTHER -> FALSE

EvOK(ev) ==
  LET in == MkIn(ev.in)
      rs == SkipStrict(in, ev.t)
      rl == SkipLenient(in, ev.t)
  IN \A k \in 1 .. Len(ev.res) : ResOK(ev.res[k], in, rs, rl)

FirstBad(ev) ==
  LET in == MkIn(ev.in)
      rs == SkipStrict(in, ev.t)
      rl == SkipLenient(in, ev.t)
      k  == CHOOSE k \in 1 .. Len(ev.res) : ~ResOK(ev.res[k], in, rs, rl)
  IN ev.res[k].impl \o "/" \o ev.res[k].shape \o " ref=" \o (IF rs.e = "" THEN "ok" ELSE rs.e) \o "," \o (IF rl.e = "" THEN "ok" ELSE rl.e)

\* a session: one decoder / reader instance skips a sequence of values one after the other (state carried
\* between calls: counters reset, buffers reused).  Expected extents come from iterating the reference.
RECURSIVE Extents(_, _, _)
Extents(in, i, ts) ==
  IF ts = <<>> THEN <<>>
  ELSE LET r == Skip(in, i, Head(ts), DefaultDepth, TRUE) IN
       IF r.e # "" THEN <<-1>> ELSE <<r.n>> \o Extents(in, i + r.n, Tail(ts))
SeqResOK(r, exp) ==
  /\ ~r.panic
  /\ Len(r.ns) = Len(exp)
  /\ \A k \in 1 .. Len(exp) : r.oks[k] /\ r.ns[k] = exp[k] /\ r.rets[k]
SeqOK(ev) ==
  LET exp == Extents(MkIn(ev.in), 1, ev.ts) IN
  (\A k \in 1 .. Len(exp) : exp[k] >= 0) => \A j \in 1 .. Len(ev.res) : SeqResOK(ev.res[j], exp)
SeqBad(ev) ==
  LET exp == Extents(MkIn(ev.in), 1, ev.ts)
      j == CHOOSE j \in 1 .. Len(ev.res) : ~SeqResOK(ev.res[j], exp)
  IN ev.res[j].impl \o "/" \o ev.res[j].shape \o " ref=session"

TraceInit == l = 1
TraceNext ==
  /\ l <= Len(Trace)
  /\ l' = l + 1
  /\ LET ev == Trace[l] IN
     /\ (ev.k = "skip" /\ ~EvOK(ev)) => ReportWhy("MISMATCH", l, FirstBad(ev))
     /\ (ev.k = "skipseq" /\ ~SeqOK(ev)) => ReportWhy("MISMATCH", l, SeqBad(ev))
TraceSpec == TraceInit /\ [][TraceNext]_l
=============================================================================
