SPECIFICATION MCLiveSpec
CONSTANTS
  DefaultBufSize = 4096
  MaxEmpty = 3
  Sizes = {1, 5, 4097}
  SmallN = 5
  Streams = {0, 5, 4097}
  Policies = {0, 1, 4096}
  MaxOps = 2
  ByteCaps = {0}
PROPERTY EveryOpTerminates
CHECK_DEADLOCK FALSE
