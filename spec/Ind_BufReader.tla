---------------------------- MODULE Ind_BufReader ----------------------------
(***************************************************************************)
(* The integer core of bufiox.DefaultReader (property C04) for operands,   *)
(* streams, chunkings and capacities of ANY size.                          *)
(*                                                                         *)
(* BufReader.tla models the code with its real growth policy (4096, x2,    *)
(* pool classes, the statistics window, the list of parked buffers) and    *)
(* TLC explores it for a handful of sizes.  This module keeps exactly the  *)
(* arithmetic the C04 contract depends on -- base, len, cap, read index,   *)
(* sticky error, source position -- and replaces the growth policy by its  *)
(* only relevant consequence: after preparing for n bytes the buffer has   *)
(* room for them (cap - ri >= n).  Apalache proves the invariants of       *)
(* BufReader (InSource, CursorIsRi, ReadLenInv, RoomWhenReading,           *)
(* NoErrWhenReading and Contract = AbsAccepts on every completed call)     *)
(* inductive for all integers; TLC checks (MC_BufReader, property          *)
(* RefinesCore) that every step of the detailed model is a step of this    *)
(* core, so the proof carries over to it.                                  *)
(***************************************************************************)
EXTENDS Integers

CONSTANTS
  \* @type: Int;
  DefaultBufSize,
  \* @type: Int;
  MaxEmpty,
  \* @type: Bool;
  GrowCountsRi      \* TRUE = the code; FALSE = negative control (growth sized for n instead of ri + n)

VARIABLES
  \* @type: Int;
  base,
  \* @type: Int;
  blen,
  \* @type: Int;
  bcap,
  \* @type: Int;
  ri,
  \* @type: Str;
  err,
  \* @type: Int;
  empt,
  \* @type: Int;
  S,
  \* @type: Int;
  pos,
  \* @type: Bool;
  failed,
  \* @type: Str;
  fkind,
  \* @type: Bool;
  wd,
  \* @type: Int;
  c,
  \* @type: Int;
  rmark,
  \* @type: Int;
  trail,
  \* @type: Bool;
  gaveUp,
  \* @type: Str;
  pc,
  \* @type: Str;
  op,
  \* @type: Int;
  n,
  \* @type: Int;
  c0,
  \* @type: Bool;
  gaveUp0,
  \* @type: Str;
  rkind,
  \* @type: { ok: Bool, start: Int, m: Int, e: Str };
  res

cvars == <<base, blen, bcap, ri, err, empt, S, pos, failed, fkind, wd, c, rmark, trail, gaveUp, pc, op, n, c0, gaveUp0, rkind, res>>

Ops == {"next", "peek", "skip", "readbinary"}
MinGiveUpRun == 2
Min(a, b) == IF a <= b THEN a ELSE b
Avail == blen - ri

\* the epilogue of the four operations, given what acquire returned (a), the error the reader holds by then (eNow),
\* the run of trailing empty reads (tr) and whether the source has failed by then
Complete(o, k, eNow, a, tr, failedAfter) ==
  /\ pc' = "idle" /\ rkind' = "op" /\ trail' = tr
  /\ IF o = "readbinary"
     THEN LET m == Min(a, k) IN
          /\ ri' = ri + m /\ c' = c + m
          /\ res' = [ok |-> (m = k), start |-> base + ri, m |-> m, e |-> IF k > m THEN eNow ELSE "nil"]
     ELSE IF k > a
     THEN /\ ri' = ri /\ c' = c
          /\ res' = [ok |-> FALSE, start |-> base + ri, m |-> 0, e |-> eNow]
     ELSE /\ ri' = (IF o = "peek" THEN ri ELSE ri + k) /\ c' = (IF o = "peek" THEN c ELSE c + k)
          /\ res' = [ok |-> TRUE, start |-> base + ri, m |-> k, e |-> "nil"]
  /\ gaveUp' = (gaveUp \/ (res'.e # "nil" /\ ~failedAfter /\ tr >= MinGiveUpRun))

\* (the existential choices are written as constraints on the primed variables -- op', n', bcap', pos' -- so that both
\*  Apalache (assignments x' \in Int) and TLC (membership tests on a given pair of states, see RefinesCore) can evaluate them)
Start ==
  /\ pc = "idle"
  /\ op' \in Ops /\ n' \in Int
  /\ (op' = "readbinary") => n' >= 0
  /\ c0' = c /\ gaveUp0' = gaveUp
  /\ UNCHANGED <<base, S, pos, failed, fkind, wd, rmark>>
  /\ IF n' < 0
     THEN /\ res' = [ok |-> FALSE, start |-> base + ri, m |-> 0, e |-> "NEG"] /\ rkind' = "op" /\ trail' = 0
          /\ UNCHANGED <<blen, bcap, ri, err, empt, c, gaveUp, pc>>
     ELSE IF n' <= Avail
     THEN Complete(op', n', err, n', 0, failed) /\ UNCHANGED <<blen, bcap, err, empt>>
     ELSE IF err # "nil"
     THEN Complete(op', n', err, Avail, 0, failed) /\ UNCHANGED <<blen, bcap, err, empt>>
     ELSE /\ bcap' \in Int
          /\ IF bcap = 0 THEN bcap' >= n' /\ bcap' >= DefaultBufSize
             ELSE IF n' > bcap - ri THEN bcap' > bcap /\ (IF GrowCountsRi THEN bcap' >= n' + ri ELSE bcap' >= n')
             ELSE bcap' = bcap
          /\ empt' = 0 /\ pc' = "reading" /\ trail' = 0
          /\ UNCHANGED <<blen, ri, err, c, gaveUp, rkind, res>>

SrcRead ==
  /\ pc = "reading"
  /\ UNCHANGED <<base, bcap, S, fkind, wd, rmark, op, n, c0, gaveUp0>>
  /\ pos' \in Int
  /\ \E e \in {"nil", "EOF", "ERR"} :
       LET m == pos' - pos
           want == bcap - blen
           left == S - pos
           b1 == blen + m
           emp == IF m = 0 /\ e = "nil" /\ want > 0 THEN Min(trail + 1, MinGiveUpRun) ELSE IF m > 0 THEN 0 ELSE trail
           f1 == failed \/ e # "nil"
       IN
       /\ IF failed \/ left = 0 THEN m = 0 /\ e = fkind
          ELSE \/ 0 <= m /\ m < Min(want, left) /\ e = "nil"
               \/ m = Min(want, left) /\ e = (IF want >= left /\ wd THEN fkind ELSE "nil")
       /\ failed' = f1 /\ blen' = b1
       /\ IF e # "nil"
          THEN err' = e /\ empt' = empt /\ Complete(op, n, e, b1 - ri, emp, f1)
          ELSE IF n <= b1 - ri
          THEN err' = err /\ empt' = empt /\ Complete(op, n, err, n, emp, f1)
          ELSE IF m > 0
          THEN /\ empt' = 0 /\ trail' = emp /\ UNCHANGED <<ri, err, c, gaveUp, pc, rkind, res>>
          ELSE IF empt + 1 >= MaxEmpty
          THEN err' = "NOPROG" /\ empt' = 0 /\ Complete(op, n, "NOPROG", b1 - ri, emp, f1)
          ELSE /\ empt' = empt + 1 /\ trail' = emp /\ UNCHANGED <<ri, err, c, gaveUp, pc, rkind, res>>

Release ==
  /\ pc = "idle"
  /\ rkind' = "release" /\ rmark' = c
  /\ op' = "next" /\ n' = 0 /\ c0' = c /\ gaveUp0' = gaveUp /\ res' = [ok |-> TRUE, start |-> 0, m |-> 0, e |-> "nil"]
  /\ UNCHANGED <<err, empt, S, pos, failed, fkind, wd, c, trail, gaveUp, pc>>
  /\ IF Avail = 0
     THEN base' = base + blen /\ blen' = 0 /\ bcap' = 0 /\ ri' = 0
     ELSE /\ base' = base + ri /\ blen' = blen - ri /\ ri' = 0
          /\ bcap' \in {bcap, bcap - ri}          \* compacted in place, or a caller's slice re-sliced

Next == Start \/ SrcRead \/ Release

\* io flavour: nothing buffered; bytes flavour: everything buffered, the faked source is at its end
Init ==
  /\ S \in Nat /\ fkind \in {"EOF", "ERR"} /\ wd \in BOOLEAN
  /\ base = 0 /\ ri = 0 /\ err = "nil" /\ empt = 0 /\ c = 0 /\ rmark = 0 /\ trail = 0 /\ gaveUp = FALSE
  /\ pc = "idle" /\ op = "next" /\ n = 0 /\ c0 = 0 /\ gaveUp0 = FALSE /\ rkind = "none"
  /\ res = [ok |-> TRUE, start |-> 0, m |-> 0, e |-> "nil"]
  /\ \/ blen = 0 /\ bcap = 0 /\ pos = 0 /\ failed = FALSE
     \/ blen = S /\ bcap \in Int /\ bcap >= S /\ pos = S /\ failed = TRUE /\ fkind = "EOF"

-----------------------------------------------------------------------------
(* the C04 contract (BufReader!AbsAccepts) over the flat variables *)
AbsAccepts ==
  LET justified == failed \/ trail >= MinGiveUpRun \/ gaveUp0
      errOK(need) == /\ res.e # "nil" /\ c0 + need > pos /\ justified /\ (failed => res.e = fkind)
  IN
  IF n < 0 THEN ~res.ok /\ res.e # "nil" /\ c = c0
  ELSE IF op \in {"next", "skip"}
       THEN \/ res.ok /\ res.m = n /\ res.start = c0 /\ c = c0 + n /\ c0 + n <= pos
            \/ ~res.ok /\ c = c0 /\ errOK(n)
  ELSE IF op = "peek"
       THEN \/ res.ok /\ res.m = n /\ res.start = c0 /\ c = c0 /\ c0 + n <= pos
            \/ ~res.ok /\ c = c0 /\ errOK(n)
  ELSE /\ 0 <= res.m /\ res.m <= n /\ res.start = c0 /\ c = c0 + res.m /\ c0 + res.m <= pos
       /\ (res.m < n => errOK(n))

TypeOK ==
  /\ 0 <= ri /\ ri <= blen /\ blen <= bcap /\ base >= 0
  /\ 0 <= pos /\ pos <= S
  /\ err \in {"nil", "EOF", "ERR", "NOPROG"} /\ fkind \in {"EOF", "ERR"}
  /\ empt >= 0 /\ trail >= 0 /\ trail <= MinGiveUpRun
  /\ pc \in {"idle", "reading"} /\ op \in Ops /\ rkind \in {"none", "op", "release"}
InSource == base + blen = pos
CursorIsRi == c = base + ri
ReadLenInv == ri = c - rmark
RoomWhenReading == pc = "reading" => bcap - blen > 0
NoErrWhenReading == pc = "reading" => err = "nil"
Contract == (pc = "idle" /\ rkind = "op") => AbsAccepts
\* what makes the above inductive
Strengthening ==
  /\ (pc = "reading") => (n >= 0 /\ n > blen - ri /\ n <= bcap - ri /\ c0 = c /\ empt < MaxEmpty)
  /\ (err \in {"EOF", "ERR"}) => (failed /\ err = fkind)
  /\ (err = "NOPROG") => (~failed /\ gaveUp)
  /\ (failed /\ err = "nil") => (pos = S)          \* only the bytes flavour starts with a finished source and no error
  /\ MaxEmpty >= MinGiveUpRun /\ DefaultBufSize >= 1     \* (a reader that gives up after ONE empty read would break the contract)
  /\ (pc = "reading") => trail = Min(empt, MinGiveUpRun)   \* both count the empty reads since the last productive one
  /\ (pc = "reading") => (gaveUp0 = gaveUp)
Inv == InSource /\ CursorIsRi /\ ReadLenInv /\ RoomWhenReading /\ NoErrWhenReading /\ Contract
IndInv == TypeOK /\ Strengthening /\ Inv

ConstInit == DefaultBufSize = 4096 /\ MaxEmpty = 100 /\ GrowCountsRi = TRUE
ConstInitAny == DefaultBufSize \in Nat /\ DefaultBufSize >= 1 /\ MaxEmpty \in Nat /\ MaxEmpty >= 2 /\ GrowCountsRi = TRUE
ConstInitNeg == DefaultBufSize = 4096 /\ MaxEmpty = 100 /\ GrowCountsRi = FALSE

IndInit ==
  /\ base \in Int /\ blen \in Int /\ bcap \in Int /\ ri \in Int /\ empt \in Int /\ S \in Int /\ pos \in Int
  /\ c \in Int /\ rmark \in Int /\ trail \in Int /\ n \in Int /\ c0 \in Int
  /\ err \in {"nil", "EOF", "ERR", "NOPROG"} /\ fkind \in {"EOF", "ERR"}
  /\ failed \in BOOLEAN /\ wd \in BOOLEAN /\ gaveUp \in BOOLEAN /\ gaveUp0 \in BOOLEAN
  /\ pc \in {"idle", "reading"} /\ op \in Ops /\ rkind \in {"none", "op", "release"}
  /\ \E rok \in BOOLEAN, rs \in Int, rm \in Int, re \in {"nil", "EOF", "ERR", "NOPROG", "NEG"} :
       res = [ok |-> rok, start |-> rs, m |-> rm, e |-> re]
  /\ IndInv

\* non-vacuity probes (each must be violated from IndInit)
ProbeNeverReading == pc = "idle"
ProbeNeverNoProg == err # "NOPROG"
ProbeNeverShort == ~(rkind = "op" /\ op = "readbinary" /\ res.m < n /\ res.m > 0)
=============================================================================
