SPECIFICATION TraceSpec
CONSTANTS
  SpanSize = 1048576
  ResetOnPut = TRUE
POSTCONDITION TraceConsumed
CHECK_DEADLOCK FALSE
