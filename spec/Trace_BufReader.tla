--------------------------- MODULE Trace_BufReader ---------------------------
(***************************************************************************)
(* Validates executions recorded from the real bufiox readers.             *)
(*                                                                         *)
(* Two independent tracks consume the same events:                         *)
(*   ABS  : the C04 contract (AbsAccepts) evaluated on logged observables  *)
(*          only (results, ReadLen, what the source handed over).  A       *)
(*          rejected event prints "MISMATCH <line> ..." => VIOLATION.      *)
(*   IMPL : the ReaderImpl actions of BufReader, with the source's (m, e)  *)
(*          bound to the logged values; the logged hook state must equal   *)
(*          the model state after every operation.  A rejected event       *)
(*          prints "DRIFT <line>" (model drift, not a violation).          *)
(* After a rejection the rest of that case is consumed without judgement   *)
(* on that track; the next "reset" event re-arms both.                     *)
(***************************************************************************)
EXTENDS BufReader, TraceCommon

VARIABLES l,        \* next line of the trace
          A,        \* abstract track state
          askip,    \* ABS track is skipping the rest of this case
          iskip     \* IMPL track is skipping the rest of this case

tvars == <<vars, l, A, askip, iskip>>

-----------------------------------------------------------------------------
(* ABS track (functional: logged observables only)                         *)
AInit(ev) == [c |-> 0, rmark |-> 0, gaveUp |-> FALSE, trail |-> 0,
              pos |-> IF ev.fl = "bytes" THEN ev.S ELSE 0,
              failed |-> (ev.fl = "bytes"),   \* a bytes-backed reader's stream has already ended (EOF)
              fk |-> ev.fk, seed |-> ev.seed, fl |-> ev.fl, op |-> "none", n |-> 0]

\* position in the stream at which the logged bytes are found, or -1
SegStart(a, seg, m) ==
  IF m = 0 THEN a.c
  ELSE IF IsRun(seg) THEN (IF seg.r[1] = a.seed /\ seg.r[3] = m THEN seg.r[2] ELSE -1)
  ELSE IF IsLit(seg) THEN (IF Len(seg.l) = m /\ \A i \in 1 .. m : seg.l[i] = PatByte(a.seed, a.c + i - 1)
                           THEN a.c ELSE -1)
  ELSE -1

AEndOK(a, ev) ==
  LET consumed == ev.rl - (a.c - a.rmark)
      r  == [op |-> a.op, n |-> a.n, ok |-> ev.ok, e |-> ev.e,
             m |-> IF a.op = "skip" THEN (IF ev.ok THEN a.n ELSE 0) ELSE ev.m,
             start |-> IF a.op = "skip" THEN a.c ELSE SegStart(a, ev.seg, ev.m)]
      gb == [c |-> a.c, gaveUp |-> a.gaveUp]
      ga == [c |-> a.c + consumed, trail |-> a.trail]
      s  == [pos |-> a.pos, failed |-> a.failed, fkind |-> a.fk]
  IN ev.e # "PANIC" /\ AbsAccepts(gb, ga, s, r)

AStep(a, ev) ==
  CASE ev.k = "start" -> [a EXCEPT !.trail = 0, !.op = ev.op, !.n = ev.n]
    [] ev.k = "read"  -> [a EXCEPT !.pos = a.pos + ev.m, !.failed = a.failed \/ ev.e # "nil",
                                   !.trail = IF ev.m = 0 /\ ev.e = "nil" /\ ev.want > 0 THEN Min(a.trail + 1, MinGiveUpRun)
                                             ELSE IF ev.m > 0 THEN 0 ELSE a.trail]
                                   \* (a Read into a zero-length buffer returning 0 says nothing about the source)
    [] ev.k = "end"   -> [a EXCEPT !.c = a.rmark + ev.rl,
                                   !.gaveUp = a.gaveUp \/ (ev.e # "nil" /\ ~a.failed /\ a.trail >= MinGiveUpRun)]
    [] ev.k = "release" -> [a EXCEPT !.rmark = a.c]
    [] OTHER -> a

AOK(a, ev) ==
  CASE ev.k = "end" -> AEndOK(a, ev)
    [] ev.k = "release" -> ev.rl = 0
    [] OTHER -> TRUE

-----------------------------------------------------------------------------
(* IMPL track (the BufReader actions with logged nondeterminism)           *)
ErrClass(e) == e                                      \* same vocabulary on both sides
StateMatches(r, st) ==
  /\ r.ri = st.ri /\ r.blen = st.len /\ r.bcap = st.cap
  /\ Len(r.pend) = st.np
  /\ (r.err # "nil") = st.err
  /\ (r.bcap > 0) => (r.ro = st.ro)
ResMatches(rs, ev, a) ==
  /\ rs.ok = ev.ok /\ rs.e = ev.e
  /\ (rs.op # "skip" /\ (rs.ok \/ rs.op = "readbinary")) => rs.m = ev.m

ImplReset(ev) ==
  /\ pc' = "idle" /\ g' = GInit /\ res' = NoRes
  /\ cur' = [op |-> "none", n |-> 0, gb |-> GInit]
  /\ IF ev.fl = "bytes"
     THEN /\ R' = RInitBytes(ev.S, ev.cap)
          /\ src' = [S |-> ev.S, pos |-> ev.S, failed |-> TRUE, fkind |-> "EOF", withData |-> FALSE]
     ELSE /\ R' = RInitIO
          /\ src' = [S |-> ev.S, pos |-> 0, failed |-> FALSE, fkind |-> ev.fk, withData |-> ev.wd]

ImplEv(ev) ==
  CASE ev.k = "start" -> Start(ev.op, ev.n)
    [] ev.k = "read"  -> SrcRead(ev.m, ev.e)
    [] ev.k = "end"   ->
         IF pc = "reading"
         THEN \* bytes-backed reader: its hidden source answers (0, EOF) exactly once
              /\ A.fl = "bytes"
              /\ SrcRead(0, "EOF") /\ pc' = "idle"
              /\ StateMatches(R', ev.st) /\ ResMatches(res', ev, A)
         ELSE /\ StateMatches(R, ev.st) /\ ResMatches(res, ev, A) /\ UNCHANGED vars
    [] ev.k = "release" -> Release /\ StateMatches(R', ev.st)

-----------------------------------------------------------------------------
TraceInit ==
  /\ l = 1 /\ askip = TRUE /\ iskip = TRUE
  /\ A = [c |-> 0, fl |-> "none"]
  /\ pc = "idle" /\ g = GInit /\ res = NoRes /\ cur = [op |-> "none", n |-> 0, gb |-> GInit]
  /\ R = RInitIO /\ src = [S |-> 0, pos |-> 0, failed |-> FALSE, fkind |-> "EOF", withData |-> FALSE]

TraceNext ==
  /\ l <= Len(Trace)
  /\ l' = l + 1
  /\ LET ev == Trace[l] IN
     IF ev.k = "reset"
     THEN /\ A' = AInit(ev) /\ askip' = FALSE /\ iskip' = FALSE /\ ImplReset(ev)
     ELSE /\ \* ABS track
             IF askip THEN UNCHANGED <<A, askip>>
             ELSE IF AOK(A, ev) THEN A' = AStep(A, ev) /\ askip' = FALSE
             ELSE /\ Report("MISMATCH", l) /\ askip' = TRUE /\ UNCHANGED A
          /\ \* IMPL track
             IF iskip THEN UNCHANGED <<vars, iskip>>
             ELSE \/ ImplEv(ev) /\ iskip' = FALSE
                  \/ ~ENABLED ImplEv(ev) /\ Report("DRIFT", l) /\ iskip' = TRUE /\ UNCHANGED vars

TraceSpec == TraceInit /\ [][TraceNext]_tvars
=============================================================================
