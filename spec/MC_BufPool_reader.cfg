SPECIFICATION MCSpec
CONSTANTS
  Bufs = {1, 2, 3}
  Kind = "reader"
  MaxSteps = 9
  Protocol = "park"
INVARIANT Inv
CHECK_DEADLOCK FALSE
