----------------------------- MODULE MC_BufPool -----------------------------
(* The buffer life-cycle protocol of the bufiox reader / writer and of     *)
(* ReaderSkipDecoder, composed with an adversarial co-tenant, over a small *)
(* set of pool buffers.  Checks that the protocol keeps the C09 ownership  *)
(* invariants under every interleaving.                                    *)
EXTENDS BufPool
CONSTANTS
  \* @type: Set(Int);
  Bufs,        \* pool buffer ids (positive integers)
  \* @type: Str;
  Kind,        \* "reader" | "bytesreader" | "writer" | "byteswriter" | "decoder"
  \* @type: Int;
  MaxSteps,
  \* @type: Str;
  Protocol     \* "park" (the code) | "freeOnGrow" (a seeded design error, used only to show the invariants bite)
VARIABLES
  \* @type: Int;
  cur,         \* current buffer: a pool buffer, 0 (caller memory) or -1 (none)
  \* @type: Set(Int);
  pend,        \* parked pool buffers
  \* @type: Int;
  nsid,
  \* @type: Int;
  steps
mcvars == <<pvars, cur, pend, nsid, steps>>

MCInit ==
  /\ PInit(Kind = "byteswriter")
  /\ cur = IF Kind \in {"bytesreader", "byteswriter"} THEN 0 ELSE -1
  /\ pend = {} /\ nsid = 1 /\ steps = 0

Step == steps < MaxSteps /\ steps' = steps + 1

\* instance allocates / grows.  The bytes-backed writer allocates outside the pool (dirtmake): modelled as "no pool event".
Grow ==
  /\ Step
  /\ (Kind = "decoder") => live = {}   \* the decoder grows only inside Next, whose entry ended the previous epoch
  /\ IF Kind = "byteswriter"
     THEN UNCHANGED <<pvars, cur, pend, nsid>>
     ELSE \E b \in Bufs :
            /\ PoolMalloc(b, "inst")
            /\ cur' = b
            /\ IF cur > 0 /\ Protocol = "park" /\ Kind # "decoder"
               THEN pend' = pend \cup {cur}
               ELSE pend' = pend
            /\ UNCHANGED nsid

\* the decoder (and the seeded wrong protocol) free the old buffer right after growing
FreeOld(b) ==
  /\ Step /\ b > 0 /\ b # cur /\ b \notin pend /\ Owner(b) = "inst"
  /\ (Kind = "decoder" \/ Protocol = "freeOnGrow")
  /\ FreeEffect(b, "inst")          \* unguarded: the invariants must catch a bad free
  /\ UNCHANGED <<cur, pend, nsid>>

HandOutCur ==
  /\ Step /\ cur >= 0
  /\ HandOut(nsid, cur) /\ nsid' = nsid + 1
  /\ UNCHANGED <<cur, pend>>

\* Release / Flush / (decoder) next Next: the epoch ends, parked buffers are freed one by one,
\* the current buffer is freed or kept (reader: kept when unread data remains; never freed if caller-owned)
EndEpoch == Step /\ EpochEnd /\ UNCHANGED <<cur, pend, nsid>>
FreeParked ==
  /\ Step /\ live = {}
  /\ \E b \in pend : FreeEffect(b, "inst") /\ pend' = pend \ {b}
  /\ UNCHANGED <<cur, nsid>>
FreeCur ==
  /\ Step /\ live = {} /\ pend = {} /\ cur > 0 /\ Kind # "decoder"
  /\ FreeEffect(cur, "inst") /\ cur' = -1
  /\ UNCHANGED <<pend, nsid>>
DropCaller ==    \* a fully consumed caller buffer is simply forgotten
  /\ Step /\ live = {} /\ pend = {} /\ cur = 0
  /\ cur' = -1 /\ UNCHANGED <<pvars, pend, nsid>>

CoMalloc == Step /\ \E b \in Bufs : PoolMalloc(b, "co") /\ UNCHANGED <<cur, pend, nsid>>
CoFree   == Step /\ \E b \in Bufs : PoolFree(b, "co") /\ UNCHANGED <<cur, pend, nsid>>

MCNext == Grow \/ (\E b \in Bufs : FreeOld(b)) \/ HandOutCur \/ EndEpoch \/ FreeParked \/ FreeCur \/ DropCaller \/ CoMalloc \/ CoFree
MCSpec == MCInit /\ [][MCNext]_mcvars

\* everything the instance holds is exactly cur + pend (no leak of ownership, no foreign hold)
HoldsExactly == {b \in DOMAIN own : own[b] = "inst"} \subseteq
                   ({cur} \cup pend \cup (IF Kind = "decoder" \/ Protocol = "freeOnGrow" THEN DOMAIN own ELSE {}))
\* the decoder's results live until the next Next: its growSlow frees the old buffer only after
\* copying, and hands out slices of the current buffer only.
\* a live slice is never in memory the co-tenant has scribbled on since it was handed out
LiveNeverScribbled == \A s \in live : s.buf = 0 \/ (Owner(s.buf) = "inst" /\ s.buf \notin dirty)
Inv == LiveSliceBufferNotInPool /\ CallerNeverPooled /\ NoPoolWhenDisabled /\ HoldsExactly /\ LiveNeverScribbled
=============================================================================
