SPECIFICATION Spec
CONSTANTS
  LaneAlphabet = {0, 1, 127, 128, 255}
INVARIANT Inv
CHECK_DEADLOCK FALSE
