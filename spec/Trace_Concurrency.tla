--------------------------- MODULE Trace_Concurrency ---------------------------
(* Validates the event log of the concurrent stress driver: every acquisition   *)
(* and release of a pooled object (logged after Get / before Put under one       *)
(* mutex, an order that is conservative w.r.t. the real linearisation) must be   *)
(* an enabled Acquire / Release of Concurrency.tla, i.e. no object is ever in    *)
(* two hands; every self-check of a goroutine's results must be ok (no bytes of  *)
(* one instance appear in another); map queries must be correct.                 *)
EXTENDS Concurrency, TraceCommon
VARIABLES l, skip
tvars == <<cvars, l, skip>>
Step(ev) ==
  CASE ev.k = "acq" -> Acquire(ev.g, ev.obj)
    [] ev.k = "rel" -> Release(ev.g, ev.obj)
    [] ev.k = "selfcheck" -> ev.ok /\ UNCHANGED cvars
    [] ev.k = "mapget" -> ev.ok /\ MapGet(ev.g)
    [] ev.k = "race" -> FALSE
    [] ev.k = "recycled" -> UNCHANGED cvars
    [] OTHER -> UNCHANGED cvars
TraceInit == l = 1 /\ skip = TRUE /\ CInit
TraceNext ==
  /\ l <= Len(Trace)
  /\ l' = l + 1
  /\ LET ev == Trace[l] IN
     IF ev.k = "reset" THEN /\ holder' = <<>> /\ ref' = <<>> /\ mine' = <<>> /\ skip' = FALSE
                            /\ UNCHANGED <<lock, read, regions, spc, pend, map>>
     ELSE IF ev.k = "recycled" /\ ~ev.clean
          THEN \* the model's ResetOnRecycle (a pooled object references nothing of its last user) does not hold for
               \* this object: implementation-level disagreement, reported as drift (no observable leak by itself)
               ReportWhy("DRIFT", l, ev.typ) /\ UNCHANGED <<cvars, skip>>
     ELSE IF skip THEN UNCHANGED <<cvars, skip>>
     ELSE \/ Step(ev) /\ skip' = FALSE
          \/ ~ENABLED Step(ev) /\ ReportWhy("MISMATCH", l, ev.k) /\ skip' = TRUE /\ UNCHANGED cvars
TraceSpec == TraceInit /\ [][TraceNext]_tvars
=============================================================================
