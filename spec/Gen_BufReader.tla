---------------------------- MODULE Gen_BufReader ----------------------------
(* TLC as test-case generator for the buffered reader (property C04).       *)
(* The behaviours of MC_BufReader (ReaderImpl + the source machine) are      *)
(* explored exhaustively within the cfg bounds; a history variable records  *)
(* the inputs of the behaviour -- the operations the client issued and the  *)
(* number of bytes each productive Read of the source handed over -- and a  *)
(* constraint prints it for EVERY generated transition (the view hides the  *)
(* history, so each transition of the state graph is printed once).  The    *)
(* harness (c04.go) turns every maximal history into a case, replays it on  *)
(* the real bufiox reader with a source scripted to return exactly those    *)
(* chunks, and the recorded execution is validated by Trace_BufReader:      *)
(* every transition of the bounded model is thereby exercised on the code.  *)
(*                                                                           *)
(* hist = << init, ops, chunks >>, integers only (printed with ToString):    *)
(*   init   = << flavour (0 io, 1 bytes), S, fkind (1 EOF, 2 ERR),           *)
(*               withData (0/1), cap of the caller's slice >>                *)
(*   ops    = sequence of << opcode, n >>  (1 next 2 peek 3 skip             *)
(*               4 readbinary 5 release)                                     *)
(*   chunks = bytes handed over by each Read issued while the source still   *)
(*               had bytes (0 = an empty read)                               *)
(***************************************************************************)
EXTENDS MC_BufReader

VARIABLE hist
gvars == <<mcvars, hist>>

OpCode(o) == CASE o = "next" -> 1 [] o = "peek" -> 2 [] o = "skip" -> 3
               [] o = "readbinary" -> 4 [] o = "release" -> 5

GenInit ==
  /\ MCInit
  /\ hist = << << IF flavour = "io" THEN 0 ELSE 1, src.S, IF src.fkind = "EOF" THEN 1 ELSE 2,
                  IF src.withData THEN 1 ELSE 0, R.bcap >>, <<>>, <<>> >>

GenNext ==
  /\ MCNext
  /\ hist' = IF pc = "idle"
             THEN << hist[1], Append(hist[2], << OpCode(cur'.op), cur'.n >>), hist[3] >>
             ELSE IF src.failed \/ SrcLeft = 0
             THEN hist                                   \* the failing Read takes no chunk of the script
             ELSE << hist[1], hist[2], Append(hist[3], src'.pos - src.pos) >>

GenSpec == GenInit /\ [][GenNext]_gvars

\* evaluated for every generated successor state, seen before or not
Emit == PrintT(ToString(hist))
=============================================================================
