SPECIFICATION MCSpec
CONSTANTS
  G = {"g1", "g2", "g3"}
  Objs = {"o1", "o2"}
  SpanSize = 4
  ResetOnPut = TRUE
  MaxSteps = 9
INVARIANT Inv
CHECK_DEADLOCK FALSE
