SPECIFICATION MCSpec
CONSTANTS
  CapRule = "len"
  MaxSteps = 4
  SpanSize = 8
INVARIANT Inv
CHECK_DEADLOCK FALSE
