--------------------------- MODULE Trace_ThriftWire ---------------------------
(***************************************************************************)
(* Judges recorded calls of the Thrift Binary codec against ThriftWire.    *)
(*   enc   : one writer API produced `out` for (kind, val)                 *)
(*   encb  : the stream writer over a writer with a byte budget            *)
(*   dec   : one reader API decoded `in` as `kind`                         *)
(*   entry : any other buffer-based decoding entry point (C03 only)        *)
(* VPROP selects the clause set: C01 (agreement with Enc/Dec, lengths,     *)
(* consumption), C12 (message envelope), C03 (no panic, n <= len),         *)
(* C17 (exception type id / source error by cause).                        *)
(***************************************************************************)
EXTENDS ThriftWire, TraceCommon
VARIABLES l
Prop == IOEnv.VPROP

EncOK(ev) ==
  LET e == Enc(ev.kind, ev.val) IN
  /\ Canon(ev.out) = e
  /\ ev.ret = SegsLen(e)          \* returned length / WrittenLen delta
  /\ ev.adv = SegsLen(e)          \* advertised length function

\* a stream writer over a bufiox.Writer that accepts `budget` bytes and then fails: success exactly when the
\* encoding fits, otherwise the writer's own error comes back and nothing beyond the budget was accepted
EncBudgetOK(ev) ==
  LET n == SegsLen(Enc(ev.kind, ev.val)) IN
  /\ ~ev.panic
  /\ IF ev.budget >= n THEN ev.ok /\ ev.wrote = n
     ELSE ~ev.ok /\ ev.errsrc /\ ev.wrote <= ev.budget

DecAgree(ev) ==
  LET d == Dec(ev.kind, MkIn(ev.in)) IN
  /\ ~ev.panic
  /\ d.ok => (ev.ok /\ ev.val = d.val /\ ev.n = d.n /\ ev.used = d.n)
  /\ ~d.ok => ~ev.ok
  \* "consumes exactly that many bytes": once the value's bytes have arrived the source is not asked for more
  \* (on a live connection such a request blocks until the NEXT message arrives)
  /\ ("over" \in DOMAIN ev /\ d.ok) => ~ev.over

DecOKFor(ev) ==
  CASE Prop = "C01" -> DecAgree(ev)
    [] Prop = "C12" -> /\ DecAgree(ev)
                       \* "headers lacking the strict-version marker are rejected as bad-version"
                       /\ (ev.kind = "msgbegin" /\ Dec(ev.kind, MkIn(ev.in)).cause = "badversion") => ev.tid = 4
    [] Prop = "C03" -> ~ev.panic /\ (ev.ok => (0 <= ev.n /\ ev.n <= SegsLen(ev.in)))
    [] Prop = "C17" ->
         LET d == Dec(ev.kind, MkIn(ev.in)) IN
         \/ ev.panic \/ ev.ok \/ d.ok                    \* judged elsewhere
         \/ /\ ev.api = "buffer" => ev.tid \in TypeIds(d.cause)
            /\ (ev.api = "stream" /\ d.cause = "short") => ev.srcerr
            /\ (ev.api = "stream" /\ d.cause \in {"neg", "badversion"}) => ev.tid \in TypeIds(d.cause)
    [] OTHER -> FALSE

EvOK(ev) ==
  CASE ev.k = "enc"   -> (Prop \in {"C01", "C12"}) => EncOK(ev)
    [] ev.k = "encb"  -> (Prop \in {"C01", "C12"}) => EncBudgetOK(ev)
    [] ev.k = "dec"   -> DecOKFor(ev)
    [] ev.k = "entry" -> ~ev.panic /\ (ev.ok => (0 <= ev.n /\ ev.n <= ev.len))
    [] OTHER -> TRUE

Why(ev) == IF ev.k = "entry" THEN ev.entry ELSE ev.k \o "/" \o ev.api \o "/" \o ev.kind

TraceInit == l = 1
TraceNext ==
  /\ l <= Len(Trace)
  /\ l' = l + 1
  /\ LET ev == Trace[l] IN ~EvOK(ev) => ReportWhy("MISMATCH", l, Why(ev))
TraceSpec == TraceInit /\ [][TraceNext]_l
=============================================================================
