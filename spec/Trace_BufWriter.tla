--------------------------- MODULE Trace_BufWriter ---------------------------
(***************************************************************************)
(* Validates executions recorded from the real bufiox writers.             *)
(*  ABS  track: the C05 contract on logged observables (errors, returned   *)
(*        lengths, WrittenLen, the bytes received by the sink projected    *)
(*        onto pattern segments, the bytes target).  => MISMATCH           *)
(*  IMPL track: WriterImpl actions; logged hook state (len, cap, parked    *)
(*        lengths/capacities, err) must equal the model.      => DRIFT     *)
(***************************************************************************)
EXTENDS BufWriter, TraceCommon

VARIABLES l, A, askip, iskip
tvars == <<wvars, l, A, askip, iskip>>

-----------------------------------------------------------------------------
(* ABS track.  A.pend = <<[len, id, seed]>> (seed = -1 until filled)         *)
AInit(ev) == [pend |-> <<>>, failed |-> FALSE, init |-> ev.init, iseed |-> ev.iseed, first |-> TRUE,
              fl |-> ev.fl, sinkw |-> 0]

RECURSIVE SumL(_)
SumL(rs) == IF rs = <<>> THEN 0 ELSE Head(rs).len + SumL(Tail(rs))
WL(a) == SumL(a.pend) + (IF a.first THEN a.init ELSE 0)

\* expected image of a flush: the non-empty regions in order as pattern runs
RECURSIVE Image(_)
Image(rs) == IF rs = <<>> THEN <<>>
             ELSE IF Head(rs).len = 0 THEN Image(Tail(rs))
             ELSE <<[r |-> <<Head(rs).seed, 0, Head(rs).len>>]>> \o Image(Tail(rs))
InitImage(a) == IF a.first /\ a.init > 0 THEN <<[r |-> <<a.iseed, 0, a.init>>]>> ELSE <<>>

SetFill(rs, id, seed) == [k \in 1 .. Len(rs) |-> IF rs[k].id = id THEN [rs[k] EXCEPT !.seed = seed] ELSE rs[k]]

AOK(a, ev) ==
  CASE ev.k = "malloc" ->
         /\ ev.e # "PANIC"
         /\ IF a.failed THEN ev.e = "SINK"
            ELSE IF ev.n < 0 THEN ev.e # "nil"
            ELSE ev.e = "nil" /\ ev.blen = ev.n /\ ev.wl = WL(a) + ev.n
    [] ev.k = "wb" ->
         /\ ev.e # "PANIC"
         /\ IF a.failed THEN ev.e = "SINK"
            ELSE ev.e = "nil" /\ ev.m = ev.n /\ ev.wl = WL(a) + ev.n
    [] ev.k = "flush" ->
         /\ ev.e # "PANIC"
         /\ IF a.failed THEN ev.e = "SINK" /\ ev.sink = <<>> /\ ev.nsink = 0
            ELSE /\ ev.e \in {"nil", "SINK"}
                 /\ (ev.e = "SINK") => ev.sinkerr                 \* an error is reported only if the sink failed
                 /\ ev.sinkerr => (ev.e = "SINK")                 \* "a sink error is returned"
                 /\ (ev.e = "nil" /\ a.fl = "io") => (ev.sink = Image(a.pend) /\ ev.wl = 0)
                 /\ (ev.e = "nil" /\ a.fl = "bytes") =>
                        /\ ev.wl = 0
                        /\ a.first =>   \* (the property states the target for the first flush cycle only)
                           /\ (ev.touched => ev.target = InitImage(a) \o Image(a.pend))
                           /\ (~ev.touched => Image(a.pend) = <<>>)   \* nothing was written: target left as it was
    [] OTHER -> TRUE

AStep(a, ev) ==
  CASE ev.k = "malloc" -> IF ev.e = "nil" THEN [a EXCEPT !.pend = Append(a.pend, [len |-> ev.n, id |-> ev.id, seed |-> -1])] ELSE a
    [] ev.k = "wb" -> IF ev.e = "nil" THEN [a EXCEPT !.pend = Append(a.pend, [len |-> ev.n, id |-> ev.id, seed |-> ev.seed])] ELSE a
    [] ev.k = "fill" -> [a EXCEPT !.pend = SetFill(a.pend, ev.id, ev.seed)]
    [] ev.k = "flush" -> IF ev.e = "nil" THEN [a EXCEPT !.pend = <<>>, !.first = FALSE]
                         ELSE [a EXCEPT !.failed = TRUE]
    [] OTHER -> a

-----------------------------------------------------------------------------
(* IMPL track                                                               *)
PendMatches(p, st) == /\ Len(p) = Len(st.plens)
                      /\ \A j \in 1 .. Len(p) : p[j].len = st.plens[j] /\ p[j].cap = st.pcaps[j]
StateMatches(w, st) == /\ w.len = st.len /\ w.cap = st.cap /\ PendMatches(w.pend, st)
                       /\ (w.err # "nil") = st.err

ImplReset(ev) ==
  /\ wres' = [op |-> "none", n |-> 0, e |-> "nil"]
  /\ sink' = [writes |-> 0, failAt |-> ev.failAt]
  /\ IF ev.fl = "bytes" THEN W' = WInitBytes(ev.init, ev.cap, ev.isnil) /\ G' = GInitW(ev.init)
     ELSE W' = WInitIO /\ G' = GInitW(0)

ImplEv(ev) ==
  CASE ev.k = "malloc" -> Malloc(ev.n, ev.id) /\ wres'.e = ev.e /\ StateMatches(W', ev.st)
    [] ev.k = "wb"     -> WriteBinary(ev.n, ev.id) /\ wres'.e = ev.e /\ StateMatches(W', ev.st)
    [] ev.k = "flush"  -> Flush /\ wres'.e = ev.e /\ StateMatches(W', ev.st) /\ (W.cache => (wres'.wrote = (ev.nsink > 0))) /\ ev.nsink <= 1
    [] OTHER -> UNCHANGED wvars

-----------------------------------------------------------------------------
TraceInit ==
  /\ l = 1 /\ askip = TRUE /\ iskip = TRUE /\ A = [fl |-> "none"]
  /\ W = WInitIO /\ G = GInitW(0) /\ sink = [writes |-> 0, failAt |-> 0]
  /\ wres = [op |-> "none", n |-> 0, e |-> "nil"]

TraceNext ==
  /\ l <= Len(Trace)
  /\ l' = l + 1
  /\ LET ev == Trace[l] IN
     IF ev.k = "reset"
     THEN /\ A' = AInit(ev) /\ askip' = FALSE /\ iskip' = FALSE /\ ImplReset(ev)
     ELSE /\ IF askip THEN UNCHANGED <<A, askip>>
             ELSE IF AOK(A, ev) THEN A' = AStep(A, ev) /\ askip' = FALSE
             ELSE /\ Report("MISMATCH", l) /\ askip' = TRUE /\ UNCHANGED A
          /\ IF iskip THEN UNCHANGED <<wvars, iskip>>
             ELSE \/ ImplEv(ev) /\ iskip' = FALSE
                  \/ ~ENABLED ImplEv(ev) /\ Report("DRIFT", l) /\ iskip' = TRUE /\ UNCHANGED wvars

TraceSpec == TraceInit /\ [][TraceNext]_tvars
=============================================================================
