---------------------------- MODULE Trace_BufPool ----------------------------
(***************************************************************************)
(* Validates pool-boundary traces recorded from the real bufiox readers,   *)
(* writers and ReaderSkipDecoder running over the pool double, with the    *)
(* co-tenant active between operations.  Every recorded event must be an   *)
(* enabled action of BufPool (rules P1..P5); Go-side monitor events        *)
(* (content of live slices, caller memory, region disjointness, poison)    *)
(* must be "ok".                                                           *)
(***************************************************************************)
EXTENDS BufPool, TraceCommon

VARIABLES l, skip
tvars == <<pvars, l, skip>>

EvAction(ev) ==
  CASE ev.k = "pm"    -> PoolMalloc(ev.buf, ev.by)
    [] ev.k = "pf"    -> PoolFree(ev.buf, ev.by)
    [] ev.k = "slice" -> HandOut(ev.sid, ev.buf)
    [] ev.k = "epoch" -> EpochEnd
    [] ev.k = "pfi"   -> UNCHANGED pvars                       \* Free of a non-power-of-two capacity: ignored by the pool
    [] ev.k = "pff"   -> FALSE                                 \* P1/P3: free of memory the pool never issued
    [] ev.k = "pdf"   -> FALSE                                 \* P1: double free
    [] ev.k = "ppd"   -> FALSE                                 \* P4: write into a buffer after it was freed
    [] ev.k = "livecheck"   -> ev.ok /\ UNCHANGED pvars        \* P2: handed-out slices kept their exact contents
    [] ev.k = "callercheck" -> ev.ok /\ UNCHANGED pvars        \* P3: caller memory unmodified
    [] ev.k = "regions"     -> ev.ok /\ UNCHANGED pvars        \* writer regions pairwise disjoint
    [] ev.k = "panic"       -> FALSE
    [] OTHER -> UNCHANGED pvars

TraceInit == l = 1 /\ skip = TRUE /\ PInit(FALSE)

TraceNext ==
  /\ l <= Len(Trace)
  /\ l' = l + 1
  /\ LET ev == Trace[l] IN
     IF ev.k = "reset"
     THEN /\ own' = <<>> /\ live' = {} /\ dirty' = {} /\ nopool' = ev.nopool /\ skip' = FALSE
     ELSE IF skip THEN UNCHANGED <<pvars, skip>>
     ELSE \/ EvAction(ev) /\ skip' = FALSE
          \/ ~ENABLED EvAction(ev) /\ Report("MISMATCH", l) /\ skip' = TRUE /\ UNCHANGED pvars

TraceSpec == TraceInit /\ [][TraceNext]_tvars
=============================================================================
