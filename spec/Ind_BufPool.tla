----------------------------- MODULE Ind_BufPool -----------------------------
(* Inductive invariant of the buffer life-cycle protocol (property C09),     *)
(* discharged by Apalache: every instance kind, 4 pool buffers, runs of any  *)
(* length (the step counter is unconstrained), any number of handed-out      *)
(* slices.                                                                   *)
EXTENDS MC_BufPool

ConstInit == /\ Bufs = 1..4 /\ MaxSteps \in Nat
             /\ Kind \in {"reader", "bytesreader", "writer", "byteswriter", "decoder"}
             /\ Protocol = "park"
ConstInitNeg == /\ Bufs = 1..4 /\ MaxSteps \in Nat /\ Kind \in {"reader", "writer"} /\ Protocol = "freeOnGrow"

Held == {b \in DOMAIN own : own[b] = "inst"}

TypeOK ==
  /\ DOMAIN own \subseteq Bufs
  /\ \A b \in DOMAIN own : own[b] \in {"pool", "inst", "co"}
  /\ dirty \subseteq DOMAIN own
  /\ cur \in Bufs \cup {0, -1}
  /\ pend \subseteq Bufs
  /\ nsid >= 1 /\ steps >= 0
  /\ nopool = (Kind = "byteswriter")

Strengthening ==
  /\ cur \notin pend
  /\ (cur > 0) => (cur \in Held)
  /\ pend \subseteq Held
  /\ (Kind = "decoder") => pend = {}
  /\ (Kind # "decoder") => Held \subseteq ({cur} \cup pend)
  /\ \A b \in Held : b \notin dirty                     \* what the instance holds was never scribbled on since it got it
  /\ \A s \in live : s.buf \in ({0, cur} \cup pend)     \* live slices point into caller memory, the current or a parked buffer
  /\ (cur = 0) => Kind \in {"bytesreader", "byteswriter"}

IndInv == TypeOK /\ Strengthening /\ Inv

IndInit ==
  /\ \E D \in SUBSET Bufs : own \in [D -> {"pool", "inst", "co"}]
  /\ \E a, b, c \in [sid : Nat, buf : Bufs \cup {0}] : live \in SUBSET {a, b, c}
  /\ dirty \in SUBSET Bufs
  /\ nopool \in BOOLEAN
  /\ cur \in Bufs \cup {0, -1}
  /\ pend \in SUBSET Bufs
  /\ nsid \in Nat /\ steps \in Nat
  /\ IndInv

\* runs of any length: the step bound is lifted by letting the counter be anything before each step
Next == MCNext
\* non-vacuity probes (each must be violated from IndInit)
ProbeNoLive == live = {}
ProbeNoPend == pend = {}
ProbeNoCo == \A b \in DOMAIN own : own[b] # "co"
=============================================================================
