----------------------------- MODULE MC_TTHeader -----------------------------
(* Exhaustive facts about the TTHeader reference parser and the encoder      *)
(* contract: all 65536 header-size fields x {body present, one byte short,   *)
(* absent}; all 65536 flags; all 256 protocol ids; all 256 info ids; all     *)
(* transform counts; every admissible frame of a bounded parameter domain    *)
(* (every entry order, every padding residue) parses back to its parameters. *)
EXTENDS TTHeader, FiniteSets
VARIABLE x
Init == x = 0
Next == UNCHANGED x
Spec == Init /\ [][Next]_x

Meta(flags, f) == <<0, 0, 0, 0, 16, 0, flags \div 256, flags % 256, 0, 0, 0, 1, f \div 256, f % 256>>
Frame(flags, f, bodylen) == MkIn(IF bodylen = 0 THEN <<[l |-> Meta(flags, f)]>> ELSE <<[l |-> Meta(flags, f)], [z |-> bodylen]>>)

SizeFields == \A f \in 0 .. 65535 :
   LET full == Parse(Frame(0, f, 4 * f))
       short == Parse(Frame(0, f, 4 * f - 1))
       none == Parse(Frame(0, f, 0)) IN
   /\ full.ok = (1 <= f /\ f <= 16384)
   /\ full.ok => (full.hlen = 14 + 4 * f /\ full.param.int = <<>> /\ full.param.str = <<>>)
   /\ (f >= 1) => (~short.ok /\ ~none.ok)
   /\ MaxConsume(Frame(0, f, 4 * f)) = 14 + 4 * f /\ MaxConsume(Frame(0, f, 0)) = 14

Flags == \A fl \in 0 .. 65535 : LET p == Parse(Frame(fl, 1, 4)) IN p.ok /\ p.param.flags = fl /\ p.hlen = 18

Body(bs) == MkIn(<<[l |-> Meta(0, Len(bs) \div 4) \o bs]>>)
Protos == \A id \in 0 .. 255 : Parse(Body(<<id, 0, 0, 0>>)).ok = (id \in Protocols)
InfoIds == \A id \in 0 .. 255 :
   LET p == Parse(Body(<<0, 0, id, 0, 0, 0, 0, 0>>)) IN
   p.ok = (id \in {0, 1, 16, 17})                      \* padding, empty str section, empty int section, empty ACL token
Transforms == \A n \in 0 .. 255, words \in 1 .. 3 :
   LET body == <<0, n>> \o [k \in 1 .. 4 * words - 2 |-> 0] IN
   Parse(Body(body)).ok = (n <= 4 * words - 2)
Magic == \A a \in 0 .. 255, b \in 0 .. 255 :
   Parse(MkIn(<<[l |-> <<0, 0, 0, 0, a, b, 0, 0, 0, 0, 0, 1, 0, 1, 0, 0, 0, 0>>]>>)).ok = (a = 16 /\ b = 0)

\* ---- encoder contract over a bounded parameter domain ----------------------
S(n) == [k \in 1 .. n |-> 65 + k]                    \* a string of length n
Str2Enc(bs) == U16Lanes(Len(bs)) \o bs
Vals == {<<>>, S(1), S(2), S(3)}
StrEntries == {<<k, v>> : k \in {S(1), S(2)}, v \in Vals}
IntEntries == {<<k, v>> : k \in {0, 1, 65535}, v \in Vals}
Pad(bs) == bs \o [k \in 1 .. ((4 - (Len(bs) % 4)) % 4) |-> 0]
\* all entry orders of up to two str and int entries, with / without an ACL token
FramesOf(acl, ss, is) ==
  LET aclB == IF ~acl.has THEN <<>> ELSE <<17>> \o Str2Enc(acl.tok)
      strB == IF ss = <<>> THEN <<>> ELSE <<1>> \o U16Lanes(Len(ss)) \o
                 (IF Len(ss) = 1 THEN Str2Enc(ss[1][1]) \o Str2Enc(ss[1][2])
                  ELSE Str2Enc(ss[1][1]) \o Str2Enc(ss[1][2]) \o Str2Enc(ss[2][1]) \o Str2Enc(ss[2][2]))
      intB == IF is = <<>> THEN <<>> ELSE <<16>> \o U16Lanes(Len(is)) \o
                 (IF Len(is) = 1 THEN U16Lanes(is[1][1]) \o Str2Enc(is[1][2])
                  ELSE U16Lanes(is[1][1]) \o Str2Enc(is[1][2]) \o U16Lanes(is[2][1]) \o Str2Enc(is[2][2]))
  IN Pad(<<4, 0>> \o aclB \o strB \o intB)
EntrySeqs(E) == {<<>>} \cup {<<e>> : e \in E} \cup {<<a, b>> : a \in E, b \in E}
DistinctKeys(ps) == Len(ps) < 2 \/ ps[1][1] # ps[2][1]
EncoderContract ==
  \A acl \in {[has |-> FALSE, tok |-> <<>>], [has |-> TRUE, tok |-> <<>>], [has |-> TRUE, tok |-> S(2)]}, ss \in EntrySeqs(StrEntries), is \in EntrySeqs(IntEntries) :
    (DistinctKeys(ss) /\ DistinctKeys(is)) =>
      LET body == FramesOf(acl, ss, is)
          p    == Parse(Body(body))
          strs == [k \in DOMAIN ss |-> <<Lit(ss[k][1]), Lit(ss[k][2])>>] \o (IF ~acl.has THEN <<>> ELSE <<<<GDPRKey, Lit(acl.tok)>>>>)
          ints == [k \in DOMAIN is |-> <<is[k][1], Lit(is[k][2])>>]
          want == [flags |-> 0, seq |-> 1, proto |-> 4, int |-> ints, str |-> strs]
      IN /\ p.ok /\ p.hlen = 14 + Len(body) /\ Len(body) % 4 = 0
         /\ SameParam(p.param, NormParam(want))
         /\ InfoSize(NormParam(want)) = Len(body)
Inv == SizeFields /\ Flags /\ Protos /\ InfoIds /\ Transforms /\ Magic /\ EncoderContract
=============================================================================
