-------------------------- MODULE Trace_UnknownFields --------------------------
(* Judges recorded ConvertUnknownFields / GetUnknownFields / WriteUnknownFields / *)
(* UnknownFieldsLength calls against UnknownFields.tla.                           *)
EXTENDS UnknownFields, TraceCommon
VARIABLES l
Prop == IOEnv.VPROP

\* normalise the string leaves of a logged tree
RECURSIVE NormF(_), NormFs(_)
NormF(f) ==
  CASE f.t = 11 -> [f EXCEPT !.v = [segs |-> Norm(f.v.segs)]]
    [] f.t \in {14, 15} -> [f EXCEPT !.v = [elems |-> NormFs(f.v.elems)]]
    [] f.t = 13 -> [f EXCEPT !.v = [kv |-> NormFs(f.v.kv)]]
    [] f.t = 12 -> [f EXCEPT !.v = [fields |-> NormFs(f.v.fields)]]
    [] OTHER -> f
NormFs(fs) == [k \in DOMAIN fs |-> NormF(fs[k])]

\* tree equality with semantic equality of string leaves
RECURSIVE FieldEq(_, _), FieldsEq(_, _)
FieldEq(a, b) ==
  /\ a.id = b.id /\ a.t = b.t /\ a.kt = b.kt /\ a.vt = b.vt
  /\ CASE a.t = 11 -> SegsEq(a.v.segs, b.v.segs)
        [] a.t \in {14, 15} -> FieldsEq(a.v.elems, b.v.elems)
        [] a.t = 13 -> FieldsEq(a.v.kv, b.v.kv)
        [] a.t = 12 -> FieldsEq(a.v.fields, b.v.fields)
        [] OTHER -> a.v = b.v
FieldsEq(as, bs) == Len(as) = Len(bs) /\ \A k \in DOMAIN as : FieldEq(as[k], bs[k])

ConvOK(ev) ==
  LET r == ToTree(MkIn(ev.in)) IN
  CASE Prop = "C03" -> ~ev.panic
    [] OTHER -> /\ ~ev.panic
                /\ r.ok => (ev.ok /\ FieldsEq(NormFs(ev.tree), r.fs))
                /\ ~r.ok => ~ev.ok

WriteOK(ev) ==
  LET t == NormFs(ev.tree) IN
  /\ ev.ok
  /\ SegsEq(ev.out, FieldsBytes(t))
  /\ ev.ret = TreeLen(t) /\ ev.len = TreeLen(t)

\* a tree with a node whose type tag is not a Thrift type / a value that holds no unknown fields: refused, no panic
BadOK(ev) == ~ev.panic /\ ~ev.lenok /\ ~ev.writeok

EvOK(ev) == CASE ev.k = "uf_conv" -> ConvOK(ev) [] ev.k = "uf_write" -> WriteOK(ev)
              [] ev.k = "uf_bad" -> (Prop = "C13") => BadOK(ev) [] OTHER -> TRUE
TraceInit == l = 1
TraceNext == /\ l <= Len(Trace) /\ l' = l + 1
             /\ LET ev == Trace[l] IN ~EvOK(ev) => ReportWhy("MISMATCH", l, ev.k \o "/" \o ev.api)
TraceSpec == TraceInit /\ [][TraceNext]_l
=============================================================================
