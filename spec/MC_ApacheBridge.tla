--------------------------- MODULE MC_ApacheBridge ---------------------------
(* All operation sequences up to MaxOps over both handles: the single-state   *)
(* design keeps Remaining = unread length, Close/Reset empty it, and reads     *)
(* deliver the written bytes in order (FIFO) whatever handle is used.          *)
EXTENDS ApacheBridge
CONSTANTS MaxOps
VARIABLES nops, written, readout
mcvars == <<buf, nops, written, readout>>
Handles == {"T", "B"}
MCInit == buf = <<>> /\ nops = 0 /\ written = <<>> /\ readout = <<>>
MCNext ==
  /\ nops < MaxOps /\ nops' = nops + 1
  /\ \/ \E h \in Handles, bs \in {<<>>, <<1>>, <<2, 3>>} : Write(h, bs) /\ written' = written \o bs /\ UNCHANGED readout
     \/ \E h \in Handles, n \in 0 .. 2 : Read(h, n) /\ readout' = readout \o ReadData(n) /\ UNCHANGED written
     \/ \E h \in Handles : Reset(h) /\ written' = <<>> /\ readout' = <<>>
     \/ Close /\ written' = <<>> /\ readout' = <<>>
MCSpec == MCInit /\ [][MCNext]_mcvars
\* what was written since the last reset = what was read \o what remains
Fifo == written = readout \o buf
RemainingIsUnread == Remaining = Len(written) - Len(readout)
Inv == Fifo /\ RemainingIsUnread
=============================================================================
