---------------------------- MODULE MC_FastStructs ----------------------------
(* For Base, BaseResp and ApplicationException: every permutation of the      *)
(* known fields, with up to two unknown or differently-typed fields (incl.    *)
(* ids colliding with known ids) inserted at every position, and nil / empty  *)
(* / one-entry maps, reads back to the written value and consumes the whole   *)
(* input; the canonical writer's output has length BLen and reads back.       *)
EXTENDS FastStructs, FiniteSets
VARIABLE x
Init == x = 0
Next == UNCHANGED x
Spec == Init /\ [][Next]_x

A == Lit(<<97>>)   B == Lit(<<98, 99>>)
Vals(name) ==
  CASE name = "Base" ->
         {[s1 |-> s, s2 |-> B, s3 |-> <<>>, extra |-> e] : s \in {<<>>, A},
            e \in {NoMap, [set |-> TRUE, pairs |-> <<>>], [set |-> TRUE, pairs |-> <<<<A, B>>>>]}}
    [] name = "BaseResp" ->
         {[s1 |-> s, i |-> i, extra |-> e] : s \in {<<>>, A}, i \in {0, -1, 2147483647},
            e \in {NoMap, [set |-> TRUE, pairs |-> <<>>], [set |-> TRUE, pairs |-> <<<<B, <<>>>>>>]}}
    [] name = "AppEx" -> {[s1 |-> s, i |-> i] : s \in {<<>>, A}, i \in {0, 6, -1}}

\* unknown / differently-typed fields (type, id, value bytes)
Unknowns == { Lit(<<8, 0, 9, 0, 0, 0, 1>>),              \* i32 with an unknown id
              Lit(<<8, 0, 1, 255, 255, 255, 255>>),      \* id 1 but i32 instead of string
              Lit(<<11, 0, 2, 0, 0, 0, 1, 120>>),        \* id 2 as string (known for Base, unknown type for the others)
              Lit(<<12, 0, 3, 8, 0, 1, 0, 0, 0, 0, 0>>), \* id 3 as a struct with one field
              Lit(<<15, 0, 6, 11, 0, 0, 0, 1, 0, 0, 0, 0>>), \* id 6 as list<string> with one empty string
              Lit(<<13, 0, 7, 8, 11, 0, 0, 0, 1, 0, 0, 0, 2, 0, 0, 0, 1, 65>>) }  \* map<i32,string> unknown id
\* (the string-typed unknown collides with a known (id,type) of Base: excluded there)
UnknownsFor(name) == IF name = "Base" THEN Unknowns \ {Lit(<<11, 0, 2, 0, 0, 0, 1, 120>>)} ELSE Unknowns

Perms(n) == {p \in [1 .. n -> 1 .. n] : \A i, j \in 1 .. n : i # j => p[i] # p[j]}

RECURSIVE Build(_, _, _, _, _)
\* fields of v in the order perm, unknown u1 before position p1 and u2 before position p2 (position n+1 = at the end)
Build(sch, v, perm, ins, j) ==
  LET here == IF j \in DOMAIN ins THEN ins[j] ELSE <<>> IN
  IF j > Len(sch) THEN here \o Lit(<<0>>)
  ELSE here \o FieldEnc(sch[perm[j]], v) \o Build(sch, v, perm, ins, j + 1)

Holds(name) ==
  LET sch == Schema(name)  n == Len(sch) IN
  \A v \in Vals(name), perm \in Perms(n) :
    \A p1 \in 1 .. n + 1, u1 \in UnknownsFor(name) \cup {<<>>} :
      \A p2 \in {n + 1, 1}, u2 \in {<<>>, Lit(<<8, 0, 9, 0, 0, 0, 1>>), Lit(<<12, 0, 3, 0>>)} :
        LET ins == IF p1 = p2 THEN (p1 :> (u1 \o u2)) ELSE (p1 :> u1) @@ (p2 :> u2)
            in  == MkIn(Canon(Build(sch, v, perm, ins, 1)))
            r   == ReadStruct(name, in)
        IN r.ok /\ r.n = in.len /\ SameVal(name, r.val, v)

Canonical(name) ==
  \A v \in Vals(name) :
    LET e == EncStruct(name, v)  r == ReadStruct(name, MkIn(e)) IN
    r.ok /\ r.n = SegsLen(e) /\ SameVal(name, r.val, v) /\ BLen(name, v) = SegsLen(e)

Inv == Holds("Base") /\ Holds("BaseResp") /\ Holds("AppEx") /\ Canonical("Base") /\ Canonical("BaseResp") /\ Canonical("AppEx")
=============================================================================
