--------------------------- MODULE Ind_Concurrency ---------------------------
(* Inductive invariant of the concurrency design, discharged by Apalache for   *)
(* an arbitrary span size, arbitrary request sizes and arbitrarily long runs   *)
(* (3 goroutines, 3 objects):                                                 *)
(*   apalache-mc check --init=IndInit --inv=IndInv --length=0 (IndInit => IndInv, trivially) *)
(*   apalache-mc check --init=IndInit --next=Next --inv=IndInv --length=1     *)
(*   apalache-mc check --init=CInit0 --inv=IndInv --length=0                  *)
EXTENDS Concurrency

G == {"g1", "g2", "g3"}
Objs == {"o1", "o2", "o3"}
Who == G \cup {"pool"}

Next ==
  \E g \in G :
     \/ \E o \in Objs : Acquire(g, o)
     \/ \E o \in Objs : Release(g, o)
     \/ \E n \in Nat : n >= 1 /\ SpanTryLock(g, n)
     \/ SpanBump(g)
     \/ SpanSliceUnlock(g)

ConstInit == SpanSize \in Nat /\ SpanSize >= 1 /\ ResetOnPut \in {TRUE}
ConstInitNeg == SpanSize \in Nat /\ SpanSize >= 1 /\ ResetOnPut \in {FALSE}
CInit0 == CInit

Busy == {g \in DOMAIN spc : spc[g] # "none"}
\* the boundary below which every handed-out region lies
Lim == IF \E g \in DOMAIN spc : spc[g] = "bumped" /\ g \in DOMAIN pend
       THEN read - pend[CHOOSE g \in DOMAIN spc : spc[g] = "bumped" /\ g \in DOMAIN pend]
       ELSE read

TypeOK ==
  /\ SpanSize >= 1
  /\ DOMAIN holder \subseteq Objs /\ DOMAIN ref = DOMAIN holder
  /\ \A o \in DOMAIN holder : holder[o] \in Who /\ ref[o] \in G \cup {"none"}
  /\ DOMAIN mine \subseteq G /\ \A g \in DOMAIN mine : mine[g] \subseteq Objs
  /\ lock \in G \cup {"none"}
  /\ DOMAIN spc \subseteq G /\ \A g \in DOMAIN spc : spc[g] \in {"none", "locked", "bumped"}
  /\ DOMAIN pend \subseteq G
  /\ map = "loaded"

Strengthening ==
  \* ownership both ways
  /\ \A g \in DOMAIN mine : \A o \in mine[g] : o \in DOMAIN holder /\ holder[o] = g
  \* the lock and the program counters agree
  /\ \A g \in Busy : lock = g /\ g \in DOMAIN pend /\ pend[g] >= 1 /\ pend[g] < SpanSize
  /\ (lock # "none") => (lock \in DOMAIN spc /\ spc[lock] # "none")
  \* the bump pointer and the regions
  /\ read >= 0 /\ read <= SpanSize
  /\ \A g \in Busy : spc[g] = "bumped" => pend[g] <= read
  /\ \A r \in regions : r.lo >= 0 /\ r.lo < r.hi /\ r.hi <= Lim

IndInv ==
  /\ TypeOK /\ Strengthening
  /\ ExclusiveOwnership /\ HolderConsistent /\ ResetOnRecycle /\ NoForeignRef
  /\ SpanRegionsDisjoint /\ LockExclusive /\ MapNeverWritten

\* Apalache needs every variable bounded by the initial predicate: TypeOK-style generators
IndInit ==
  /\ \E D \in SUBSET Objs : holder \in [D -> Who] /\ ref \in [D -> G \cup {"none"}]
  /\ \E D \in SUBSET G : mine \in [D -> SUBSET Objs]
  /\ lock \in G \cup {"none"}
  /\ read \in Nat
  /\ \E a, b, c \in [g : G, lo : Nat, hi : Nat] : regions \in SUBSET {a, b, c}
  /\ \E D \in SUBSET G : spc \in [D -> {"none", "locked", "bumped"}]
  /\ \E D \in SUBSET G : pend \in [D -> Nat]
  /\ map = "loaded"
  /\ IndInv
\* non-vacuity probes: each must be VIOLATED from IndInit at length 0
ProbeNoRegions == regions = {}
ProbeNoBusy == Busy = {}
ProbeNoHeld == \A g \in DOMAIN mine : mine[g] = {}
=============================================================================
