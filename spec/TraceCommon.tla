---------------------------- MODULE TraceCommon ----------------------------
(* Shared plumbing of all Trace_* modules: the recorded trace (ndjson, one  *)
(* event per line; file named by the environment variable VTRACE), the      *)
(* payload abstraction of DESIGN.md 3.2 (pattern runs / literals / garbage) *)
(* and mismatch reporting.                                                   *)
EXTENDS Integers, Sequences, TLC, Json, IOUtils

Trace == ndJsonDeserialize(IOEnv.VTRACE)

\* Byte i (0-based) of the pattern stream with the given seed.
PatByte(seed, i) == (i * 131 + (i \div 256) + seed * 17) % 256

\* A segment is  [r |-> <<seed, off, len>>]  (len bytes of pattern `seed` from offset off),
\*               [l |-> <<b1, ..., bn>>]     (literal bytes) or
\*               [g |-> <<len, hash>>]       (unrecognised bytes).
IsRun(s) == "r" \in DOMAIN s
IsLit(s) == "l" \in DOMAIN s
IsGarbage(s) == "g" \in DOMAIN s
SegLen(s) == IF IsRun(s) THEN s.r[3] ELSE IF IsLit(s) THEN Len(s.l) ELSE s.g[1]
\* Byte i (1-based) of a segment; -1 for garbage
SegByte(s, i) == IF IsRun(s) THEN PatByte(s.r[1], s.r[2] + i - 1) ELSE IF IsLit(s) THEN s.l[i] ELSE -1

RECURSIVE SegsLen(_)
SegsLen(ss) == IF ss = <<>> THEN 0 ELSE SegLen(Head(ss)) + SegsLen(Tail(ss))
\* Byte i (1-based) of a segment list
RECURSIVE SegsByte(_, _)
SegsByte(ss, i) == IF i <= SegLen(Head(ss)) THEN SegByte(Head(ss), i) ELSE SegsByte(Tail(ss), i - SegLen(Head(ss)))

Report(kind, line) == PrintT(kind \o " " \o ToString(line))
ReportWhy(kind, line, why) == PrintT(kind \o " " \o ToString(line) \o " " \o why)

\* Acceptance: every line was consumed (TraceNext is total, so this only fails on a spec error).
TraceConsumed == TLCGet("stats").diameter - 1 = Len(Trace)
=============================================================================
