---------------------------- MODULE TraceCommon ----------------------------
(* Shared plumbing of all Trace_* modules: the recorded trace (ndjson, one  *)
(* event per line; file named by the environment variable VTRACE), the      *)
(* payload abstraction of DESIGN.md 3.2 (pattern runs / literals / garbage) *)
(* and mismatch reporting.                                                   *)
EXTENDS Bytes, TLC, Json, IOUtils

Trace == ndJsonDeserialize(IOEnv.VTRACE)

Report(kind, line) == PrintT(kind \o " " \o ToString(line))
ReportWhy(kind, line, why) == PrintT(kind \o " " \o ToString(line) \o " " \o why)

\* Acceptance: every line was consumed (TraceNext is total, so this only fails on a spec error).
TraceConsumed == TLCGet("stats").diameter - 1 = Len(Trace)
=============================================================================
