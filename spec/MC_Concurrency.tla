---------------------------- MODULE MC_Concurrency ----------------------------
EXTENDS Concurrency
CONSTANTS MaxSteps, G, Objs
VARIABLES steps
mcvars == <<cvars, steps>>
MCInit == CInit /\ steps = 0
MCNext ==
  /\ steps < MaxSteps /\ steps' = steps + 1
  /\ \E g \in G :
       \/ \E o \in Objs : Acquire(g, o)
       \/ \E o \in Objs : Release(g, o)
       \/ \E n \in {1, 2, SpanSize} : SpanTryLock(g, n)
       \/ SpanBump(g)
       \/ SpanSliceUnlock(g)
MCSpec == MCInit /\ [][MCNext]_mcvars
Inv == ExclusiveOwnership /\ HolderConsistent /\ ResetOnRecycle /\ NoForeignRef /\ SpanRegionsDisjoint /\ LockExclusive /\ MapNeverWritten
=============================================================================
