SPECIFICATION MCSpec
CONSTANTS
  Bufs = {1, 2, 3}
  Kind = "bytesreader"
  MaxSteps = 9
  Protocol = "park"
INVARIANT Inv
CHECK_DEADLOCK FALSE
