---------------------------- MODULE MC_Exceptions ----------------------------
(* The full case table of the exception helpers over all kinds x type ids      *)
(* {0, 1, 6, 10, 11, -1, 2^31-1, -2^31} x messages {"", "m"} x prefixes        *)
(* {"", "p: "} x cause chains of depth <= 2, checked against the property text *)
(* (C18): kind and type id preserved by Prepend, text = prefix + text, Wrap    *)
(* keeps the cause reachable and is the identity on protocol exceptions, Is    *)
(* matches by (type id, text) or through the cause.                            *)
EXTENDS Exceptions, FiniteSets
VARIABLE x
Init == x = 0
Next == UNCHANGED x
Spec == Init /\ [][Next]_x

Tids == {0, 1, 6, 10, 11, -1, 2147483647, -2147483647 - 1}
Msgs == {"", "m"}
Base == {[uid |-> 100 + i, kind |-> "plain", tid |-> 0, msg |-> "", text |-> m, cause |-> NoErr] : i \in {1}, m \in {"", "boom"}}
        \cup {[uid |-> 150, kind |-> "uncmp", tid |-> 0, msg |-> "", text |-> "list of errors", cause |-> NoErr]}
        \cup {[uid |-> 200, kind |-> "foreign", tid |-> t, msg |-> "", text |-> "f", cause |-> NoErr] : t \in Tids}
        \cup {[uid |-> 300, kind |-> k, tid |-> t, msg |-> m, text |-> "", cause |-> NoErr] : k \in {"application", "transport", "protocol"}, t \in Tids, m \in Msgs}
Wrapped1 == {[Wrap(e) EXCEPT !.uid = 400] : e \in Base}
Wrapped2 == {[uid |-> 500, kind |-> "protocol", tid |-> 1, msg |-> "outer", text |-> "", cause |-> e] : e \in Wrapped1}
\* standard-library wrappers around plain errors, exceptions of every kind and wrapped protocol exceptions
FmtWrapped == {[uid |-> 600, kind |-> "fmtwrap", tid |-> 0, msg |-> "", text |-> "ctx: " \o ErrorText(e), cause |-> e] : e \in Base \cup Wrapped1}
All == Base \cup Wrapped1 \cup Wrapped2 \cup FmtWrapped

PrependPreserves ==
  \A e \in All, p \in {"", "p: "} :
    LET r == Prepend(p, e) IN
    /\ ErrorText(r) = p \o ErrorText(e)                                            \* text = prefix + original text
    /\ (IsExc(e) => (r.kind = e.kind /\ r.tid = e.tid))                             \* kind and type id preserved
    /\ (e.kind = "foreign" => (r.kind = "application" /\ r.tid = e.tid))
    /\ (e.kind \in {"plain", "fmtwrap", "uncmp"} => r.kind = "plain")
WrapKeepsCause ==
  \A e \in All :
    LET w == [Wrap(e) EXCEPT !.uid = IF e.kind = "protocol" THEN e.uid ELSE 999] IN
    /\ ErrorsIs(w, e) = Comparable(e)                   \* the cause stays reachable (by identity, where the type has one)
    /\ (e.kind = "protocol" => w = e)                   \* identity on protocol exceptions
    /\ (e.kind # "protocol" => (Unwrap(w) = e /\ w.tid = 0 /\ w.msg = ErrorText(e)))
    \* a protocol exception buried in a wrapper is NOT returned as such: the wrapper is the cause, and its chain stays reachable
    /\ (e.kind = "fmtwrap" => (w.kind = "protocol" /\ w # e.cause /\ (ErrorsIs(w, e.cause) = Comparable(e.cause))))
IsRule ==
  \A a \in All, b \in All :
    a.kind = "protocol" =>
      (ErrorsIs(a, b) <=> (\/ Same(a, b)
                           \/ (HasTypeId(b) /\ b.tid = a.tid /\ ErrorText(b) = a.msg)
                           \/ (IsErr(a.cause) /\ ErrorsIs(a.cause, b))))
NonProtocolIsIdentity == \A a \in All, b \in All : a.kind \notin {"protocol", "fmtwrap"} => (ErrorsIs(a, b) <=> Same(a, b))
\* a value of an uncomparable type is never identified, not even with itself; it is still rendered, prefixed and wrapped
UncmpNeverSame == \A a \in All, b \in All : (a.kind = "uncmp" \/ b.kind = "uncmp") => ~Same(a, b)
FmtWrapIsChain == \A a \in All, b \in All : a.kind = "fmtwrap" => (ErrorsIs(a, b) <=> (Same(a, b) \/ ErrorsIs(a.cause, b)))
Inv == PrependPreserves /\ WrapKeepsCause /\ IsRule /\ NonProtocolIsIdentity /\ FmtWrapIsChain /\ UncmpNeverSame /\ Cardinality(All) > 200
=============================================================================
