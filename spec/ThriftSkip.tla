----------------------------- MODULE ThriftSkip -----------------------------
(***************************************************************************)
(* The Thrift Binary grammar as a recursive-descent reference skipper,     *)
(* independent of the three hand-written skip code bases                   *)
(* (thrift.Binary.Skip, BufferReader.skipType, SkipDecoderTpl).            *)
(*                                                                         *)
(*   Skip(in, i, t, depth, strict) = [n |-> bytes consumed, e |-> cause]   *)
(*   cause: "" (a complete well-formed value of type t starts at i),       *)
(*          "short" (input ends inside the value), "neg" (a declared size  *)
(*          has its top bit set), "type" (an unknown type tag has to be    *)
(*          parsed), "depth" (recursion limit).                            *)
(*                                                                         *)
(* Depth accounting is a parameter: strict = every value is charged        *)
(* against the limit (the generic template), lenient = only values that    *)
(* need a recursive call (containers, structs, unknown tags) are charged   *)
(* (the two hand-unrolled skippers).  They coincide for nesting <= 63 and  *)
(* both reject from 65: the set {strict, lenient} is the admissible        *)
(* outcome set of property C08.                                            *)
(***************************************************************************)
EXTENDS Bytes, TLC

T_STOP == 0   T_BOOL == 2   T_BYTE == 3   T_DOUBLE == 4   T_I16 == 6   T_I32 == 8
T_I64 == 10   T_STRING == 11  T_STRUCT == 12  T_MAP == 13  T_SET == 14  T_LIST == 15
KnownTypes == {2, 3, 4, 6, 8, 10, 11, 12, 13, 14, 15}
DefaultDepth == 64

FixedSize(t) == CASE t = 2 -> 1 [] t = 3 -> 1 [] t = 4 -> 8 [] t = 6 -> 2
                  [] t = 8 -> 4 [] t = 10 -> 8 [] OTHER -> 0

OK(n) == [n |-> n, e |-> ""]
Err(x) == [n |-> 0, e |-> x]

SkipStr(in, i) ==
  IF Rem(in, i) < 4 THEN Err("short")
  ELSE LET n == Size4(in, i) IN
       IF n < 0 THEN Err("neg")
       ELSE IF n <= Rem(in, i) - 4 THEN OK(4 + n) ELSE Err("short")

RECURSIVE Skip(_, _, _, _, _), SkipElems(_, _, _, _, _, _), SkipPairs(_, _, _, _, _, _, _), SkipFields(_, _, _, _)

\* a nested value (container element, map key/value, struct field) of type t met with `depth` levels left
Nested(in, i, t, depth, strict) ==
  IF ~strict /\ (FixedSize(t) > 0 \/ t = T_STRING)
  THEN Skip(in, i, t, 1, strict)             \* lenient: scalars and strings are never charged
  ELSE Skip(in, i, t, depth, strict)

Skip(in, i, t, depth, strict) ==
  IF depth = 0 THEN Err("depth")
  ELSE IF FixedSize(t) > 0 THEN (IF Rem(in, i) >= FixedSize(t) THEN OK(FixedSize(t)) ELSE Err("short"))
  ELSE IF t = T_STRING THEN SkipStr(in, i)
  ELSE IF t \in {T_SET, T_LIST} THEN
       IF Rem(in, i) < 5 THEN Err("short")
       ELSE LET et == I8(At(in, i))   n == Size4(in, i + 1) IN
            IF n < 0 THEN Err("neg")
            ELSE IF FixedSize(et) > 0                                   \* fast path: n * size, written division-side (32-bit safe)
                 THEN (IF n <= (Rem(in, i) - 5) \div FixedSize(et) THEN OK(5 + n * FixedSize(et)) ELSE Err("short"))
                 ELSE LET r == SkipElems(in, i + 5, et, n, depth - 1, strict) IN
                      IF r.e = "" THEN OK(5 + r.n) ELSE r
  ELSE IF t = T_MAP THEN
       IF Rem(in, i) < 6 THEN Err("short")
       ELSE LET kt == I8(At(in, i))   vt == I8(At(in, i + 1))   n == Size4(in, i + 2) IN
            IF n < 0 THEN Err("neg")
            ELSE IF FixedSize(kt) > 0 /\ FixedSize(vt) > 0
                 THEN (IF n <= (Rem(in, i) - 6) \div (FixedSize(kt) + FixedSize(vt))
                       THEN OK(6 + n * (FixedSize(kt) + FixedSize(vt))) ELSE Err("short"))
                 ELSE LET r == SkipPairs(in, i + 6, kt, vt, n, depth - 1, strict) IN
                      IF r.e = "" THEN OK(6 + r.n) ELSE r
  ELSE IF t = T_STRUCT THEN SkipFields(in, i, depth - 1, strict)
  ELSE Err("type")

\* m values of type et.  m may be huge (declared counts up to 2^31-1): every value takes at least one
\* byte, so the recursion ends after at most Rem(in, i) steps.
SkipElems(in, i, et, m, depth, strict) ==
  IF m = 0 THEN OK(0)
  ELSE LET r == Nested(in, i, et, depth, strict) IN
       IF r.e # "" THEN r
       ELSE LET rest == SkipElems(in, i + r.n, et, m - 1, depth, strict) IN
            IF rest.e # "" THEN rest ELSE OK(r.n + rest.n)

\* m (key, value) pairs
SkipPairs(in, i, kt, vt, m, depth, strict) ==
  IF m = 0 THEN OK(0)
  ELSE LET k == Nested(in, i, kt, depth, strict) IN
       IF k.e # "" THEN k
       ELSE LET v == Nested(in, i + k.n, vt, depth, strict) IN
            IF v.e # "" THEN v
            ELSE LET rest == SkipPairs(in, i + k.n + v.n, kt, vt, m - 1, depth, strict) IN
                 IF rest.e # "" THEN rest ELSE OK(k.n + v.n + rest.n)

\* (type, id, value)* STOP
SkipFields(in, i, depth, strict) ==
  IF Rem(in, i) < 1 THEN Err("short")
  ELSE LET ft == I8(At(in, i)) IN
       IF ft = T_STOP THEN OK(1)
       ELSE IF Rem(in, i) < 3 THEN Err("short")
       ELSE LET r == Nested(in, i + 3, ft, depth, strict) IN
            IF r.e # "" THEN r
            ELSE LET rest == SkipFields(in, i + 3 + r.n, depth, strict) IN
                 IF rest.e # "" THEN rest ELSE OK(3 + r.n + rest.n)

SkipStrict(in, t)  == Skip(in, 1, t, DefaultDepth, TRUE)
SkipLenient(in, t) == Skip(in, 1, t, DefaultDepth, FALSE)

\* The admissible outcomes of a skipper on input `in` and requested type t (property C08):
\*   success with n  iff one of the two accountings accepts with that n;
\*   failure         iff one of the two accountings rejects.
AcceptsWith(in, t, n) == \/ (SkipStrict(in, t).e = "" /\ SkipStrict(in, t).n = n)
                         \/ (SkipLenient(in, t).e = "" /\ SkipLenient(in, t).n = n)
MayReject(in, t) == SkipStrict(in, t).e # "" \/ SkipLenient(in, t).e # ""
Causes(in, t) == {SkipStrict(in, t).e, SkipLenient(in, t).e} \ {""}

\* Thrift protocol-exception type id for a cause (property C17)
TypeIdOf(cause) == CASE cause = "short" -> 1 [] cause = "type" -> 1 [] cause = "neg" -> 2
                     [] cause = "depth" -> 6 [] cause = "badversion" -> 4 [] OTHER -> -1
=============================================================================
