SPECIFICATION MCSpec
CONSTANTS
  CapRule = "backing"
  MaxSteps = 4
  SpanSize = 8
INVARIANT Inv
CHECK_DEADLOCK FALSE
