--------------------------- MODULE MC_UnknownFields ---------------------------
(* Both round trips of property C13 over all well-typed trees within small    *)
(* bounds: every type at the top level and as element / key / value type of   *)
(* one container level, a reduced alphabet below; 0..2 elements / fields.     *)
EXTENDS UnknownFields, FiniteSets
VARIABLE x
Init == x = 0
Next == UNCHANGED x
Spec == Init /\ [][Next]_x

ScalarTypes == {2, 3, 4, 6, 8, 10, 11}
AllT == ScalarTypes \cup {12, 13, 14, 15}
InnerT == {2, 11, 12, 15}                \* reduced alphabet below the first container level

\* values (as [kt, vt, v]) of type t with d container levels left
RECURSIVE Vals(_, _)
SeqsUpTo(S, n) == UNION {[1 .. k -> S] : k \in 0 .. n}
WithIds(vs, t) == [k \in DOMAIN vs |-> Fld(k - 1, t, vs[k].kt, vs[k].vt, vs[k].v)]
Vals(t, d) ==
  CASE t = 2  -> {[kt |-> 0, vt |-> 0, v |-> [b |-> b]] : b \in BOOLEAN}
    [] t = 3  -> {[kt |-> 0, vt |-> 0, v |-> [i |-> -1]]}
    [] t = 6  -> {[kt |-> 0, vt |-> 0, v |-> [i |-> -2]]}
    [] t = 8  -> {[kt |-> 0, vt |-> 0, v |-> [i |-> 65536]]}
    [] t \in {4, 10} -> {[kt |-> 0, vt |-> 0, v |-> [lanes |-> <<1, 2, 3, 4, 5, 6, 7, 128>>]]}
    [] t = 11 -> {[kt |-> 0, vt |-> 0, v |-> [segs |-> s]] : s \in {<<>>, Lit(<<97>>)}}
    [] t \in {14, 15} ->
         IF d = 0 THEN {[kt |-> 0, vt |-> 8, v |-> [elems |-> <<>>]]}
         ELSE UNION {{[kt |-> 0, vt |-> et, v |-> [elems |-> WithIds(vs, et)]] : vs \in SeqsUpTo(Vals(et, d - 1), 2)}
                     : et \in (IF d >= 2 THEN AllT ELSE InnerT)}
    [] t = 13 ->
         IF d = 0 THEN {[kt |-> 8, vt |-> 8, v |-> [kv |-> <<>>]]}
         ELSE UNION {UNION {
                 {[kt |-> kt, vt |-> vt, v |-> [kv |-> <<>>]]} \cup
                 {[kt |-> kt, vt |-> vt, v |-> [kv |-> <<Fld(0, kt, a.kt, a.vt, a.v), Fld(0, vt, b.kt, b.vt, b.v)>>]]
                    : a \in Vals(kt, d - 1), b \in Vals(vt, d - 1)}
                 : vt \in (IF d >= 2 THEN AllT ELSE InnerT)} : kt \in (IF d >= 2 THEN {3, 11, 12} ELSE {11})}
    [] t = 12 ->
         IF d = 0 THEN {[kt |-> 0, vt |-> 0, v |-> [fields |-> <<>>]]}
         ELSE {[kt |-> 0, vt |-> 0, v |-> [fields |-> <<>>]]} \cup
              UNION {{[kt |-> 0, vt |-> 0, v |-> [fields |-> <<Fld(1, ft, a.kt, a.vt, a.v)>>]] : a \in Vals(ft, d - 1)}
                     : ft \in (IF d >= 2 THEN AllT ELSE InnerT)} \cup
              \* two fields after one another inside a struct: a container followed by a scalar
              {[kt |-> 0, vt |-> 0, v |-> [fields |-> <<Fld(1, 13, 8, 10, [kv |-> <<>>]), Fld(-2, 8, 0, 0, [i |-> 7])>>]],
               [kt |-> 0, vt |-> 0, v |-> [fields |-> <<Fld(5, 15, 0, 11, [elems |-> <<>>]), Fld(6, 2, 0, 0, [b |-> TRUE])>>]]}

TopTrees == UNION {{<<Fld(id, t, a.kt, a.vt, a.v)>> : a \in Vals(t, 2), id \in {1, -32768}} : t \in AllT}

\* tree -> bytes -> tree is the identity, and the computed length is the byte count
TreeRoundTrip == \A fs \in TopTrees :
                   LET bs == ToBytes(fs)  r == ToTree(MkIn(bs)) IN
                   r.ok /\ r.fs = fs /\ TreeLen(fs) = SegsLen(bs)
\* bytes -> tree -> bytes is the identity (inputs: the encodings of all trees, concatenated in pairs with a fixed second field)
BytesRoundTrip == \A fs \in TopTrees :
                   LET two == fs \o <<Fld(2, 8, 0, 0, [i |-> 1])>>
                       bs  == ToBytes(two)
                       r   == ToTree(MkIn(bs)) IN
                   r.ok /\ ToBytes(r.fs) = bs /\ Len(r.fs) = 2
\* tags are present only where meaningful
TagsMeaningful == \A fs \in TopTrees : LET f == fs[1] IN
                    /\ (f.t \notin {13, 14, 15}) => (f.kt = 0 /\ f.vt = 0)
                    /\ (f.t \in {14, 15}) => f.kt = 0
Inv == TreeRoundTrip /\ BytesRoundTrip /\ TagsMeaningful /\ Cardinality(TopTrees) > 1000
=============================================================================
