-------------------------- MODULE Trace_SkipMachine --------------------------
(* Binds the pushdown machine to the real SkipDecoderTpl: the harness plugs a   *)
(* recording back-end into the generic template and logs the size of every      *)
(* SkipN request; TLC replays the requests through SkipNStep.  A request the    *)
(* machine does not make (or a missing one) is MODEL-DRIFT; a final verdict     *)
(* that differs from the machine's is a MISMATCH.                               *)
EXTENDS SkipMachine, TraceCommon
VARIABLES l
tvars == <<smvars, l>>

\* replay the logged requests: [st, pos, status, k (requests consumed), drift]
RECURSIVE Replay(_, _, _, _, _)
Replay(st, p, in, calls, k) ==
  LET s == Settle(st) IN
  IF s.status # "run" THEN [status |-> s.status, k |-> k, drift |-> k <= Len(calls)]
  ELSE IF k > Len(calls) THEN [status |-> "pending", k |-> k, drift |-> TRUE]
  ELSE IF calls[k] # (IF s.req > in.len + 1 THEN in.len + 1 ELSE s.req)      \* (the recorder clamps sizes beyond the input)
       THEN [status |-> "pending", k |-> k, drift |-> TRUE]
  ELSE IF s.req > in.len - p THEN [status |-> "short", k |-> k + 1, drift |-> k + 1 <= Len(calls)]
  ELSE LET g == Granted(s.st, in, p + 1) IN
       IF g.status # "run" THEN [status |-> g.status, k |-> k + 1, drift |-> k + 1 <= Len(calls)]
       ELSE Replay(g.st, p + s.req, in, calls, k + 1)

\* a session of a ReaderSkipDecoder: after every value the hook state (n, len(b), cap(b)) must be what the buffer
\* model predicts from the machine's request sequence
RECURSIVE SessionOK(_, _, _, _, _, _)
SessionOK(in, ts, states, k, p0, buf) ==
  IF k > Len(ts) THEN TRUE
  ELSE LET rq == Reqs(in, ts[k], p0)
           b  == BufAfter(rq, 0, buf.blen, buf.bcap) IN
       /\ states[k][1] = b.n /\ states[k][2] = b.blen /\ states[k][3] = b.bcap
       /\ SessionOK(in, ts, states, k + 1, p0 + b.n, b)

TraceInit == l = 1 /\ stack = <<>> /\ pos = 0 /\ status = "ok" /\ nreq = 0
TraceNext ==
  /\ l <= Len(Trace) /\ l' = l + 1 /\ UNCHANGED smvars
  /\ LET ev == Trace[l] IN
     ev.k = "tpl" =>
       LET r == Replay(<<Val(ev.t, DefaultDepth)>>, 0, MkIn(ev.in), ev.calls, 1) IN
       /\ r.drift => ReportWhy("DRIFT", l, "request " \o ToString(r.k))
       /\ (~r.drift /\ (ev.ok # (r.status = "ok"))) => ReportWhy("MISMATCH", l, "tpl verdict")
  /\ LET ev == Trace[l] IN
     (ev.k = "rdec" /\ ~SessionOK(MkIn(ev.in), ev.ts, ev.states, 1, 0, [blen |-> ev.init[1], bcap |-> ev.init[2]]))
        => ReportWhy("DRIFT", l, "readerdec buffer")
TraceSpec == TraceInit /\ [][TraceNext]_tvars
=============================================================================
