------------------------------- MODULE StrMap -------------------------------
(***************************************************************************)
(* The read-only string map (container/strmap): StrMap[V] and Str2Str.     *)
(*                                                                         *)
(*  MapAbs  : a function from keys to values (a Go map).                   *)
(*  MapImpl : items = <<[key, slot, v]>> sorted by slot, ht = for every    *)
(*            slot the index of the first item with that slot (or -1),     *)
(*            nslots = the prime chosen for the item count.  The hash is   *)
(*            an ARBITRARY function chosen at load time (maphash with a    *)
(*            random seed): TLC enumerates every assignment of keys and    *)
(*            probes to slots, i.e. every collision-chain shape.           *)
(*  Get scans the chain starting at ht[slot] while the slot matches.       *)
(***************************************************************************)
EXTENDS Integers, Sequences, FiniteSets, TLC

VARIABLES abs,      \* MapAbs: the set of <<key, value>> pairs of a Go map (keys distinct)
          items,    \* MapImpl
          ht,
          loaded    \* FALSE until the first successful load (hashtable empty)

mvars == <<abs, items, ht, loaded>>

\* the prime table of utils.go, indexed by bit length of n / 0.75
Primes == <<1, 7, 7, 17, 17, 31, 61, 127, 251, 509, 1021, 2039, 4093, 8191, 16381, 32749, 65521, 131071,
            262139, 524287, 1048573>>
RECURSIVE BitLen(_)
BitLen(x) == IF x = 0 THEN 0 ELSE 1 + BitLen(x \div 2)
\* calcHashtableSlots(n): bits.Len64(uint64(float64(n) / 0.75)); floor(n / 0.75) = (4 n) div 3
Slots(n) == Primes[BitLen((4 * n) \div 3) + 1]

MInit == abs = {} /\ items = <<>> /\ ht = <<>> /\ loaded = FALSE
AbsKeys(m) == {p[1] : p \in m}

\* the first-index table for a slot-sorted item sequence
FirstIdx(its, nslots) ==
  [s \in 0 .. nslots - 1 |->
     LET hits == {i \in 1 .. Len(its) : its[i].slot = s} IN
     IF hits = {} THEN -1 ELSE (CHOOSE i \in hits : \A j \in hits : i <= j) - 1]   \* 0-based like the code

SortedBySlot(its) == \A i \in 1 .. Len(its) - 1 : its[i].slot <= its[i + 1].slot

\* table = FirstIdx(its, ns), stated pointwise (linear in items + slots; used on recorded tables)
IsFirstIdx(table, its, ns) ==
  /\ DOMAIN table = 0 .. ns - 1
  /\ \A i \in 1 .. Len(its) :
        /\ table[its[i].slot] >= 0 /\ table[its[i].slot] <= i - 1
        /\ (i = 1 \/ its[i - 1].slot # its[i].slot) => table[its[i].slot] = i - 1
  /\ \A sl \in 0 .. ns - 1 : table[sl] >= 0 => (table[sl] < Len(its) /\ its[table[sl] + 1].slot = sl)
  /\ \A sl \in 0 .. ns - 1 : table[sl] >= -1

\* Load(pairs, h, order): pairs = sequence of <<key, value>> with distinct keys, h = hash of each key modulo the
\* slot count, order = the permutation sort.Sort (not stable) left the items in
Load(pairs, its, table) ==
  /\ LET n == Len(pairs)  ns == Slots(n) IN
     /\ Len(its) = n
     /\ {<<its[i].key, its[i].v>> : i \in 1 .. n} = {pairs[i] : i \in 1 .. n}
     /\ Cardinality({its[i].key : i \in 1 .. n}) = n
     /\ \A i \in 1 .. n : its[i].slot \in 0 .. ns - 1
     /\ SortedBySlot(its)
     /\ items' = its
     /\ IsFirstIdx(table, its, ns)
     /\ ht' = table
     /\ abs' = {pairs[i] : i \in 1 .. n}
     /\ loaded' = TRUE

\* a load with mismatched slice lengths fails and changes nothing
FailedLoad == UNCHANGED mvars

NoVal == "absent"     \* placeholder value of a miss (values are opaque to the model)
\* Get(probe) given the slot the probe hashes to: [ok, v].  The scan starts at the first item of the slot
\* and stops at the first item of another slot or at the end of the items.
RECURSIVE Scan(_, _, _, _)
Scan(its, j, slot, probe) ==
  IF j > Len(its) \/ its[j].slot # slot THEN [ok |-> FALSE, v |-> NoVal]
  ELSE IF its[j].key = probe THEN [ok |-> TRUE, v |-> its[j].v]
  ELSE Scan(its, j + 1, slot, probe)
ImplGet(its, table, isloaded, probe, slot) ==
  IF ~isloaded THEN [ok |-> FALSE, v |-> NoVal]                      \* never loaded: absent, not a failure
  ELSE LET i == table[slot] IN
       IF i < 0 THEN [ok |-> FALSE, v |-> NoVal] ELSE Scan(its, i + 1, slot, probe)

AbsGet(m, probe) == IF \E p \in m : p[1] = probe THEN [ok |-> TRUE, v |-> (CHOOSE p \in m : p[1] = probe)[2]]
                    ELSE [ok |-> FALSE, v |-> NoVal]

\* Invariants of the table
TableOK ==
  loaded =>
    /\ SortedBySlot(items)
    /\ ht = FirstIdx(items, Slots(Len(items)))
    /\ IsFirstIdx(ht, items, Slots(Len(items)))
    /\ {<<items[i].key, items[i].v>> : i \in 1 .. Len(items)} = abs
    /\ Cardinality(AbsKeys(abs)) = Len(items)
LenOK == Len(items) = Cardinality(abs)
=============================================================================
