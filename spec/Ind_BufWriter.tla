---------------------------- MODULE Ind_BufWriter ----------------------------
(***************************************************************************)
(* The integer core of bufiox.DefaultWriter / BytesWriter (property C05)   *)
(* for regions, buffers and histories of ANY size and length.              *)
(*                                                                         *)
(* BufWriter.tla keeps the list of parked buffers and the place of every   *)
(* pending region, and TLC explores it for a few sizes and four            *)
(* operations.  Here the lists are replaced by what the stitching argument *)
(* needs:                                                                  *)
(*   - the stitch window of the CURRENT buffer starts at winLo (its length  *)
(*     when the previous buffer was parked; 0 if none was);                 *)
(*   - ONE pending region, chosen arbitrarily when it is handed out, is     *)
(*     tracked: its offset, its length, and the window [tLo, tHi) of the   *)
(*     buffer it was written to once that buffer is parked.  Whatever holds*)
(*     for the tracked region holds for every region.                      *)
(* Growth is any capacity that fits (cap' >= len + n).  Apalache proves the *)
(* invariants inductive for all integers: the region stays inside the      *)
(* window of its own buffer (so the delayed, stitched copy at Flush is      *)
(* correct), offsets are the running sum (regions are laid out back to     *)
(* back, in order, after the initial contents), WrittenLen is what is      *)
(* pending, errors are sticky.  MC_BufWriter checks with TLC that every    *)
(* step of the detailed model is a step of this core for EACH choice of    *)
(* the tracked region (RefinesCore).                                       *)
(***************************************************************************)
EXTENDS Integers

CONSTANTS
  \* @type: Int;
  DefaultBufSize,
  \* @type: Bool;
  ParkKeepsWindow     \* TRUE = the code; FALSE = negative control (growth forgets where the parked buffer ended)

VARIABLES
  \* @type: Int;
  len,
  \* @type: Int;
  cap,
  \* @type: Bool;
  isnil,
  \* @type: Bool;
  failed,
  \* @type: Bool;
  cache,
  \* @type: Int;
  winLo,
  \* @type: Int;
  npark,
  \* @type: Int;
  base,
  \* @type: Int;
  sumPend,
  \* @type: Int;
  nreg,
  \* @type: Bool;
  tk,
  \* @type: Int;
  tOff,
  \* @type: Int;
  tLen,
  \* @type: Int;
  tBefore,
  \* @type: Bool;
  tCur,
  \* @type: Int;
  tLo,
  \* @type: Int;
  tHi,
  \* @type: Str;
  rop,
  \* @type: Int;
  rn,
  \* @type: Str;
  re

wcvars == <<len, cap, isnil, failed, cache, winLo, npark, base, sumPend, nreg, tk, tOff, tLen, tBefore, tCur, tLo, tHi, rop, rn, re>>

\* nothing is tracked: the registers are zero (so that the state is a function of the detailed model's state)
Untrack == tk' = FALSE /\ tOff' = 0 /\ tLen' = 0 /\ tBefore' = 0 /\ tCur' = FALSE /\ tLo' = 0 /\ tHi' = 0

\* acquire(n) followed by placing a region of n bytes at the end of the current buffer
Place(n, track) ==
  /\ cap' \in Int
  /\ LET fits == len + n <= cap
         first == ~fits /\ cap = 0 /\ n <= cap'          \* first allocation: nothing to park
         park == ~fits /\ ~first                         \* grow: the current buffer is parked, uncopied
         start == track /\ ~tk                            \* this region becomes the tracked one
     IN
     /\ fits => cap' = cap
     /\ first => (cap' >= n /\ cap' >= 1)
     /\ park => (cap' >= n + len /\ cap' > cap)
     /\ isnil' = (IF fits THEN isnil ELSE FALSE)
     /\ npark' = (IF park THEN npark + 1 ELSE npark)
     /\ winLo' = (IF park THEN (IF ParkKeepsWindow THEN len ELSE 0) ELSE winLo)
     /\ len' = len + n
     /\ sumPend' = sumPend + n /\ nreg' = nreg + 1
     /\ tk' = (tk \/ start)
     /\ tOff' = (IF start THEN len ELSE tOff)
     /\ tLen' = (IF start THEN n ELSE tLen)
     /\ tBefore' = (IF start THEN sumPend ELSE tBefore)
     \* a region handed out now lives in the (possibly new) current buffer; a tracked region of the old current
     \* buffer gets that buffer's window when it is parked
     /\ tCur' = (IF start THEN TRUE ELSE IF park THEN FALSE ELSE tCur)
     /\ tLo' = (IF ~start /\ park /\ tk /\ tCur THEN winLo ELSE tLo)
     /\ tHi' = (IF ~start /\ park /\ tk /\ tCur THEN len ELSE tHi)
  /\ UNCHANGED <<failed, cache, base>>

Malloc ==
  /\ rop' = "malloc" /\ rn' \in Int
  /\ IF failed THEN re' = "SINK" /\ UNCHANGED <<len, cap, isnil, failed, cache, winLo, npark, base, sumPend, nreg, tk, tOff, tLen, tBefore, tCur, tLo, tHi>>
     ELSE IF rn' < 0 THEN re' = "NEG" /\ UNCHANGED <<len, cap, isnil, failed, cache, winLo, npark, base, sumPend, nreg, tk, tOff, tLen, tBefore, tCur, tLo, tHi>>
     ELSE re' = "nil" /\ \E track \in BOOLEAN : Place(rn', track)

WriteBinary ==
  /\ rop' = "writebinary" /\ rn' \in Int /\ rn' >= 0
  /\ IF failed THEN re' = "SINK" /\ UNCHANGED <<len, cap, isnil, failed, cache, winLo, npark, base, sumPend, nreg, tk, tOff, tLen, tBefore, tCur, tLo, tHi>>
     ELSE re' = "nil" /\ \E track \in BOOLEAN : Place(rn', track)

Flush ==
  /\ rop' = "flush" /\ rn' = 0
  /\ IF failed
     THEN re' = "SINK" /\ UNCHANGED <<len, cap, isnil, failed, cache, winLo, npark, base, sumPend, nreg, tk, tOff, tLen, tBefore, tCur, tLo, tHi>>
     ELSE IF isnil
     THEN \* nothing but zero-length regions can be pending
          /\ re' = "nil" /\ sumPend' = 0 /\ nreg' = 0 /\ Untrack
          /\ UNCHANGED <<len, cap, isnil, failed, cache, winLo, npark, base>>
     ELSE \/ /\ re' = "nil"                                  \* the sink accepts the stitched image
             /\ len' = 0 /\ cap' = 0 /\ isnil' = TRUE /\ winLo' = 0 /\ npark' = 0 /\ base' = 0
             /\ sumPend' = 0 /\ nreg' = 0 /\ Untrack
             /\ UNCHANGED <<failed, cache>>
          \/ /\ cache /\ re' = "SINK" /\ failed' = TRUE     \* only a real sink can fail
             /\ UNCHANGED <<len, cap, isnil, cache, winLo, npark, base, sumPend, nreg, tk, tOff, tLen, tBefore, tCur, tLo, tHi>>

Next == Malloc \/ WriteBinary \/ Flush

Init ==
  /\ failed = FALSE /\ winLo = 0 /\ npark = 0 /\ sumPend = 0 /\ nreg = 0 /\ tk = FALSE
  /\ tOff = 0 /\ tLen = 0 /\ tBefore = 0 /\ tCur = FALSE /\ tLo = 0 /\ tHi = 0
  /\ rop = "none" /\ rn = 0 /\ re = "nil"
  /\ \/ cache = TRUE /\ len = 0 /\ cap = 0 /\ isnil = TRUE /\ base = 0
     \/ /\ cache = FALSE /\ len \in Int /\ cap \in Int /\ 0 <= len /\ len <= cap /\ base = len
        /\ isnil \in BOOLEAN /\ (isnil => cap = 0)

-----------------------------------------------------------------------------
TypeOK ==
  /\ 0 <= winLo /\ winLo <= len /\ len <= cap /\ npark >= 0 /\ base >= 0 /\ sumPend >= 0 /\ nreg >= 0
  /\ (isnil => (cap = 0 /\ npark = 0))
  /\ (npark = 0) => (winLo = 0)
  /\ rop \in {"none", "malloc", "writebinary", "flush"} /\ re \in {"nil", "SINK", "NEG"}
\* WrittenLen = initial contents (before the first successful Flush) + what is pending
WrittenLenIsPending == ~failed => len = base + sumPend
\* the tracked region lies inside the stitch window of the buffer it was written to ...
RegionInOwnWindow ==
  tk => /\ tLen >= 0 /\ nreg >= 1
        /\ IF tCur THEN winLo <= tOff /\ tOff + tLen <= len
           ELSE tLo <= tOff /\ tOff + tLen <= tHi /\ tHi <= winLo /\ npark >= 1
\* ... at the running-sum offset: regions are laid out back to back, in order, after the initial contents
RegionAtRunningSum == tk => (tOff = base + tBefore /\ tBefore + tLen <= sumPend /\ tBefore >= 0)
StickyError == failed => (rop = "none" \/ re = "SINK")
Strengthening ==
  /\ DefaultBufSize >= 1
  /\ (~cache => ~failed)                          \* a bytes target cannot fail
  /\ (~tk => (tOff = 0 /\ tLen = 0 /\ tBefore = 0 /\ ~tCur /\ tLo = 0 /\ tHi = 0))
  /\ ((tk /\ tCur) => (tLo = 0 /\ tHi = 0))
  /\ base <= len \/ failed
Inv == WrittenLenIsPending /\ RegionInOwnWindow /\ RegionAtRunningSum /\ StickyError
IndInv == TypeOK /\ Strengthening /\ Inv

ConstInit == DefaultBufSize \in Nat /\ DefaultBufSize >= 1 /\ ParkKeepsWindow = TRUE
ConstInitNeg == DefaultBufSize = 4096 /\ ParkKeepsWindow = FALSE

IndInit ==
  /\ len \in Int /\ cap \in Int /\ winLo \in Int /\ npark \in Int /\ base \in Int /\ sumPend \in Int /\ nreg \in Int
  /\ tOff \in Int /\ tLen \in Int /\ tBefore \in Int /\ tLo \in Int /\ tHi \in Int /\ rn \in Int
  /\ isnil \in BOOLEAN /\ failed \in BOOLEAN /\ cache \in BOOLEAN /\ tk \in BOOLEAN /\ tCur \in BOOLEAN
  /\ rop \in {"none", "malloc", "writebinary", "flush"} /\ re \in {"nil", "SINK", "NEG"}
  /\ IndInv

ProbeNeverParked == ~(tk /\ ~tCur)
ProbeNeverFailed == ~failed
ProbeNeverTwoParks == npark < 2
=============================================================================
