----------------------------- MODULE SkipMachine -----------------------------
(***************************************************************************)
(* The streaming skipper (SkipDecoderTpl) as an explicit pushdown machine. *)
(*                                                                         *)
(* The template never sees the input: it only issues SkipN(n) requests to  *)
(* a back-end (buffered reader / byte slice / io.Reader) and inspects the  *)
(* n bytes it gets back.  The machine state is a stack of obligations and  *)
(* the stream position; one step = one SkipN request.  Silent bookkeeping  *)
(* (popping finished containers, charging the depth budget) is folded into *)
(* Settle.                                                                 *)
(*                                                                         *)
(* MC_SkipMachine: the machine agrees with the recursive-descent reference *)
(* (ThriftSkip, strict accounting) on verdict, cause and extent for every  *)
(* input of the bounded space, and its stack stays within 3 frames per     *)
(* nesting level.  Trace_SkipMachine: the SkipN requests issued by the     *)
(* real template are exactly the machine's requests.                       *)
(***************************************************************************)
EXTENDS ThriftSkip

VARIABLES stack,   \* sequence of frames, top first
          pos,     \* bytes consumed so far (= sum of the SkipN sizes granted)
          status,  \* "run" | "ok" | "short" | "neg" | "type" | "depth"
          nreq     \* number of SkipN requests issued

smvars == <<stack, pos, status, nreq>>

Val(t, d) == [k |-> "val", t |-> t, d |-> d, n |-> 0, kt |-> 0, vt |-> 0]
Fr(k, t, d, n, kt, vt) == [k |-> k, t |-> t, d |-> d, n |-> n, kt |-> kt, vt |-> vt]

\* fold silent steps: [st, status, req]
RECURSIVE Settle(_)
Settle(st) ==
  IF st = <<>> THEN [st |-> st, status |-> "ok", req |-> 0]
  ELSE LET f == Head(st)  rest == Tail(st) IN
       CASE f.k = "val" ->
              IF f.d = 0 THEN [st |-> st, status |-> "depth", req |-> 0]
              ELSE IF FixedSize(f.t) > 0 THEN [st |-> st, status |-> "run", req |-> FixedSize(f.t)]
              ELSE IF f.t = T_STRING THEN [st |-> st, status |-> "run", req |-> 4]
              ELSE IF f.t = T_STRUCT THEN Settle(<<Fr("fields", 0, f.d, 0, 0, 0)>> \o rest)
              ELSE IF f.t = T_MAP THEN [st |-> st, status |-> "run", req |-> 6]
              ELSE IF f.t \in {T_SET, T_LIST} THEN [st |-> st, status |-> "run", req |-> 5]
              ELSE [st |-> st, status |-> "type", req |-> 0]
         [] f.k \in {"strbody", "bulk"} -> [st |-> st, status |-> "run", req |-> f.n]
         [] f.k = "fields"  -> [st |-> st, status |-> "run", req |-> 1]
         [] f.k = "fieldid" -> [st |-> st, status |-> "run", req |-> 2]
         [] f.k = "elems" -> IF f.n = 0 THEN Settle(rest)
                             ELSE Settle(<<Val(f.t, f.d), [f EXCEPT !.n = f.n - 1]>> \o rest)
         [] f.k = "pairs" -> IF f.n = 0 THEN Settle(rest)
                             ELSE Settle(<<Val(f.kt, f.d), Val(f.vt, f.d), [f EXCEPT !.n = f.n - 1]>> \o rest)

\* the stack after the back-end granted the request of the top frame; the granted bytes start at p (1-based)
\* result: [st, status]  (status "run" = continue, or an error cause)
Granted(st, in, p) ==
  LET f == Head(st)  rest == Tail(st) IN
  CASE f.k = "val" ->
         IF FixedSize(f.t) > 0 THEN [st |-> rest, status |-> "run"]
         ELSE IF f.t = T_STRING THEN
              LET n == Size4(in, p) IN
              IF n < 0 THEN [st |-> st, status |-> "neg"]
              ELSE [st |-> <<Fr("strbody", 0, 0, n, 0, 0)>> \o rest, status |-> "run"]
         ELSE IF f.t = T_MAP THEN
              LET kt == I8(At(in, p))  vt == I8(At(in, p + 1))  n == Size4(in, p + 2) IN
              IF n < 0 THEN [st |-> st, status |-> "neg"]
              ELSE IF FixedSize(kt) > 0 /\ FixedSize(vt) > 0
                   THEN \* one bulk request of n * (ksz + vsz) bytes; counts beyond the input are short whatever their product
                        [st |-> <<Fr("bulk", 0, 0, IF n > in.len THEN in.len + 1 ELSE n * (FixedSize(kt) + FixedSize(vt)), 0, 0)>> \o rest, status |-> "run"]
                   ELSE [st |-> <<Fr("pairs", 0, f.d - 1, n, kt, vt)>> \o rest, status |-> "run"]
         ELSE \* set / list
              LET et == I8(At(in, p))  n == Size4(in, p + 1) IN
              IF n < 0 THEN [st |-> st, status |-> "neg"]
              ELSE IF FixedSize(et) > 0
                   THEN [st |-> <<Fr("bulk", 0, 0, IF n > in.len THEN in.len + 1 ELSE n * FixedSize(et), 0, 0)>> \o rest, status |-> "run"]
                   ELSE [st |-> <<Fr("elems", et, f.d - 1, n, 0, 0)>> \o rest, status |-> "run"]
    [] f.k \in {"strbody", "bulk"} -> [st |-> rest, status |-> "run"]
    [] f.k = "fields" ->
         LET t == I8(At(in, p)) IN
         IF t = T_STOP THEN [st |-> rest, status |-> "run"]
         ELSE [st |-> <<Fr("fieldid", t, f.d, 0, 0, 0)>> \o st, status |-> "run"]
    [] f.k = "fieldid" -> [st |-> <<Val(f.t, f.d - 1)>> \o rest, status |-> "run"]

MInitFor(t) ==
  LET s == Settle(<<Val(t, DefaultDepth)>>) IN
  /\ stack = s.st /\ status = s.status /\ pos = 0 /\ nreq = 0

\* one SkipN(n) request on input `in`: n must be what the machine asks for
SkipNStep(in, n) ==
  /\ status = "run"
  /\ LET s == Settle(stack) IN
     /\ s.status = "run" /\ s.req = n
     /\ nreq' = nreq + 1
     /\ IF n > in.len - pos
        THEN /\ status' = "short" /\ UNCHANGED <<stack, pos>>          \* the back-end cannot grant the request
        ELSE LET g == Granted(s.st, in, pos + 1) IN
             IF g.status # "run" THEN status' = g.status /\ stack' = g.st /\ pos' = pos + n
             ELSE LET s2 == Settle(g.st) IN
                  /\ stack' = s2.st /\ status' = s2.status /\ pos' = pos + n

\* run to completion (functional form for the equivalence check)
RECURSIVE RunFrom(_, _, _, _)
RunFrom(st, p, in, maxh) ==
  LET s == Settle(st) IN
  IF s.status # "run" THEN [status |-> s.status, pos |-> p, maxh |-> maxh]
  ELSE IF s.req > in.len - p THEN [status |-> "short", pos |-> p, maxh |-> maxh]   \* subtractive: 32-bit safe
  ELSE LET g == Granted(s.st, in, p + 1) IN
       IF g.status # "run" THEN [status |-> g.status, pos |-> p + s.req, maxh |-> maxh]
       ELSE RunFrom(g.st, p + s.req, in, IF Len(g.st) > maxh THEN Len(g.st) ELSE maxh)
Run(in, t) == RunFrom(<<Val(t, DefaultDepth)>>, 0, in, 1)

\* the sequence of request sizes of a successful run starting at stream offset p0 (0-based)
RECURSIVE ReqsFrom(_, _, _)
ReqsFrom(st, p, in) ==
  LET s == Settle(st) IN
  IF s.status # "run" \/ s.req > in.len - p THEN <<>>
  ELSE LET g == Granted(s.st, in, p + 1) IN
       IF g.status # "run" THEN <<s.req>> ELSE <<s.req>> \o ReqsFrom(g.st, p + s.req, in)
Reqs(in, t, p0) == ReqsFrom(<<Val(t, DefaultDepth)>>, p0, in)

\* ---- ReaderSkipDecoder's private buffer (implementation level) -------------------------------------------
\* The decoder appends every granted request to one buffer that persists across values and is grown
\* to exactly (bytes of the current value so far + request), with the pool's power-of-two capacity.
RECURSIVE SMP2(_, _)
SMP2(x, p) == IF p >= x THEN p ELSE SMP2(x, 2 * p)
RECURSIVE BufAfter(_, _, _, _)
\* fold the requests of one value: [blen, bcap] after it; pn = bytes of the value read so far
BufAfter(reqs, pn, blen, bcap) ==
  IF reqs = <<>> THEN [blen |-> blen, bcap |-> bcap, n |-> pn]
  ELSE LET r == Head(reqs) IN
       IF blen - pn >= r THEN BufAfter(Tail(reqs), pn + r, blen, bcap)
       ELSE BufAfter(Tail(reqs), pn + r, pn + r, SMP2(pn + r, 1))
=============================================================================
