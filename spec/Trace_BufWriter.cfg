SPECIFICATION TraceSpec
CONSTANTS
  DefaultBufSize = 4096
POSTCONDITION TraceConsumed
CHECK_DEADLOCK FALSE
