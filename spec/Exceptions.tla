----------------------------- MODULE Exceptions -----------------------------
(***************************************************************************)
(* The exception helpers of protocol/thrift/exception.go as an algebra.    *)
(*                                                                         *)
(* An error value is a record                                              *)
(*   [uid, kind, tid, msg, text, cause]                                    *)
(* kind  : "plain" | "foreign" (any other type exposing TypeId() and       *)
(*         Error()) | "application" | "transport" | "protocol" |           *)
(*         "fmtwrap" (a standard-library wrapper such as                   *)
(*         fmt.Errorf("ctx: %w", cause): no type id, own text, Unwrap) |   *)
(*         "uncmp" (a plain error whose dynamic type is not comparable,    *)
(*         e.g. a slice type such as go/scanner.ErrorList: errors.Is never *)
(*         identifies it by ==, and nothing may panic on it)               *)
(* tid   : type id (0 for plain)       msg : the stored message            *)
(* text  : what Error() returns for plain / foreign errors (for the three  *)
(*         exception kinds it is derived: ErrorText)                       *)
(* cause : the wrapped error of a protocol exception / fmtwrap, or NoErr   *)
(* uid   : identity (Go pointer equality); 0 = a fresh value               *)
(***************************************************************************)
EXTENDS Integers, Sequences, TLC

NoErr == [uid |-> -1, kind |-> "none"]
IsErr(e) == e.kind # "none"

DefaultMsg(t) ==
  CASE t = 0 -> "unknown application exception" [] t = 1 -> "unknown method" [] t = 2 -> "invalid message type"
    [] t = 3 -> "wrong method name" [] t = 4 -> "bad sequence ID" [] t = 5 -> "missing result"
    [] t = 6 -> "unknown internal error" [] t = 7 -> "unknown protocol error" [] t = 8 -> "Invalid transform"
    [] t = 9 -> "Invalid protocol" [] t = 10 -> "Unsupported client type"
    [] OTHER -> "unknown exception type [" \o ToString(t) \o "]"

IsExc(e) == e.kind \in {"application", "transport", "protocol"}
HasTypeId(e) == IsExc(e) \/ e.kind = "foreign"
\* Error()
ErrorText(e) == IF IsExc(e) THEN (IF e.msg # "" THEN e.msg ELSE DefaultMsg(e.tid)) ELSE e.text

Mk(kind, tid, msg) == [uid |-> 0, kind |-> kind, tid |-> tid, msg |-> msg, text |-> "", cause |-> NoErr]
Plain(text) == [uid |-> 0, kind |-> "plain", tid |-> 0, msg |-> "", text |-> text, cause |-> NoErr]

\* PrependError(prefix, err)
Prepend(prefix, e) ==
  CASE e.kind = "transport"   -> Mk("transport", e.tid, prefix \o ErrorText(e))
    [] e.kind = "protocol"    -> Mk("protocol", e.tid, prefix \o ErrorText(e))
    [] e.kind = "application" -> Mk("application", e.tid, prefix \o ErrorText(e))
    [] e.kind = "foreign"     -> Mk("application", e.tid, prefix \o ErrorText(e))
    [] OTHER                  -> Plain(prefix \o ErrorText(e))

\* NewProtocolExceptionWithErr(err): identity on protocol exceptions, otherwise wraps
Wrap(e) == IF e.kind = "protocol" THEN e
           ELSE [uid |-> 0, kind |-> "protocol", tid |-> 0, msg |-> ErrorText(e), text |-> "", cause |-> e]

\* Unwrap()
Unwrap(e) == IF e.kind \in {"protocol", "fmtwrap"} THEN e.cause ELSE NoErr

\* Go identity: same allocation -- as far as errors.Is can see it: values of uncomparable types are never compared
Comparable(e) == e.kind # "uncmp"
Same(a, b) == IsErr(a) /\ IsErr(b) /\ a.uid # 0 /\ a.uid = b.uid /\ Comparable(a) /\ Comparable(b)

\* errors.Is(x, target) following the standard library's chain walk with ProtocolException.Is
RECURSIVE ErrorsIs(_, _)
ErrorsIs(x, t) ==
  IF ~IsErr(x) THEN ~IsErr(t)
  ELSE \/ Same(x, t)
       \/ /\ x.kind = "protocol"
          /\ \/ (HasTypeId(t) /\ t.tid = x.tid /\ ErrorText(t) = x.msg)     \* ProtocolException.Is, first clause
             \/ (IsErr(x.cause) /\ ErrorsIs(x.cause, t))                    \* ... otherwise exactly when the cause matches
             \/ (~IsErr(x.cause) /\ ~IsErr(t))
       \/ (x.kind = "fmtwrap" /\ IsErr(t) /\ ErrorsIs(x.cause, t))              \* the standard chain walk through Unwrap

\* observable projection used for comparison with the real results
Obs(e) == [kind |-> e.kind, tid |-> IF HasTypeId(e) THEN e.tid ELSE 0, text |-> ErrorText(e)]
=============================================================================
