#!/usr/bin/env python3
"""Regenerates /verif/MANIFEST.json from the table below (single source of truth for the interface)."""
import json, os, subprocess

V = "/verif"
CHECKS = {
 "C04": dict(
   technique="TLA+ model (ReaderImpl/ReaderAbs) checked by TLC (bounded) and, through a TLC-checked refinement to its integer core, by Apalache (inductive invariant, all sizes) + TLC-generated behaviours replayed on the real readers + trace validation of real bufiox readers by TLC",
   text="TLC exhaustively checks that the implementation-shaped model of DefaultReader/BytesReader (real constants, every source fragmentation/fault within the cfg bounds) satisfies the C04 contract and refines the integer core Ind_BufReader, whose invariants and contract Apalache proves inductive for operands, streams, chunkings and capacities of any size; TLC prints the input history of every transition of the bounded model and the harness replays each maximal history on the real reader with a source scripted accordingly (Gen_BufReader); the same actions then validate ~10^5 recorded executions of the real readers (TLC-generated + bounded-exhaustive + random histories x source behaviours), event by event: ReaderAbs decides violations, ReaderImpl (ri/len/cap/pending/err after every call) binds the model to the code.",
   note="Trusted: TLC, the scripted source and pattern recogniser of the harness, the read-only hook bufiox.VerifState. Bounds: MC cfg constants (sizes incl. 4096/4097/9000, <=3 (quick) / 4 (thorough) operations, MaxEmpty scaled to 3 in MC, real 100 in traces); traces: histories up to 40 (quick) / 300 (thorough) operations.",
   design="6 C04, 4.1, App. C"),
 "C05": dict(
   technique="TLA+ model (WriterImpl/WriterAbs) checked by TLC (bounded) and, through a TLC-checked refinement to its integer core, by Apalache (inductive invariant, all sizes and history lengths) + trace validation of real bufiox writers by TLC",
   text="TLC exhaustively checks the stitching design of DefaultWriter/BytesWriter (delayed copy at Flush): stitch windows tile the final buffer, every handed-out region lies in its own window, regions are contiguous in order, sticky sink error, WrittenLen. The same actions validate recorded executions of the real writers (exhaustive histories <=3 ops + final Flush over boundary sizes, random histories, eager/lazy/re-filled regions with distinct content, sink failing at the k-th write, bytes targets nil/empty/partial/full): WriterAbs judges the bytes the sink received, WriterImpl binds len/cap/parked buffers.",
   note="Trusted: TLC, recording sink and per-region pattern recogniser of the harness, hook bufiox.VerifState. Bounds: MC <=4 (quick) / 5 (thorough) operations over sizes {0,1,4095,4096,4097,9000,20000}; traces up to 40/200 operations. A second flush cycle of a bytes writer is judged for errors/WrittenLen only.",
   design="6 C05, 4.2, App. C"),
 "C09": dict(
   technique="TLA+ ownership model (BufPool) checked by TLC (bounded), Apalache (inductive invariant) and TLAPS (proof for any number of buffers) + validation of pool-boundary traces of the real code over an instrumented pool double",
   text="TLC checks that the grow-and-park/release/flush buffer life-cycles of the reader, bytes reader, writer, bytes writer and ReaderSkipDecoder keep the ownership invariants (no live slice in a pooled or co-tenant buffer, caller memory never pooled, no pool use when caching is disabled) under every interleaving with an adversarial co-tenant. Recorded executions of the real code over the pool double (every Malloc/Free as an event, poison-on-free, foreign/double free detection, co-tenant draining and scribbling every class between operations, every handed-out slice retained and re-compared) must be enabled BufPool actions (rules P1..P5).",
   note="Trusted: TLC, the pool double's fidelity to mcache's contract, Go-side content comparison of retained slices and caller memory. A read-after-free that still sees the old bytes is visible only as an ownership-rule breach (free while live), not by content. Bounds: TLC 3 pool buffers, 9 steps; Apalache 4 buffers, any run length; TLAPS any set of buffers, any run (design level only); traces: 3000 (quick) / 36000 (thorough) random histories.",
   design="6 C09, App. C"),
 "C02": dict(
   technique="TLA+ reference grammar (ThriftSkip) checked by TLC + TLC-judged traces of the five skippers on generated typed value trees",
   text="TLC checks the reference grammar for self-delimitation over every byte string up to MaxLen over a grammar alphabet x 15 type tags; generated well-formed values of every type (all 11x11 map and 11 list/set combinations, counts 0/1/2/7, nesting 1..63, random trees, strings up to 72KB) with trailing bytes are fed to thrift.Binary.Skip (also flush against guard pages), BufferReader.Skip, SkipDecoder, BytesSkipDecoder and ReaderSkipDecoder under bytes-backed, fitting, 1-byte, zero-byte and data+EOF sources; TLC computes the extent with the reference and judges success, length, returned bytes and source position of every call.",
   note="Trusted: TLC, the generator's segment projection (verified byte-by-byte), the recording sources. Well-formedness is decided by the TLA+ reference, never by the generator. Bounds: MC MaxLen 4 (quick) / 6 (thorough); 4.6k (quick) / 60k (thorough) values.",
   design="6 C02, App. B"),
 "C08": dict(
   technique="TLA+ reference grammar with strict/lenient depth accounting checked by TLC + TLC-judged traces of the five skippers on hostile inputs",
   text="TLC checks grammar facts (every strict prefix of a valid encoding is short; negative sizes and unknown tags stay rejected; strict = lenient accounting below depth 64) exhaustively over short strings; hostile inputs (every cut point of every 11x11/11 container combination and of random values, structural bytes x boundary values, size fields x {7fffffff,80000000,ffffffff,...}, foreign and >=0x80 requested types, nesting 1..70 x {empty,scalar,string} bottoms, raw grammar-alphabet strings) are fed to all skippers; each (ok n | err) must lie in the admissible set {strict, lenient} computed by TLC, and a negative size must never be acted upon (no giant request to reader or pool).",
   note="Trusted: TLC, harness recorders, the shield reader/pool guard that refuse (and record) requests far beyond the input size. Inputs declaring > 1 MiB are not fed to ReaderSkipDecoder (it allocates what is declared). Bounds: MC MaxLen 5 (quick) / 6 (thorough); ~14k (quick) / ~150k (thorough) inputs.",
   design="6 C08, App. C"),
 "C01": dict(
   technique="TLA+ wire-format spec (ThriftWire Enc/Dec) checked by TLC + TLC-judged enc/dec traces of the 3 writers and 2 readers; Go sweep of all i32 against the certified lane rule",
   text="TLC checks Dec o Enc = id, Enc o Dec = id and EncLen for all bool/i8/i16, every type byte, boundary-lane i32/i64/double/ids/sizes and strings at every buffer boundary. Every generated value (all i8, i16 boundary set (thorough: all 65536), lane-product and random i32, single-bit/byte-distinct/NaN/random i64 and double, strings 0..16, 4085..4101, 8181..8197, 64KiB classes, arbitrary bytes, every type byte x boundary ids, sizes up to 2^31-1) is written by the in-place, appending and stream writers and read back by the buffer reader and by the stream reader under five fragmentations; TLC compares each call with Enc/Dec, advertised length and consumption.",
   note="Trusted: TLC, lane projection of 64-bit values (shifts), input-reference projection of decoded strings (bytes.Equal), recording sink/source. The 2^32 i32 sweep (thorough; quick: 1M stride sample) is applied in Go against the lane rule that MC_ThriftWire certifies - TLC cannot consume 2^32 events.",
   design="6 C01"),
 "C11": dict(
   technique="TLA+ schema-driven struct reader/writer (FastStructs) checked by TLC + TLC-judged traces of BLength/FastWrite/FastRead",
   text="TLC checks for Base/BaseResp/ApplicationException that every permutation of the known fields with up to two unknown or differently-typed fields (ids colliding with known ids) at every position and nil/empty/one-entry maps reads back to the value and consumes everything. Random values through BLength, FastWrite, FastWriteNocopy(nil), FastMarshal, FastRead, FastUnmarshal, and hand-built inputs with permuted/repeated known fields and unknown fields from the full typed-value generator, are judged against EncStruct/ReadStruct (unknown fields skipped with the ThriftSkip reference).",
   note="Trusted: TLC, content-verified segment projection of strings. Maps with >= 2 entries are judged by parsing (Go map order is free). FastRead allocates the declared map count: inputs declaring > 65536 entries are not fed.",
   design="6 C11"),
 "C12": dict(
   technique="TLA+ message-envelope spec (ThriftWire msgbegin + FastStructs) checked by TLC + TLC-judged traces",
   text="TLC checks all 65536 first words for the strict-version rule, all 65536 message types and every truncation of a header. Headers written by the three writers and read by both readers under fragmentation, raw headers for every first word (thorough) and every cut point, and MarshalFastMsg/UnmarshalFastMsg round trips incl. EXCEPTION messages (error carries type id and text, caller's struct untouched), truncated and perturbed messages are judged by TLC.",
   note="Trusted: as C01/C11. An empty method name in MarshalFastMsg is an allowed error.",
   design="6 C12"),
 "C15": dict(
   technique="TLA+ splice rule for the no-copy writer (FastStructs/Trace_FastStructs) evaluated by TLC on recorded direct-writer calls",
   text="For every combination of small/large strings (0,1,4095,4096,4097,8192,12288) in Base/BaseResp fields and map entries, FastWriteNocopy is run with a recording direct writer and with nil; TLC splices the recorded (piece, remainCap) pairs into the linear buffer at offset B - remainCap and requires equality with the copying encoding, remainCap >= len(piece), exactly the strings >= threshold written directly, and equal advertised lengths.",
   note="Trusted: TLC, recording NocopyWriter, segment projection. Exhaustive over the length alphabet for Base's three strings (thorough) / a 2/3 subsample (quick).",
   design="6 C15"),
 "C03": dict(
   technique="TLC-evaluated C03Rule on recorded outcomes of every buffer-based entry point under grammar-directed hostile inputs; Go monitors (recover, guard pages) make panics/faults observable; exhaustive raw sweep",
   text="Hostile inputs derived from the TLA+ grammar generators (every cut point, structural bytes x boundary values, size fields x hostile sizes, foreign and >=0x80 type bytes, nesting to 70) are fed to the five skippers, the scalar/header/message readers (buffer + stream), the three FastRead structs, FastUnmarshal, UnmarshalFastMsg, ConvertUnknownFields/GetUnknownFields and ttheader decode; every outcome is an event and TLC evaluates C03Rule (no panic/fault; success => 0 <= n <= len). In addition every byte string of length <= 2 over the full alphabet goes through every entry point (and all 256 type bytes for the allocation-free skippers); thorough adds all 2^24 three-byte strings x 15 types.",
   note="Trusted: TLC, recover()/guard-page monitors (PROT_NONE pages on both sides of inputs <= 128 KiB). For the raw sweep C03Rule is the whole expectation, so it is applied in Go and only failures become replay files. Entry points that allocate the declared size are fed declared sizes <= 1 MiB / 65536 entries (as the property states).",
   design="6 C03"),
 "C13": dict(
   technique="TLA+ tree/bytes conversion spec (UnknownFields) checked by TLC + TLC-judged traces of Convert/Get/Write/Length",
   text="TLC checks both round trips, TreeLen and tag-meaningfulness over all well-typed trees within bounds (>1000 trees: every type at top level and first container level, two fields after one another in nested structs). Random field sequences from the typed generator and random Go trees go through ConvertUnknownFields, GetUnknownFields (reflection), WriteUnknownFields and UnknownFieldsLength; TLC compares every tree field by field (ID, Type, KeyType, ValType, Value) with ToTree and every output with ToBytes.",
   note="Trusted: TLC, tree projection to JSON, content-verified string segments. Doubles are compared by bit pattern. Conversion allocates the declared element count: inputs declaring > 65536 elements are not fed.",
   design="6 C13, App. C"),
 "C17": dict(
   technique="TLA+ cause -> type-id mapping (ThriftSkip.TypeIdOf, ThriftWire.TypeIds) evaluated by TLC on recorded failures",
   text="For every failing thrift.Binary call (skip, scalar/string/header readers, message-begin) on the C03/C08 hostile inputs TLC derives the admissible cause set from the reference grammar/decoder and requires the ProtocolException type id to name it (invalid data for truncation/unknown types, negative size, bad version, depth limit); for stream readers/skippers whose only admissible cause is truncation it requires errors.Is(err, source error) for io.EOF, io.ErrUnexpectedEOF and a custom injected error, delivered with or after the last data.",
   note="Trusted: TLC, errors.As/Is projections in the harness. A negative name length inside message-begin may be reported as invalid data or negative size (both admitted).",
   design="6 C17"),
 "C06": dict(
   technique="TLA+ frame layout / reference parser / encoder contract (TTHeader) checked by TLC + TLC-judged encode and decode traces",
   text="TLC checks that every admissible frame of a bounded parameter domain (entry orders, ACL token, every padding residue) parses back to its parameters with the computed info size. Parameter sets (flags, sequence ids, supported protocol ids, int/str maps incl. the ACL key, arbitrary bytes, every padding residue, info sizes stepping by 1 across the 65536 limit, 64KiB-scale values) go through EncodeToBytes and Encode over a stream writer, then DecodeFromBytes/Decode over bytes and fragmenting stream readers with a payload behind the header; TLC checks: error iff info size > 65536, layout, size field, written = header length = consumed, Parse(frame) = params, payload-length arithmetic, IsTTHeader/IsStreaming.",
   note="Trusted: TLC, content-verified segment projection, recording sink/source. nil and empty decoded maps are identified. Unsupported protocol ids are outside the property's quantifier (the encoder accepts them, the decoder rejects them).",
   design="6 C06"),
 "C10": dict(
   technique="TLA+ reference parser (TTHeader.Parse, MaxConsume) checked by TLC over all size fields/flags/ids + TLC-judged decode traces of hostile frames",
   text="TLC evaluates the reference parser on all 65536 size fields x {body present, short, absent}, all flags, protocol ids, info ids, transform counts and magic words. The same families (quick: strided) plus random section orders, repeated sections, interleaved padding, zero counts, size fields cutting into sections and every truncation/perturbation of valid frames are decoded by DecodeFromBytes, Decode over a bytes reader and Decode over fragmenting stream readers; each must succeed exactly when Parse does with the same maps, HeaderLen = 14 + declared, PayloadLen = total + 4 - HeaderLen, and never consume more than min(14 + declared, len).",
   note="Trusted: TLC, segment projection (zero runs as {z:n}), recording source.",
   design="6 C10"),
 "C07": dict(
   technique="TLA+ model of the slot-sorted table with an arbitrary hash function (StrMap) checked by TLC + validation of real tables read through a hook",
   text="TLC enumerates every key subset of a universe with the empty key and prefixes, every assignment of keys to slots (the hash is an arbitrary function chosen per load - every collision-chain shape), every slot-sorted item order and load/failed-load/never-loaded histories, and checks Get = Go-map semantics for every probe and probe slot. Recorded histories of real StrMap[int], StrMap[struct] and Str2Str instances (fresh random seeds per instance, reloads growing/shrinking, failed loads, never loaded, up to 5000 keys) are validated: each load must be an enabled Load action on the real table (slots, hashtable, prime count read through the hook; Item enumeration), each Get must match MapAbs and ImplGet on the real table.",
   note="Trusted: TLC, hook strmap.VerifTable/VerifSlot, hex projection of keys, injective value encodings. Executions are not deterministic (maphash seeds): a rejected case is confirmed by re-running 300 fresh copies. 10^5-key maps are compared with a Go map in Go (monitor).",
   design="6 C07"),
 "C18": dict(
   technique="TLA+ exception algebra (Exceptions) checked by TLC over the full case table + TLC-judged results of the real helpers",
   text="TLC checks the clauses of C18 on the algebra over all kinds x boundary type ids x messages x prefixes x cause chains (depth <= 2). The same table plus random int32 type ids, long/binary messages and wrapped chains is replayed on PrependError, NewProtocolExceptionWithErr, errors.Is (pairwise truth table with targeted matches and near-misses) and Unwrap; TLC computes the expected dynamic kind, TypeId, Error() text (incl. the default-message table) and Is outcome.",
   note="Trusted: TLC, the description of Go error values as records (kind by type switch, identity by uid). Thin use of the technique: a finite algebra enumerated by TLC and replayed.",
   design="6 C18"),
 "C19": dict(
   technique="TLA+ single-buffer/two-handle model (ApacheBridge) checked by TLC + validation of recorded operation sequences on the real buffer and transport",
   text="TLC checks FIFO order and Remaining = unread length over all operation sequences <= 5 on either handle. Every sequence of <= 3 (thorough 4) operations over {Write, Read, Reset via either handle, Close, RemainingBytes} on empty and pre-filled buffers (NewBufferTransport and NewDefaultTransport(*bytes.Buffer)) plus random longer ones is executed; after each step both handles must show the model state. Generic transport: ReadableLen values incl. 0, negatives and absent method; registry: registered/unregistered callbacks, argument identity, result pass-through, the specific error.",
   note="Trusted: TLC, projections of bytes.Buffer (Len/Bytes) and RemainingBytes. Thin use of the technique (the model has one variable); kept because aliasing is a history property.",
   design="6 C19"),
 "C14": dict(
   technique="TLA+ model of pooled-object / span-lock interleavings (Concurrency) checked by TLC (bounded), Apalache (inductive invariant) and TLAPS (proof for any number of goroutines and objects) + validation of the acquisition log of a concurrent stress driver; race detector as monitor",
   text="TLC explores every interleaving of 3 goroutines over pooled objects and the span allocator's CAS-lock/bump/slice steps: exclusive ownership, reset on recycle, disjoint span regions, map never written (and finds the violation when fields are not cleared before Put). A stress driver (8..24 goroutines; cycles of BufferReader, BufferWriter, the three skip decoders, ttheader and Base codecs with the span allocator on, concurrent Get on a shared map; self-checking payloads tagged per goroutine, poisoning pool double) logs every acquisition/release under one mutex; TLC validates the log as Acquire/Release actions (no object in two hands) and every self-check. The same driver built with -race against the real mcache runs for several seeds.",
   note="Trusted: TLC, the conservative log order (acquire logged after Get, release before Put), Go's race detector. TLA+ cannot see the Go memory model: the 'no data race' clause is decided by the race detector on spec-driven executions (category other would also fit; model_checking describes the ownership part). Not deterministic: confirmation re-runs 20 copies.",
   design="6 C14, 10"),
 "C16": dict(
   technique="TLA+ region/span-allocator model (MemViews) checked by TLC + TLC-judged region traces of real decode runs",
   text="TLC checks that span regions are pairwise disjoint, in bounds and cap = len across request runs that wrap the span. Real decode runs (strings/binaries of every span class, long runs wrapping the 1 MiB span, buffer and stream readers, SetSpanCache on/off) record each result's memory region; TLC requires disjointness from the input and from every other result (over [addr, addr+cap)), cap = len for span results; the harness overwrites the input and appends to/modifies every returned slice and TLC requires all other results and the input intact; values must be identical with the span cache on and off.",
   note="Trusted: TLC, address projection (cluster, offset, len, cap) and content comparison in the harness.",
   design="6 C16"),
 "C20": dict(
   technique="TLA+ alias machine (MemViews) checked by TLC + TLC-judged conversion/append traces",
   text="TLC explores conversion/append histories over all input shapes and shows no write can land in string memory when cap = len (and finds the violation for a design that keeps the backing array's capacity). Real conversions for every shape (whole, substring, spare capacity, empty, nil) x lengths x append histories are judged: length/content preserved, shared pointer, cap = len, appends never in place.",
   note="Trusted: TLC, pointer/len/cap projection via unsafe.SliceData/StringData. Thin use of the technique (one-step functions); the reason the property matters is a history property of the alias machine.",
   design="6 C20"),
}
NOT_YET = "check not built yet in this revision of /verif (work in progress; see DESIGN.md section 6 for the plan)"

props = [json.loads(l)["id"] for l in open(f"{V}/properties.jsonl")]
hooks = subprocess.run(["git", "-C", "/repo", "log", "--format=%H %s"], capture_output=True, text=True).stdout.splitlines()
hook_commits = [l.split()[0] for l in hooks if l.split(" ", 1)[1].startswith("verif hook")]
m = {
 "version": 1,
 "setup_cmd": "bash /verif/bin/setup",
 "hooks": {
   "guard": "verif",
   "enable": "go build -tags verif (bin/check builds /verif/harness against /repo's working tree with -tags verif)",
   "baseline_off_cmd": "cd /repo && GOFLAGS=-mod=mod GOPROXY=off go test -json -vet=off -count=1 -timeout 25m ./...",
   "source_commits": hook_commits,
   "add_only": True,
 },
 "engines": [
   {"name": "tlc", "path": "/opt/veriftools/tla/tla2tools.jar", "serves_properties": sorted(CHECKS), "kind_free_text": "TLC 1.8 model checker: exhaustive checking of the design modules and validation of recorded traces (Trace_*.tla)"},
   {"name": "apalache", "path": "/opt/veriftools/apalache", "serves_properties": ["C04", "C05", "C09", "C14"], "kind_free_text": "Apalache 0.58 symbolic model checker: inductive invariants of Ind_BufReader and Ind_BufWriter (all sizes), Ind_BufPool and Ind_Concurrency (any run length), each with a negative control and non-vacuity probes"},
   {"name": "tlapm", "path": "/opt/veriftools/tlapm", "serves_properties": ["C09", "C14"], "kind_free_text": "TLAPS proofs Proof_BufPool / Proof_Concurrency (arbitrary sets of buffers / goroutines / objects), each with a control module that must leave an obligation unproved"},
   {"name": "vcheck", "path": "/verif/harness", "serves_properties": sorted(CHECKS), "kind_free_text": "Go harness: drives the real code, records ndjson traces, runs TLC, confirms and reports"},
 ],
 "checks": [],
 "not_applicable": [],
 "notes": "Verdicts come from TLA+ specifications in /verif/spec evaluated by TLC against behaviour recorded from the real code (see DESIGN.md). Where an input is beyond what TLC can consume or express, a Go-side monitor stands in and says so in the evidence file's rule text: the 2^32 i32 sweep and the raw byte sweeps (C01, C03), 4 GiB values and giant keys (C02, C07), collections of thousands of entries (C06, C07, C10, C11, C13), nesting millions of levels deep in child processes (C03), the race detector (C14). exit 2 = infrastructure error (no verdict).",
}
for p in props:
    if p in CHECKS:
        c = CHECKS[p]
        m["checks"].append({
          "property_id": p,
          "quick_cmd": f"bin/check {p} --tier quick",
          "thorough_cmd": f"bin/check {p} --tier thorough",
          "evidence_file": f"/verif/evidence/{p}.json",
          "replay_cmd_template": f"bin/check {p} --replay {{path}}",
          "engine": "tlc",
          "level_claimed": {"category": c.get("category", "model_checking"), "text": c["text"], "design_ref": c["design"]},
          "level_note": c["note"],
          "technique": c["technique"],
        })
    else:
        m["not_applicable"].append({"property_id": p, "reason": NOT_YET})
json.dump(m, open(f"{V}/MANIFEST.json", "w"), indent=1)
print("checks:", [c["property_id"] for c in m["checks"]], "n/a:", len(m["not_applicable"]))
