#!/usr/bin/env python3
"""Regenerates /verif/seeded/README.md from the meta.json of every seeded change."""
import json, glob, os
rows=[]
for m in sorted(glob.glob('/verif/seeded/*/meta.json')):
    d=json.load(open(m)); sid=d['seed']
    notes=d.get('needs_to_manifest','').strip().split('\n')
    title=next((l.strip('# ').strip() for l in notes if l.strip()), '')
    conf=d['confirmed']
    okc=all([conf.get('compiles_and_baseline_tests_pass'),conf.get('demo_fails_with_change'),conf.get('demo_passes_without_change')])
    caught=[f"{p}: {v['violations']} signature(s)" + (f" ({v['first_signatures'][0].split(' (')[0]})" if v['first_signatures'] else '') for p,v in d['checks'].items()]
    rows.append((sid,d['breaks_property'],title,'yes' if okc else 'NO', '; '.join(caught), 'yes' if d['checks'][d['breaks_property']]['violations']>0 else 'NO', d.get('history','')))
out=["# Seeded changes","","Each directory holds `patch.diff` (the change, written by an independent sub-agent that saw only the property text and a scratch worktree), `demo_test.go` (fails with the change, passes without), `NOTES.md` (the author's description) and `meta.json` (what was confirmed and which checks report it). Produced by `tools/seedtest.sh`; none of these changes is ever committed to /repo.","","| seed | property | change | confirmed (compiles, 35 tests pass, demo fails/passes) | quick check outcome | caught |","|---|---|---|---|---|---|"]
for r in rows:
    out.append(f"| {r[0]} | {r[1]} | {r[2]} | {r[3]} | {r[4]} | {r[5]} |")
hist=[r for r in rows if r[6]]
if hist:
    out+=["","## Changes that were missed at first and what was strengthened",""]
    for r in hist: out.append(f"* **{r[0]}** — {r[6]}")
open('/verif/seeded/README.md','w').write('\n'.join(out)+'\n')
print(len(rows),'seeds')
