#!/bin/bash
# tools/coverage.sh [tier] [props...]: statement coverage of cloudwego/gopkg under the verification drivers.
# Development aid (not a registered check): builds the harness with `go build -cover` for /repo's packages, runs the
# named checks (default: all, quick tier) with evidence redirected to a scratch directory, and prints per-file coverage
# plus the uncovered blocks of the non-test sources - the places no driver reaches.
set -u
export GOFLAGS=-mod=mod GOPROXY=off GOSUMDB=off GOTOOLCHAIN=local
tier=${1:-quick}; shift || true
props=${@:-$(python3 -c "import json; print(' '.join(c['property_id'] for c in json.load(open('/verif/MANIFEST.json'))['checks']))")}
V=/verif; W=$V/.work/cover; rm -rf $W; mkdir -p $W/data $W/evidence
# `go build -cover` instruments packages of the main module only, so the harness is built as a package of a scratch
# copy of /repo's module (language level raised to 1.21 in the copy for the harness' own use of unsafe.SliceData)
S=$(mktemp -d /tmp/verif-cover.XXXXXX); trap 'rm -rf "$S"' EXIT
rsync -a --exclude .git /repo/ $S/ && mkdir -p $S/zzharness && cp $V/harness/*.go $S/zzharness/ && cp -r $V/harness/third_party $S/zz_third_party || exit 2
cd $S && sed -i 's/^go 1\.18$/go 1.21/' go.mod && echo 'replace github.com/bytedance/gopkg => ./zz_third_party/bgopkg' >> go.mod
cat /repo/go.sum $V/harness/third_party/bgopkg/go.sum 2>/dev/null | sort -u > go.sum
go build -cover -coverpkg=./... -tags verif -o $W/vcheck ./zzharness || exit 2
for p in $props; do
  GOCOVERDIR=$W/data VERIF_EVIDENCE_DIR=$W/evidence $W/vcheck $p --tier $tier 2>&1 | tail -1
done
go tool covdata textfmt -i=$W/data -o $W/profile.txt
python3 $V/tools/covreport.py $W/profile.txt | tee $W/report.txt
