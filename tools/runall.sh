#!/bin/bash
# Runs every registered check once (tier from $1, default quick) and prints a one-line summary per check.
tier=${1:-quick}
cd /verif
for p in $(python3 -c "import json; print(' '.join(c['property_id'] for c in json.load(open('MANIFEST.json'))['checks']))"); do
  s=$(date +%s)
  out=$(bin/check $p --tier $tier 2>&1); rc=$?
  e=$(date +%s)
  echo "$p rc=$rc $((e-s))s $(echo "$out" | grep -c VIOLATION) violations; $(echo "$out" | tail -1)"
done
