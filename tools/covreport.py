#!/usr/bin/env python3
# Summarises a Go cover profile: per-file statement coverage and the uncovered blocks (file:line ranges).
import sys, collections
cov = collections.defaultdict(lambda: [0, 0]); unc = collections.defaultdict(list)
blocks = {}
for ln in open(sys.argv[1]):
    if ln.startswith("mode:"): continue
    loc, nst, cnt = ln.rsplit(" ", 2)
    key = loc; blocks[key] = (int(nst), max(int(cnt), blocks.get(key, (0, 0))[1]))
for loc, (nst, cnt) in blocks.items():
    f, rng = loc.split(":")
    f = f.replace("github.com/cloudwego/gopkg/", "")
    if "/internal/testutils/" in f or "internal/testutils/" in f or f.endswith("_test.go") or f.startswith("zzharness/") or "verif_state.go" in f: continue
    cov[f][1] += nst
    if cnt > 0: cov[f][0] += nst
    else: unc[f].append(rng)
tot = [0, 0]
for f in sorted(cov):
    c, n = cov[f]; tot[0] += c; tot[1] += n
    print(f"{100.0*c/max(n,1):6.1f}%  {c:4d}/{n:<4d} {f}")
print(f"{100.0*tot[0]/max(tot[1],1):6.1f}%  {tot[0]}/{tot[1]} TOTAL")
print("\nuncovered blocks:")
def key(r):
    a = r.split(",")[0].split("."); return (int(a[0]), int(a[1]))
for f in sorted(unc):
    print(f"  {f}: " + " ".join(sorted(unc[f], key=key)))
