#!/usr/bin/env python3
"""tools/mutate.py [--n N] [--seed S] [--out DIR] [--files glob,...] -- operator-level mutation run (development aid).

Generates single-token mutants of cloudwego/gopkg's non-test sources (relational / logical / arithmetic operators,
small integer literals, negations), and for each one, entirely in scratch copies (neither /repo nor /verif is touched):
  1. builds the mutant and runs the repository's own test suite: a mutant the tests kill is not interesting;
  2. for a survivor, builds the harness against the mutated copy and runs the quick checks mapped to the file, in
     order, until one reports a VIOLATION.
Output: <out>/results.jsonl (one record per mutant) and a summary.  Surviving mutants are either equivalent
(no observable change) or a blind spot of the checks; they are triaged by hand (DESIGN.md 0.6).
"""
import argparse, json, os, random, re, shutil, subprocess, sys, time, glob

ENV = dict(os.environ, GOFLAGS="-mod=mod", GOPROXY="off", GOSUMDB="off", GOTOOLCHAIN="local")
MAP = [
    ("bufiox/defaultbuf.go", ["C04", "C05", "C09"]),
    ("container/strmap/", ["C07"]), ("internal/strstore/", ["C07"]), ("internal/hash/", ["C07"]),
    ("protocol/thrift/binary.go", ["C01", "C02", "C08", "C03", "C17", "C16", "C15", "C12", "C11"]),
    ("protocol/thrift/bufferreader.go", ["C01", "C02", "C08", "C17", "C16", "C12"]),
    ("protocol/thrift/bufferwriter.go", ["C01", "C12"]),
    ("protocol/thrift/skipdecoder", ["C02", "C08", "C09", "C17", "C03"]),
    ("protocol/thrift/exception.go", ["C18", "C17", "C11", "C12"]),
    ("protocol/thrift/fastcodec.go", ["C12", "C15", "C11"]),
    ("protocol/thrift/base/k-base.go", ["C11", "C15", "C03"]),
    ("protocol/thrift/unknownfields/", ["C13", "C03"]),
    ("protocol/thrift/apache/", ["C19"]),
    ("protocol/ttheader/", ["C06", "C10", "C03"]),
    ("unsafex/unsafex_go121.go", ["C20"]),
]
OPS = [
    (r"<=", "<"), (r">=", ">"), (r"(?<![<\-=!>])<(?![<\-=])", "<="), (r"(?<![>\-=!<])>(?![>=])", ">="),
    (r"==", "!="), (r"!=", "=="), (r"&&", "||"), (r"\|\|", "&&"),
    (r"(?<=[\w\)\]]) \+ (?=[\w\(])", " - "), (r"(?<=[\w\)\]]) - (?=[\w\(])", " + "),
    (r"(?<=[\w\)\]]) \* (?=[\w\(])", " + "),
    (r"(?<=[ \(\[:,])(\d+)(?=[\)\]: ,;]|$)", "INC"),
    (r"(?<=if )!(?=[\w\(])", ""), (r"(?<=&& )!(?=[\w\(])", ""),
    (r"\+= ", "-= "), (r"\+\+", "--"),
]


def checks_for(path):
    for pre, cs in MAP:
        if path.startswith(pre) or pre in path:
            return cs
    return None


def mutants(repo, files_filter):
    out = []
    for root, _, fs in os.walk(repo):
        if "/.git" in root or "/internal/testutils" in root:
            continue
        for f in fs:
            p = os.path.join(root, f)
            rel = os.path.relpath(p, repo)
            if not f.endswith(".go") or f.endswith("_test.go") or f.startswith("verif_") or f == "unsafex_go100.go" or f == "base.go":
                continue
            if checks_for(rel) is None:
                continue
            if files_filter and not any(x in rel for x in files_filter):
                continue
            lines = open(p).read().split("\n")
            in_block = False
            for i, ln in enumerate(lines):
                s = ln.strip()
                if s.startswith("/*"):
                    in_block = True
                if in_block:
                    if "*/" in s:
                        in_block = False
                    continue
                if s.startswith("//") or s.startswith("import") or s.startswith("package") or '"' in s and s.startswith('"'):
                    continue
                code = ln.split("//")[0]
                if "`" in code:
                    continue
                for pat, rep in OPS:
                    for m in re.finditer(pat, code):
                        # skip operators inside string literals (rough: odd number of quotes before)
                        if code[:m.start()].count('"') % 2 == 1:
                            continue
                        if rep == "INC":
                            v = int(m.group(1))
                            if v > 70000:
                                continue
                            new = code[:m.start()] + str(v + 1) + code[m.end():]
                        else:
                            new = code[:m.start()] + rep + code[m.end():]
                        out.append({"file": rel, "line": i + 1, "col": m.start(), "old": code.strip(), "new": new.strip(),
                                    "newline": new + ln[len(code):]})
    return out


def run(cmd, cwd, timeout):
    try:
        r = subprocess.run(cmd, cwd=cwd, env=ENV, stdout=subprocess.PIPE, stderr=subprocess.STDOUT, timeout=timeout, text=True, errors="replace")
        return r.returncode, r.stdout
    except subprocess.TimeoutExpired as e:
        return 124, (e.stdout or "") if isinstance(e.stdout, str) else ""


def main():
    ap = argparse.ArgumentParser()
    ap.add_argument("--n", type=int, default=100)
    ap.add_argument("--seed", type=int, default=1)
    ap.add_argument("--out", default="/verif/.work/mutation")
    ap.add_argument("--files", default="")
    a = ap.parse_args()
    os.makedirs(a.out, exist_ok=True)
    S = "/tmp/verif-mut.%d" % os.getpid()
    shutil.rmtree(S, ignore_errors=True)
    os.makedirs(S)
    try:
        subprocess.check_call(["rsync", "-a", "--exclude", ".git", "/repo/", S + "/repo/"])
        subprocess.check_call(["rsync", "-a", "--exclude", "go.sum", "/verif/harness/", S + "/harness/"])
        gm = open(S + "/harness/go.mod").read().replace("=> /repo", "=> " + S + "/repo")
        open(S + "/harness/go.mod", "w").write(gm)
        sums = set(open("/repo/go.sum").read().split("\n")) | set(open("/verif/harness/third_party/bgopkg/go.sum").read().split("\n"))
        open(S + "/harness/go.sum", "w").write("\n".join(sorted(x for x in sums if x)) + "\n")
        ms = mutants(S + "/repo", [x for x in a.files.split(",") if x])
        random.Random(a.seed).shuffle(ms)
        ms = ms[:a.n]
        print("%d mutants selected" % len(ms), flush=True)
        res_path = os.path.join(a.out, "results.jsonl")
        done = set()
        if os.path.exists(res_path):
            for l in open(res_path):
                d = json.loads(l)
                done.add((d["file"], d["line"], d["col"], d["new"]))
        with open(res_path, "a") as rf:
            for k, m in enumerate(ms):
                key = (m["file"], m["line"], m["col"], m["new"])
                if key in done:
                    continue
                p = os.path.join(S, "repo", m["file"])
                orig = open(p).read()
                lines = orig.split("\n")
                lines[m["line"] - 1] = m["newline"]
                open(p, "w").write("\n".join(lines))
                rec = dict(m)
                del rec["newline"]
                t0 = time.time()
                try:
                    rc, out = run(["go", "build", "./..."], S + "/repo", 300)
                    if rc != 0:
                        rec["outcome"] = "does-not-compile"
                    else:
                        rc, out = run(["go", "vet", "./" + os.path.dirname(m["file"]) + "/"], S + "/repo", 300)
                        rc, out = run(["go", "test", "-count=1", "-timeout", "10m", "./..."], S + "/repo", 900)
                        if rc != 0:
                            rec["outcome"] = "killed-by-repo-tests"
                        else:
                            rc, out = run(["go", "build", "-tags", "verif", "-o", S + "/vcheck", "."], S + "/harness", 600)
                            if rc != 0:
                                rec["outcome"] = "harness-build-failed"
                                rec["detail"] = out[-400:]
                            else:
                                rec["outcome"] = "SURVIVED"
                                rec["checks"] = {}
                                for c in checks_for(m["file"]):
                                    env = dict(ENV, VERIF_EVIDENCE_DIR=S + "/ev", VERIF_SEED="1", VERIF_CASE_DEADLINE="60", VERIF_CHECK_DEADLINE="900")
                                    try:
                                        r = subprocess.run([S + "/vcheck", c, "--tier", "quick"], cwd="/verif", env=env, stdout=subprocess.PIPE,
                                                           stderr=subprocess.STDOUT, timeout=1500, text=True, errors="replace")
                                        rc2, o2 = r.returncode, r.stdout
                                    except subprocess.TimeoutExpired:
                                        rc2, o2 = 124, ""
                                    nv = len(re.findall(r"^VIOLATION", o2, re.M))
                                    nd = len(re.findall(r"^MODEL-DRIFT", o2, re.M))
                                    rec["checks"][c] = {"rc": rc2, "violations": nv, "drift": nd}
                                    if rc2 == 1 and nv > 0:
                                        rec["outcome"] = "caught"
                                        rec["by"] = c
                                        sig = re.findall(r"signature: (.*)", o2)
                                        rec["sig"] = sig[:2]
                                        break
                                    if rc2 not in (0, 1):
                                        rec.setdefault("noverdict", []).append(c)
                finally:
                    open(p, "w").write(orig)
                rec["secs"] = round(time.time() - t0, 1)
                rf.write(json.dumps(rec) + "\n")
                rf.flush()
                print("%3d/%d %-22s %s:%d  %s  -> %s" % (k + 1, len(ms), rec["outcome"] + ("/" + rec.get("by", "") if rec.get("by") else ""), m["file"], m["line"],
                                                        m["old"][:50], m["new"][:50]), flush=True)
    finally:
        shutil.rmtree(S, ignore_errors=True)
    # summary
    cnt = {}
    for l in open(res_path):
        d = json.loads(l)
        cnt[d["outcome"]] = cnt.get(d["outcome"], 0) + 1
    print(json.dumps(cnt))


if __name__ == "__main__":
    main()
