#!/bin/bash
# tools/seedrun.sh <seed-dir-name> <property> [tier]: apply a kept seeded change to /repo, run one check, revert, restore evidence.
# Never run while another check is running (the patch is applied to /repo itself).
d=/verif/seeded/$1; p=$2; tier=${3:-quick}
git -C /repo apply $d/patch.diff || exit 2
(cd /verif && VERIF_EVIDENCE_DIR=/verif/.work/seed-evidence bin/check $p --tier $tier 2>&1 | grep -v '^TRACE\|^MC \|^SWEEP' | head -${LINES_MAX:-14}); 
git -C /repo checkout -- . ; git -C /repo status --short

