#!/bin/bash
# tools/seedtest.sh <seed-id> <out-dir-with-patch.diff+demo_test.go> <pkgdir> <property> [more properties...]
# Confirms a seeded change independently (compiles, baseline tests pass, demo fails with / passes without),
# then applies it to /repo, runs the named checks (quick tier) and reverts. Results -> /verif/seeded/<seed-id>/.
set -u
export GOFLAGS=-mod=mod GOPROXY=off GOSUMDB=off GOTOOLCHAIN=local
id=$1; out=$2; pkg=$3; shift 3; props="$@"
dst=/verif/seeded/$id; mkdir -p $dst
cp $out/patch.diff $dst/patch.diff; cp $out/demo_test.go $dst/demo_test.go; [ -f $out/NOTES.md ] && cp $out/NOTES.md $dst/NOTES.md
wt=/tmp/seedchk/$id; rm -rf $wt; git -C /repo worktree prune; git -C /repo worktree add --detach $wt HEAD >/dev/null 2>&1 || { echo "worktree failed"; exit 2; }
cd $wt
r_apply=$(git apply $dst/patch.diff 2>&1 && echo ok)
r_build=$(go build ./... 2>&1 && echo ok | tail -1)
r_tests=$(go test -count=1 ./... 2>&1 | grep -c '^ok'); r_fail=$(go test -count=1 ./... 2>&1 | grep -c '^FAIL\|^---')
cp $dst/demo_test.go $wt/$pkg/zz_seed_demo_test.go
go test -count=1 -run TestSeedDemo ./$pkg/ > $dst/demo_with.log 2>&1; rc_with=$?
git apply -R $dst/patch.diff
go test -count=1 -run TestSeedDemo ./$pkg/ > $dst/demo_without.log 2>&1; rc_without=$?
cd /; git -C /repo worktree remove --force $wt; rm -rf $wt
echo "apply=$r_apply build=$r_build baseline_ok_pkgs=$r_tests baseline_fail_lines=$r_fail demo_with_rc=$rc_with demo_without_rc=$rc_without"
# run the checks against /repo with the change applied
git -C /repo apply $dst/patch.diff || { echo "cannot apply to /repo"; exit 2; }
declare -A res
for p in $props; do
  o=$(cd /verif && VERIF_EVIDENCE_DIR=/verif/.work/seed-evidence bin/check $p --tier quick 2>&1); rc=$?
  res[$p]="rc=$rc $(echo "$o" | grep -c '^VIOLATION') violation(s)"
  echo "$o" | grep '^VIOLATION\|signature' | head -6 > $dst/check_$p.log
  echo "check $p: ${res[$p]}"
done
git -C /repo checkout -- . ; git -C /repo status --short | head -3
python3 - "$id" "$dst" "$r_tests" "$r_fail" "$rc_with" "$rc_without" "$props" <<'PY'
import json,sys,os,re
id,dst,ok,fail,w,wo,props=sys.argv[1:8]
checks={}
for p in props.split():
    t=open(f"{dst}/check_{p}.log").read()
    checks[p]={"violations":len(re.findall(r'^VIOLATION',t,re.M)),"first_signatures":re.findall(r'signature: (.*)',t)[:3]}
meta={"seed":id,"breaks_property":props.split()[0],"also_run":props.split()[1:],
 "needs_to_manifest": (open(f"{dst}/NOTES.md").read() if os.path.exists(f"{dst}/NOTES.md") else ""),
 "confirmed":{"compiles_and_baseline_tests_pass": fail=="0" and int(ok)>0, "baseline_ok_packages":int(ok),
              "demo_fails_with_change": w!="0", "demo_passes_without_change": wo=="0"},
 "what_was_run":[f"git apply patch.diff in a scratch worktree; go build ./...; go test ./...; go test -run TestSeedDemo (with and without the change)",
                 f"git -C /repo apply patch.diff; bin/check <P> --tier quick for P in {props}; git -C /repo checkout -- ."],
 "checks":checks}
json.dump(meta,open(f"{dst}/meta.json","w"),indent=1)
print(json.dumps(meta["confirmed"]), {k:v["violations"] for k,v in checks.items()})
PY
