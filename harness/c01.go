package main

import (
	"bufio"
	"bytes"
	"encoding/json"
	"errors"
	"fmt"
	"io"
	"math"
	"math/rand"
	"runtime/debug"
	"strconv"
	"strings"

	"github.com/cloudwego/gopkg/bufiox"
	"github.com/cloudwego/gopkg/protocol/thrift"
)

// ---------------------------------------------------------------------------
// C01 / C12 (+ C03, C17 clauses on the same events) — the Thrift Binary codec against ThriftWire.tla.

type WireCase struct {
	Kind  string `json:"kind"`
	B     bool   `json:"b,omitempty"`
	I     int64  `json:"i,omitempty"`     // byte / i16 / i32 value
	Lanes []int  `json:"lanes,omitempty"` // i64 / double bit pattern, 8 bytes MSB first
	SLen  int    `json:"slen,omitempty"`  // string / binary / message name: pattern payload length
	SSeed int    `json:"sseed,omitempty"`
	SLit  []int  `json:"slit,omitempty"` // or literal content (arbitrary bytes)
	T     int    `json:"t,omitempty"`
	ID    int    `json:"id,omitempty"`
	Kt    int    `json:"kt,omitempty"`
	Vt    int    `json:"vt,omitempty"`
	Size  int    `json:"size,omitempty"`
	Mt    int    `json:"mt,omitempty"`
	Seq   int    `json:"seq,omitempty"`
	Trail int    `json:"trail,omitempty"`
	Mut   string `json:"mut,omitempty"`  // hostile mutation of the encoding before decoding
	Only  string `json:"only,omitempty"` // "dec": skip the writers (hostile inputs)
	Hex   string `json:"hex,omitempty"`  // decode this raw input instead of an encoding
}

func (c *WireCase) payload() []byte {
	if c.SLit != nil {
		b := make([]byte, len(c.SLit))
		for i, x := range c.SLit {
			b[i] = byte(x)
		}
		return b
	}
	return PatBytes(c.SSeed, 0, c.SLen)
}

func lanes64(u uint64) []int {
	out := make([]int, 8)
	for i := 0; i < 8; i++ {
		out[i] = int(byte(u >> (56 - 8*uint(i))))
	}
	return out
}
func lanesTo64(l []int) uint64 {
	var u uint64
	for _, x := range l {
		u = u<<8 | uint64(byte(x))
	}
	return u
}
func lanes32(u uint32) []int {
	return []int{int(byte(u >> 24)), int(byte(u >> 16)), int(byte(u >> 8)), int(byte(u))}
}

// projectWire renders encoded bytes as segments: structural parts literal, one payload window recognised by content.
func projectWire(out []byte, payLo, payHi int, seed int) Raw {
	if payLo < 0 || payHi > len(out) || payLo > payHi {
		return Raw("[" + string(litSeg(out)) + "]")
	}
	var parts []string
	if payLo > 0 {
		parts = append(parts, string(litSeg(out[:payLo])))
	}
	if payHi > payLo {
		p := out[payLo:payHi]
		if len(p) > litMax && isPat(p, seed, 0) {
			parts = append(parts, string(runSeg(seed, 0, len(p))))
		} else if len(p) <= 4096 {
			parts = append(parts, string(litSeg(p)))
		} else {
			parts = append(parts, string(SegOf(p, seed, 0, 1)))
		}
	}
	if payHi < len(out) {
		parts = append(parts, string(litSeg(out[payHi:])))
	}
	return Raw("[" + strings.Join(parts, ",") + "]")
}

// valJSON renders the abstract value of the case for enc events.
func (c *WireCase) valJSON() Raw {
	segs := func() string {
		p := c.payload()
		if len(p) == 0 {
			return "[]"
		}
		if c.SLit == nil && len(p) > litMax {
			return "[" + string(runSeg(c.SSeed, 0, len(p))) + "]"
		}
		return "[" + string(litSeg(p)) + "]"
	}
	switch c.Kind {
	case "bool":
		return Raw(fmt.Sprintf(`{"b":%v}`, c.B))
	case "byte", "i16", "i32":
		return Raw(fmt.Sprintf(`{"i":%d}`, c.I))
	case "i64", "double":
		return Raw(fmt.Sprintf(`{"lanes":%s}`, intsJSON(c.Lanes)))
	case "string", "binary":
		return Raw(`{"segs":` + segs() + `}`)
	case "fieldbegin":
		return Raw(fmt.Sprintf(`{"t":%d,"id":%d}`, c.T, c.ID))
	case "fieldstop":
		return Raw(`{"stop":true}`)
	case "mapbegin":
		return Raw(fmt.Sprintf(`{"kt":%d,"vt":%d,"size":%d}`, c.Kt, c.Vt, c.Size))
	case "listbegin", "setbegin":
		return Raw(fmt.Sprintf(`{"et":%d,"size":%d}`, c.Kt, c.Size))
	case "msgbegin":
		return Raw(fmt.Sprintf(`{"mt":%d,"name":%s,"seq":%d}`, c.Mt, segs(), c.Seq))
	}
	return Raw("{}")
}

func (c *WireCase) payWindow(n int) (int, int) {
	switch c.Kind {
	case "string", "binary":
		return 4, n
	case "msgbegin":
		return 8, n - 4
	}
	return n, n
}

func (c *WireCase) encode3(w *TraceWriter) []byte {
	bp := thrift.Binary
	pay := c.payload()
	str := string(pay)
	adv := 0
	var write func(b []byte) int
	var app func(b []byte) []byte
	var stream func(bw *thrift.BufferWriter) error
	switch c.Kind {
	case "bool":
		adv = bp.BoolLength()
		write = func(b []byte) int { return bp.WriteBool(b, c.B) }
		app = func(b []byte) []byte { return bp.AppendBool(b, c.B) }
		stream = func(bw *thrift.BufferWriter) error { return bw.WriteBool(c.B) }
	case "byte":
		adv = bp.ByteLength()
		write = func(b []byte) int { return bp.WriteByte(b, int8(c.I)) }
		app = func(b []byte) []byte { return bp.AppendByte(b, int8(c.I)) }
		stream = func(bw *thrift.BufferWriter) error { return bw.WriteByte(int8(c.I)) }
	case "i16":
		adv = bp.I16Length()
		write = func(b []byte) int { return bp.WriteI16(b, int16(c.I)) }
		app = func(b []byte) []byte { return bp.AppendI16(b, int16(c.I)) }
		stream = func(bw *thrift.BufferWriter) error { return bw.WriteI16(int16(c.I)) }
	case "i32":
		adv = bp.I32Length()
		write = func(b []byte) int { return bp.WriteI32(b, int32(c.I)) }
		app = func(b []byte) []byte { return bp.AppendI32(b, int32(c.I)) }
		stream = func(bw *thrift.BufferWriter) error { return bw.WriteI32(int32(c.I)) }
	case "i64":
		v := int64(lanesTo64(c.Lanes))
		adv = bp.I64Length()
		write = func(b []byte) int { return bp.WriteI64(b, v) }
		app = func(b []byte) []byte { return bp.AppendI64(b, v) }
		stream = func(bw *thrift.BufferWriter) error { return bw.WriteI64(v) }
	case "double":
		v := math.Float64frombits(lanesTo64(c.Lanes))
		adv = bp.DoubleLength()
		write = func(b []byte) int { return bp.WriteDouble(b, v) }
		app = func(b []byte) []byte { return bp.AppendDouble(b, v) }
		stream = func(bw *thrift.BufferWriter) error { return bw.WriteDouble(v) }
	case "string":
		adv = bp.StringLength(str)
		write = func(b []byte) int { return bp.WriteString(b, str) }
		app = func(b []byte) []byte { return bp.AppendString(b, str) }
		stream = func(bw *thrift.BufferWriter) error { return bw.WriteString(str) }
	case "binary":
		adv = bp.BinaryLength(pay)
		write = func(b []byte) int { return bp.WriteBinary(b, pay) }
		app = func(b []byte) []byte { return bp.AppendBinary(b, pay) }
		stream = func(bw *thrift.BufferWriter) error { return bw.WriteBinary(pay) }
	case "fieldbegin":
		adv = bp.FieldBeginLength()
		write = func(b []byte) int { return bp.WriteFieldBegin(b, int8(c.T), int16(c.ID)) }
		app = func(b []byte) []byte { return bp.AppendFieldBegin(b, int8(c.T), int16(c.ID)) }
		stream = func(bw *thrift.BufferWriter) error { return bw.WriteFieldBegin(int8(c.T), int16(c.ID)) }
	case "fieldstop":
		adv = bp.FieldStopLength()
		write = func(b []byte) int { return bp.WriteFieldStop(b) }
		app = func(b []byte) []byte { return bp.AppendFieldStop(b) }
		stream = func(bw *thrift.BufferWriter) error { return bw.WriteFieldStop() }
	case "mapbegin":
		adv = bp.MapBeginLength()
		write = func(b []byte) int { return bp.WriteMapBegin(b, int8(c.Kt), int8(c.Vt), c.Size) }
		app = func(b []byte) []byte { return bp.AppendMapBegin(b, int8(c.Kt), int8(c.Vt), c.Size) }
		stream = func(bw *thrift.BufferWriter) error { return bw.WriteMapBegin(int8(c.Kt), int8(c.Vt), c.Size) }
	case "listbegin":
		adv = bp.ListBeginLength()
		write = func(b []byte) int { return bp.WriteListBegin(b, int8(c.Kt), c.Size) }
		app = func(b []byte) []byte { return bp.AppendListBegin(b, int8(c.Kt), c.Size) }
		stream = func(bw *thrift.BufferWriter) error { return bw.WriteListBegin(int8(c.Kt), c.Size) }
	case "setbegin":
		adv = bp.SetBeginLength()
		write = func(b []byte) int { return bp.WriteSetBegin(b, int8(c.Kt), c.Size) }
		app = func(b []byte) []byte { return bp.AppendSetBegin(b, int8(c.Kt), c.Size) }
		stream = func(bw *thrift.BufferWriter) error { return bw.WriteSetBegin(int8(c.Kt), c.Size) }
	case "msgbegin":
		adv = bp.MessageBeginLength(str)
		write = func(b []byte) int { return bp.WriteMessageBegin(b, str, int32(c.Mt), int32(c.Seq)) }
		app = func(b []byte) []byte { return bp.AppendMessageBegin(b, str, int32(c.Mt), int32(c.Seq)) }
		stream = func(bw *thrift.BufferWriter) error { return bw.WriteMessageBegin(str, int32(c.Mt), int32(c.Seq)) }
	default:
		return nil
	}
	val := c.valJSON()
	emit := func(api string, out []byte, ret int) {
		lo, hi := c.payWindow(len(out))
		w.Ev("enc", "api", api, "kind", c.Kind, "val", val, "out", projectWire(out, lo, hi, c.SSeed), "ret", ret, "adv", adv)
	}
	var canonical []byte
	// in-place writer (buffer larger than needed, pre-filled so that untouched bytes are visible)
	func() {
		defer func() {
			if p := recover(); p != nil {
				w.Ev("enc", "api", "write", "kind", c.Kind, "val", val, "out", Raw(`[{"g":[0,0]}]`), "ret", -1, "adv", adv, "panic", fmt.Sprint(p))
			}
		}()
		buf := bytes.Repeat([]byte{0xA5}, adv+16)
		n := write(buf)
		k := n
		if k < 0 || k > len(buf) {
			k = 0
		}
		canonical = append([]byte(nil), buf[:k]...)
		emit("write", buf[:k], n)
	}()
	// appending writer over a non-empty prefix
	func() {
		defer func() {
			if p := recover(); p != nil {
				w.Ev("enc", "api", "append", "kind", c.Kind, "val", val, "out", Raw(`[{"g":[0,0]}]`), "ret", -1, "adv", adv, "panic", fmt.Sprint(p))
			}
		}()
		prefix := []byte{0xAA, 0xBB, 0xCC}
		res := app(append([]byte(nil), prefix...))
		if len(res) < 3 || !bytes.Equal(res[:3], prefix) {
			emit("append", nil, -1)
			return
		}
		emit("append", res[3:], len(res)-3)
	}()
	// stream writer over a bufiox writer
	func() {
		defer func() {
			if p := recover(); p != nil {
				w.Ev("enc", "api", "stream", "kind", c.Kind, "val", val, "out", Raw(`[{"g":[0,0]}]`), "ret", -1, "adv", adv, "panic", fmt.Sprint(p))
			}
		}()
		sink := &recSink{}
		bw := bufiox.NewDefaultWriter(sink)
		tw := thrift.NewBufferWriter(bw)
		err := stream(tw)
		wl := bw.WrittenLen()
		ferr := bw.Flush()
		tw.Recycle()
		var all []byte
		for _, p := range sink.payloads {
			all = append(all, p...)
		}
		if err != nil || ferr != nil {
			wl = -1
		}
		emit("stream", all, wl)
	}()
	// stream writer over a zero-copy writer that reads what it was given only at Flush
	func() {
		defer func() {
			if p := recover(); p != nil {
				w.Ev("enc", "api", "stream-ref", "kind", c.Kind, "val", val, "out", Raw(`[{"g":[0,0]}]`), "ret", -1, "adv", adv, "panic", fmt.Sprint(p))
			}
		}()
		rw := &refWriter{}
		tw := thrift.NewBufferWriter(rw)
		err := stream(tw)
		wl := rw.WrittenLen()
		ferr := rw.Flush()
		tw.Recycle()
		if err != nil || ferr != nil {
			wl = -1
		}
		emit("stream-ref", rw.out, wl)
	}()
	// stream writer over a writer that runs out of room after `budget` bytes
	seenB := map[int]bool{}
	for _, budget := range []int{0, 1, 3, adv / 2, adv - 1, adv, adv + 5} {
		if budget < 0 || seenB[budget] {
			continue
		}
		seenB[budget] = true
		func() {
			bwr := &budgetWriter{budget: budget, fail: errBudget}
			tw := thrift.NewBufferWriter(bwr)
			var err error
			panicked := false
			func() {
				defer func() {
					if p := recover(); p != nil {
						panicked = true
					}
				}()
				err = stream(tw)
			}()
			tw.Recycle()
			w.Ev("encb", "api", "stream", "kind", c.Kind, "val", val, "budget", budget, "ok", err == nil && !panicked, "panic", panicked,
				"errsrc", err != nil && errors.Is(err, errBudget), "wrote", bwr.used)
		}()
	}
	return canonical
}

// decValJSON renders a decoded value; strings are references into the input (verified with bytes.Equal).
func inRef(val []byte, in []byte, hint int) string {
	if hint >= 0 && hint+len(val) <= len(in) && bytes.Equal(val, in[hint:hint+len(val)]) {
		return fmt.Sprintf(`{"at":%d,"len":%d}`, hint, len(val))
	}
	if i := bytes.Index(in, val); i >= 0 && len(val) > 0 {
		return fmt.Sprintf(`{"at":%d,"len":%d}`, i, len(val))
	}
	if len(val) <= 64 {
		return `{"lit":` + string(bytesJSON(val)) + `}`
	}
	return fmt.Sprintf(`{"garbage":%d}`, len(val))
}

type decOut struct {
	ok     bool
	n      int
	val    string
	err    error
	panicd bool
}

func decodeBuffer(kind string, in []byte) (o decOut) {
	defer func() {
		if p := recover(); p != nil {
			o = decOut{panicd: true, val: "{}"}
		}
	}()
	bp := thrift.Binary
	o.val = "{}"
	switch kind {
	case "bool":
		v, l, err := bp.ReadBool(in)
		o = decOut{ok: err == nil, n: l, err: err, val: fmt.Sprintf(`{"b":%v}`, v)}
	case "byte":
		v, l, err := bp.ReadByte(in)
		o = decOut{ok: err == nil, n: l, err: err, val: fmt.Sprintf(`{"i":%d}`, v)}
	case "i16":
		v, l, err := bp.ReadI16(in)
		o = decOut{ok: err == nil, n: l, err: err, val: fmt.Sprintf(`{"i":%d}`, v)}
	case "i32":
		v, l, err := bp.ReadI32(in)
		o = decOut{ok: err == nil, n: l, err: err, val: fmt.Sprintf(`{"i":%d}`, v)}
	case "i64":
		v, l, err := bp.ReadI64(in)
		o = decOut{ok: err == nil, n: l, err: err, val: fmt.Sprintf(`{"lanes":%s}`, intsJSON(lanes64(uint64(v))))}
	case "double":
		v, l, err := bp.ReadDouble(in)
		o = decOut{ok: err == nil, n: l, err: err, val: fmt.Sprintf(`{"lanes":%s}`, intsJSON(lanes64(math.Float64bits(v))))}
	case "string":
		v, l, err := bp.ReadString(in)
		o = decOut{ok: err == nil, n: l, err: err, val: inRef([]byte(v), in, 4)}
	case "binary":
		v, l, err := bp.ReadBinary(in)
		o = decOut{ok: err == nil, n: l, err: err, val: inRef(v, in, 4)}
	case "fieldbegin":
		t, id, l, err := bp.ReadFieldBegin(in)
		o = decOut{ok: err == nil, n: l, err: err, val: fmt.Sprintf(`{"t":%d,"id":%d}`, t, id)}
	case "mapbegin":
		kt, vt, sz, l, err := bp.ReadMapBegin(in)
		o = decOut{ok: err == nil, n: l, err: err, val: fmt.Sprintf(`{"kt":%d,"vt":%d,"sizel":%s}`, kt, vt, intsJSON(lanes32(uint32(sz))))}
	case "listbegin":
		et, sz, l, err := bp.ReadListBegin(in)
		o = decOut{ok: err == nil, n: l, err: err, val: fmt.Sprintf(`{"et":%d,"sizel":%s}`, et, intsJSON(lanes32(uint32(sz))))}
	case "setbegin":
		et, sz, l, err := bp.ReadSetBegin(in)
		o = decOut{ok: err == nil, n: l, err: err, val: fmt.Sprintf(`{"et":%d,"sizel":%s}`, et, intsJSON(lanes32(uint32(sz))))}
	case "msgbegin":
		name, mt, seq, l, err := bp.ReadMessageBegin(in)
		o = decOut{ok: err == nil, n: l, err: err, val: fmt.Sprintf(`{"mt":%d,"name":%s,"seq":%d}`, mt, inRef([]byte(name), in, 8), seq)}
	}
	return
}

func guardedDecode(kind string, in []byte) (o decOut) {
	old := debug.SetPanicOnFault(true)
	defer debug.SetPanicOnFault(old)
	defer func() {
		if p := recover(); p != nil {
			o = decOut{panicd: true, val: "{}"}
		}
	}()
	return decodeBuffer(kind, in)
}

func decodeStream(kind string, in []byte, r *thrift.BufferReader) (o decOut) {
	defer func() {
		if p := recover(); p != nil {
			o = decOut{panicd: true, val: "{}"}
		}
	}()
	o.val = "{}"
	switch kind {
	case "bool":
		v, err := r.ReadBool()
		o = decOut{ok: err == nil, err: err, val: fmt.Sprintf(`{"b":%v}`, v)}
	case "byte":
		v, err := r.ReadByte()
		o = decOut{ok: err == nil, err: err, val: fmt.Sprintf(`{"i":%d}`, v)}
	case "i16":
		v, err := r.ReadI16()
		o = decOut{ok: err == nil, err: err, val: fmt.Sprintf(`{"i":%d}`, v)}
	case "i32":
		v, err := r.ReadI32()
		o = decOut{ok: err == nil, err: err, val: fmt.Sprintf(`{"i":%d}`, v)}
	case "i64":
		v, err := r.ReadI64()
		o = decOut{ok: err == nil, err: err, val: fmt.Sprintf(`{"lanes":%s}`, intsJSON(lanes64(uint64(v))))}
	case "double":
		v, err := r.ReadDouble()
		o = decOut{ok: err == nil, err: err, val: fmt.Sprintf(`{"lanes":%s}`, intsJSON(lanes64(math.Float64bits(v))))}
	case "string":
		v, err := r.ReadString()
		o = decOut{ok: err == nil, err: err, val: inRef([]byte(v), in, 4)}
	case "binary":
		v, err := r.ReadBinary()
		o = decOut{ok: err == nil, err: err, val: inRef(v, in, 4)}
	case "fieldbegin":
		t, id, err := r.ReadFieldBegin()
		o = decOut{ok: err == nil, err: err, val: fmt.Sprintf(`{"t":%d,"id":%d}`, t, id)}
	case "mapbegin":
		kt, vt, sz, err := r.ReadMapBegin()
		o = decOut{ok: err == nil, err: err, val: fmt.Sprintf(`{"kt":%d,"vt":%d,"sizel":%s}`, kt, vt, intsJSON(lanes32(uint32(sz))))}
	case "listbegin":
		et, sz, err := r.ReadListBegin()
		o = decOut{ok: err == nil, err: err, val: fmt.Sprintf(`{"et":%d,"sizel":%s}`, et, intsJSON(lanes32(uint32(sz))))}
	case "setbegin":
		et, sz, err := r.ReadSetBegin()
		o = decOut{ok: err == nil, err: err, val: fmt.Sprintf(`{"et":%d,"sizel":%s}`, et, intsJSON(lanes32(uint32(sz))))}
	case "msgbegin":
		name, mt, seq, err := r.ReadMessageBegin()
		o = decOut{ok: err == nil, err: err, val: fmt.Sprintf(`{"mt":%d,"name":%s,"seq":%d}`, mt, inRef([]byte(name), in, 8), seq)}
	}
	o.n = int(r.Readn())
	return
}

// declaredStr returns the string length an input declares for string-bearing kinds (allocation guard for the stream reader).
func declaredStr(kind string, in []byte) int64 {
	off := -1
	switch kind {
	case "string", "binary":
		off = 0
	case "msgbegin":
		off = 4
	}
	if off < 0 || len(in) < off+4 {
		return 0
	}
	return int64(int32(uint32(in[off])<<24 | uint32(in[off+1])<<16 | uint32(in[off+2])<<8 | uint32(in[off+3])))
}

func runWireCase(raw json.RawMessage, w *TraceWriter) {
	var c WireCase
	if err := json.Unmarshal(raw, &c); err != nil {
		panic(err)
	}
	var enc []byte
	switch {
	case c.Hex != "":
		enc = hexToBytes(c.Hex)
	case c.Only == "dec":
		enc = silentEncode(&c)
	default:
		enc = c.encode3(w)
	}
	if c.Kind == "fieldstop" {
		return
	}
	in := append([]byte(nil), enc...)
	rng := rand.New(rand.NewSource(int64(len(in))*31 + int64(c.Trail)))
	for i := 0; i < c.Trail; i++ {
		in = append(in, byte(rng.Intn(256)))
	}
	if c.Mut != "" {
		parts := strings.Split(c.Mut, ":")
		switch parts[0] {
		case "cut":
			k, _ := strconv.Atoi(parts[1])
			if k < len(in) {
				in = in[:k]
			}
		case "set":
			pos, _ := strconv.Atoi(parts[1])
			v, _ := strconv.Atoi(parts[2])
			if pos < len(in) {
				in[pos] = byte(v)
			}
		}
	}
	lo, hi := c.payWindow(len(enc))
	if hi > len(in) {
		hi = len(in)
	}
	if lo > hi {
		lo = hi
	}
	inJSON := projectWire(in, lo, hi, c.SSeed)
	// buffer reader
	gin := guardCopy(in) // flush against a PROT_NONE page: an out-of-slice load faults instead of reading neighbours
	if gin == nil {
		gin = in
	}
	o := guardedDecode(c.Kind, gin)
	w.Ev("dec", "api", "buffer", "kind", c.Kind, "frag", "slice", "in", inJSON, "ok", o.ok, "n", o.n, "used", o.n, "val", Raw(o.val),
		"tid", tidOf(o.err), "srcerr", false, "panic", o.panicd)
	// the same decode with the span-cache allocator on (string-bearing kinds take another allocation path)
	if c.Kind == "string" || c.Kind == "binary" || c.Kind == "msgbegin" {
		thrift.SetSpanCache(true)
		o2 := guardedDecode(c.Kind, gin)
		thrift.SetSpanCache(false)
		w.Ev("dec", "api", "buffer", "kind", c.Kind, "frag", "slice+spancache", "in", inJSON, "ok", o2.ok, "n", o2.n, "used", o2.n, "val", Raw(o2.val),
			"tid", tidOf(o2.err), "srcerr", false, "panic", o2.panicd)
	}
	// stream reader under fragmentations (it allocates the declared string length: capped)
	if d := declaredStr(c.Kind, in); d > allocCap && (d > int64(len(in)) || d > 16<<20) {
		return // a declared length the input does not back (an honest multi-MiB value is read like any other)
	}
	for si, sh := range skipChunkShapes {
		if len(in) > 600 && si >= 3 {
			break
		}
		src := &dataSource{data: in, chunks: sh.chunks, wd: sh.wd, fail: sh.fail}
		rd := bufiox.NewDefaultReader(src)
		br := thrift.NewBufferReader(rd)
		o := decodeStream(c.Kind, in, br)
		used := rd.ReadLen()
		w.Ev("dec", "api", "stream", "kind", c.Kind, "frag", sh.name, "in", inJSON, "ok", o.ok, "n", o.n, "used", used, "val", Raw(o.val),
			"tid", tidOf(o.err), "srcerr", wrapsSource(o.err, src.endErr()), "panic", o.panicd)
		br.Recycle()
		rd.Release(nil)
		// the same through somebody else's bufiox.Reader implementation (a tracing wrapper), right after a BufferReader over
		// the library's own reader went back to the pool: nothing of the previous reader may be consulted
		if si < 2 {
			src2 := &dataSource{data: in, chunks: sh.chunks, wd: sh.wd, fail: sh.fail}
			rd2 := &fwdReader{r: bufiox.NewDefaultReader(src2)}
			br2 := thrift.NewBufferReader(rd2)
			o2 := decodeStream(c.Kind, in, br2)
			w.Ev("dec", "api", "stream", "kind", c.Kind, "frag", sh.name+"+foreign-reader", "in", inJSON, "ok", o2.ok, "n", o2.n, "used", rd2.ReadLen(), "val", Raw(o2.val),
				"tid", tidOf(o2.err), "srcerr", wrapsSource(o2.err, src2.endErr()), "panic", o2.panicd)
			br2.Recycle()
			rd2.Release(nil)
		}
		// a live connection: the bytes of the value have arrived, whatever follows has not.  A decode that asks the source
		// for more than the value needs would block there; here the source answers such a request with an error and
		// counts it ("over")
		if si == 0 && o.ok && o.n <= len(in) {
			src4 := &exactSource{dataSource: dataSource{data: in[:o.n], chunks: sh.chunks}}
			rd4 := bufiox.NewDefaultReader(src4)
			br4 := thrift.NewBufferReader(rd4)
			o4 := decodeStream(c.Kind, in, br4)
			w.Ev("dec", "api", "stream", "kind", c.Kind, "frag", sh.name+"+nothing-more-has-arrived", "in", inJSON, "ok", o4.ok, "n", o4.n, "used", rd4.ReadLen(), "val", Raw(o4.val),
				"tid", tidOf(o4.err), "srcerr", false, "panic", o4.panicd, "over", src4.extra > 0)
			br4.Recycle()
			rd4.Release(nil)
		}
		// short values that differ only by a NUL / space before or after (keys of a map, one after the other on ONE
		// reader): each is read for what it is, whatever the reader read just before
		if si == 0 && o.ok && (c.Kind == "string" || c.Kind == "binary") && o.n >= 5 && o.n <= 12 && o.n <= len(in) {
			v := in[4:o.n]
			enc := func(x []byte) []byte { return append([]byte{0, 0, 0, byte(len(x))}, x...) }
			vars := [][]byte{v, append([]byte{0}, v...), v, append(append([]byte(nil), v...), 0), append([]byte{0, 0}, v...), v, append([]byte{' '}, v...), v[:len(v)-1], v}
			var stream []byte
			for _, x := range vars {
				stream = append(stream, enc(x)...)
			}
			rd5 := bufiox.NewDefaultReader(&dataSource{data: stream, chunks: sh.chunks})
			br5 := thrift.NewBufferReader(rd5)
			prev := 0
			for k, x := range vars {
				o5 := decodeStream(c.Kind, enc(x), br5)
				used := rd5.ReadLen()
				w.Ev("dec", "api", "stream", "kind", c.Kind, "frag", fmt.Sprintf("%s+near-doubles-in-a-row#%d", sh.name, k), "in", projectWire(enc(x), 0, 0, c.SSeed), "ok", o5.ok, "n", o5.n-prev, "used", used-prev, "val", Raw(o5.val),
					"tid", tidOf(o5.err), "srcerr", false, "panic", o5.panicd)
				prev = used
				if !o5.ok {
					break
				}
			}
			br5.Recycle()
			rd5.Release(nil)
		}
		// a reader that is not sticky (somebody else's bufiox.Reader over a connection with deadlines): its first call fails
		// with a transient error, the caller retries, and the decode then runs into whatever the source does next.  Every
		// failure carries the error of THAT call: the second one the source's own end, not the time-out seen before it
		if si == 0 {
			src3 := &dataSource{data: in, chunks: sh.chunks, wd: sh.wd, fail: sh.fail}
			rd3 := &flakyReader{fwdReader: fwdReader{r: bufiox.NewDefaultReader(src3)}, failFirst: errTransient}
			br3 := thrift.NewBufferReader(rd3)
			o0 := decodeStream(c.Kind, in, br3)
			first := o0.err != nil && wrapsSource(o0.err, errTransient) && rd3.ReadLen() == 0
			text0 := ""
			if o0.err != nil {
				text0 = o0.err.Error()
			}
			o3 := decodeStream(c.Kind, in, br3)
			used3 := rd3.ReadLen()
			second := wrapsSource(o3.err, src3.endErr())
			br3.Recycle()
			rd3.Release(nil)
			// the errors belong to whoever got them: the reader object goes back to the pool, its next owner fails with
			// an error of its own - the two errors handed out before still say what they said
			br4 := thrift.NewBufferReader(&flakyReader{fwdReader: fwdReader{r: bufiox.NewBytesReader(nil)}, failFirst: errInjected})
			_, e4 := br4.ReadI64()
			br4.Recycle()
			kept := o0.err != nil && wrapsSource(o0.err, errTransient) && o0.err.Error() == text0 && !errors.Is(o0.err, errInjected) &&
				(o3.err == nil || (wrapsSource(o3.err, src3.endErr()) == second && !errors.Is(o3.err, errInjected))) && e4 != nil
			w.Ev("dec", "api", "stream", "kind", c.Kind, "frag", sh.name+"+retry-after-transient-error", "in", inJSON, "ok", o3.ok && first && kept, "n", o3.n, "used", used3, "val", Raw(o3.val),
				"tid", tidOf(o3.err), "srcerr", first && second && kept, "panic", o3.panicd || o0.panicd)
		}
	}
}

var errTransient = errors.New("verif: i/o timeout (transient)")
var errNotYet = errors.New("verif: nothing more has arrived (a real connection would block here)")

// exactSource hands out its data and counts every Read issued after the last byte was handed out
type exactSource struct {
	dataSource
	extra int
}

func (s *exactSource) Read(p []byte) (int, error) {
	if s.pos >= len(s.data) {
		s.extra++
		return 0, errNotYet
	}
	return s.dataSource.Read(p)
}

// flakyReader: a foreign bufiox.Reader whose first call fails with a transient error without consuming anything;
// afterwards it forwards.  Unlike the library's own reader it does not remember the error.
type flakyReader struct {
	fwdReader
	failFirst error
}

func (f *flakyReader) trip() error {
	if e := f.failFirst; e != nil {
		f.failFirst = nil
		return e
	}
	return nil
}
func (f *flakyReader) Next(n int) ([]byte, error) {
	if e := f.trip(); e != nil {
		return nil, e
	}
	return f.fwdReader.Next(n)
}
func (f *flakyReader) ReadBinary(b []byte) (int, error) {
	if e := f.trip(); e != nil {
		return 0, e
	}
	return f.fwdReader.ReadBinary(b)
}
func (f *flakyReader) Peek(n int) ([]byte, error) {
	if e := f.trip(); e != nil {
		return nil, e
	}
	return f.fwdReader.Peek(n)
}
func (f *flakyReader) Skip(n int) error {
	if e := f.trip(); e != nil {
		return e
	}
	return f.fwdReader.Skip(n)
}

// fwdReader is a bufiox.Reader of the harness' own type that forwards to a real one (what a tracing or metering wrapper
// in an application looks like): code that special-cases the library's concrete reader types must not trip over it.
type fwdReader struct{ r bufiox.Reader }

func (f *fwdReader) Next(n int) ([]byte, error)       { return f.r.Next(n) }
func (f *fwdReader) ReadBinary(b []byte) (int, error) { return f.r.ReadBinary(b) }
func (f *fwdReader) Peek(n int) ([]byte, error)       { return f.r.Peek(n) }
func (f *fwdReader) Skip(n int) error                 { return f.r.Skip(n) }
func (f *fwdReader) ReadLen() int                     { return f.r.ReadLen() }
func (f *fwdReader) Release(e error) error            { return f.r.Release(e) }

// silentEncode produces the library's own in-place encoding without recording events (raw material for mutation).
func silentEncode(c *WireCase) []byte {
	cc := *c
	return cc.encode3(newNullTrace())
}

func newNullTrace() *TraceWriter {
	t := &TraceWriter{w: bufio.NewWriter(io.Discard)}
	t.begin(0)
	return t
}

func sigWire(raw json.RawMessage, line string) string {
	why := ""
	if i := strings.Index(line, " // "); i >= 0 {
		why = line[i+4:]
	}
	var c WireCase
	json.Unmarshal(raw, &c)
	m, _, _ := strings.Cut(c.Mut, ":")
	return fmt.Sprintf("wire/%s/%s", why, m)
}

func wireFamily(prop string) *Family {
	return Register(&Family{Name: "wire-" + prop, Spec: "Trace_ThriftWire", Cfg: "Trace_ThriftWire.cfg",
		Run: runWireCase, Sig: sigWire, Env: []string{"VPROP=" + prop}})
}

var (
	famWireC01 = wireFamily("C01")
	famWireC12 = wireFamily("C12")
	famWireC03 = wireFamily("C03")
	famWireC17 = wireFamily("C17")
)

// budgetWriter is a bufiox.Writer that accepts `budget` bytes and then fails every request with `fail`:
// the stream writers must hand that error back (and must succeed when everything fits).
type budgetWriter struct {
	budget, used int
	fail         error
}

var errBudget = errors.New("verif: writer budget exhausted")

func (b *budgetWriter) Malloc(n int) ([]byte, error) {
	if n < 0 || b.used+n > b.budget {
		return nil, b.fail
	}
	b.used += n
	return make([]byte, n), nil
}
func (b *budgetWriter) WriteBinary(bs []byte) (int, error) {
	if b.used+len(bs) > b.budget {
		return 0, b.fail
	}
	b.used += len(bs)
	return len(bs), nil
}
func (b *budgetWriter) WrittenLen() int { return b.used }
func (b *budgetWriter) Flush() error    { return nil }

// refWriter is a bufiox.Writer that takes WriteBinary at its word ("it may be a zero copy write ... bs is not being
// written before calling Flush"): it keeps the caller's slice BY REFERENCE and reads it only at Flush, like a vectored
// connection writer.  Code that reuses a scratch buffer between WriteBinary and Flush shows up as a wrong stream.
type refWriter struct {
	pieces [][]byte
	n      int
	out    []byte
}

func (r *refWriter) Malloc(n int) ([]byte, error) {
	if n < 0 {
		return nil, errors.New("verif: negative count")
	}
	b := make([]byte, n)
	r.pieces = append(r.pieces, b)
	r.n += n
	return b, nil
}
func (r *refWriter) WriteBinary(bs []byte) (int, error) {
	r.pieces = append(r.pieces, bs) // no copy
	r.n += len(bs)
	return len(bs), nil
}
func (r *refWriter) WrittenLen() int { return r.n }
func (r *refWriter) Flush() error {
	for _, p := range r.pieces {
		r.out = append(r.out, p...)
	}
	r.pieces, r.n = nil, 0
	return nil
}
