package main

import (
	"bufio"
	"bytes"
	"encoding/json"
	"errors"
	"fmt"
	"io"
	"math/rand"
	"net"
	"runtime/debug"
	"strings"
	"syscall"
	"unsafe"

	"github.com/bytedance/gopkg/lang/mcache"
	"github.com/cloudwego/gopkg/bufiox"
	"github.com/cloudwego/gopkg/protocol/thrift"
)

// ---------------------------------------------------------------------------
// The "skip" family: one case = (input bytes with segment structure, requested type);
// the runner feeds it to the five skipping facilities under several source shapes and
// logs every outcome in one event, judged by Trace_ThriftSkip under VPROP.

type SkipCase struct {
	T    int     `json:"t"`
	Hex  string  `json:"hex,omitempty"` // literal input
	Gen  *GenRef `json:"gen,omitempty"` // or: regenerate from the seeded generator
	Note string  `json:"note,omitempty"`
}

// GenRef reproduces a generated input: generator name + parameters.
type GenRef struct {
	Kind   string `json:"kind"` // value | nest
	Seed   int64  `json:"seed"`
	Depth  int    `json:"depth,omitempty"`
	Budget int    `json:"budget,omitempty"`
	Big    bool   `json:"big,omitempty"`
	NKind  string `json:"nkind,omitempty"`
	Levels int    `json:"levels,omitempty"`
	Inner  string `json:"inner,omitempty"`
	Trail  int    `json:"trail,omitempty"` // trailing bytes: 0 none, 1 one byte, 2 a second valid value, 3 garbage
	Mut    string `json:"mut,omitempty"`   // "", "cut:<k>", "set:<pos>:<v>", "size:<idx>:<hex8>"
}

func hexToBytes(h string) []byte {
	b := make([]byte, len(h)/2)
	for i := range b {
		fmt.Sscanf(h[2*i:2*i+2], "%02x", &b[i])
	}
	return b
}

type skipRes struct {
	Impl   string `json:"impl"`
	Shape  string `json:"shape"`
	Ok     bool   `json:"ok"`
	N      int    `json:"n"`
	Ret    bool   `json:"ret"`
	Used   int    `json:"used"`
	Tid    int    `json:"tid"`
	Panic  bool   `json:"panic"`
	SrcErr bool   `json:"srcerr"`
	Giant  bool   `json:"giant"` // asked its reader / the pool for far more than the input could ever hold
	Over   bool   `json:"over"`  // asked the source for more after the last byte of the value had been handed out
}

var errGiant = errors.New("verif: giant request refused by the harness")

// shieldReader passes everything through to a real bufiox reader but refuses requests that could never be
// satisfied by the input and would make the real reader allocate the declared size. The refusal is recorded.
type shieldReader struct {
	bufiox.Reader
	limit int
	giant bool
}

func (s *shieldReader) Next(n int) ([]byte, error) {
	if n > s.limit {
		s.giant = true
		return nil, errGiant
	}
	return s.Reader.Next(n)
}
func (s *shieldReader) Peek(n int) ([]byte, error) {
	if n > s.limit {
		s.giant = true
		return nil, errGiant
	}
	return s.Reader.Peek(n)
}
func (s *shieldReader) Skip(n int) error {
	if n > s.limit {
		s.giant = true
		return errGiant
	}
	return s.Reader.Skip(n)
}
func (s *shieldReader) ReadBinary(bs []byte) (int, error) {
	if len(bs) > s.limit {
		s.giant = true
		return 0, errGiant
	}
	return s.Reader.ReadBinary(bs)
}

func tidOf(err error) int {
	var te interface{ TypeId() int32 }
	if err != nil && errors.As(err, &te) {
		return int(te.TypeId())
	}
	return -1
}

const allocCap = 1 << 20 // reader-backed skippers allocate what the input declares

// shieldExtra: how far beyond the input size a request to the underlying reader may go before the shield refuses
// it (the raw sweep lowers it: its inputs are at most 3 bytes long, nothing they declare can be legitimate)
var shieldExtra = allocCap

var guardArena []byte

// guardCopy places b so that it ends exactly at a PROT_NONE page: an out-of-slice load faults.
func guardCopy(b []byte) []byte {
	const pg = 4096
	if guardArena == nil {
		m, err := syscall.Mmap(-1, 0, 34*pg, syscall.PROT_READ|syscall.PROT_WRITE, syscall.MAP_ANON|syscall.MAP_PRIVATE)
		if err != nil {
			return nil
		}
		if syscall.Mprotect(m[33*pg:], syscall.PROT_NONE) != nil || syscall.Mprotect(m[:pg], syscall.PROT_NONE) != nil {
			return nil
		}
		guardArena = m
	}
	if len(b) > 32*pg || len(b) == 0 {
		return nil
	}
	end := 33 * pg
	dst := guardArena[end-len(b) : end : end]
	copy(dst, b)
	return dst
}

// guardCopyFront places b so that it starts exactly after a PROT_NONE page.
func guardCopyFront(b []byte) []byte {
	const pg = 4096
	if guardCopy([]byte{0}) == nil || len(b) > 32*pg || len(b) == 0 {
		return nil
	}
	dst := guardArena[pg : pg+len(b) : pg+len(b)]
	copy(dst, b)
	return dst
}

func protect(res *skipRes, fn func()) {
	old := debug.SetPanicOnFault(true)
	defer debug.SetPanicOnFault(old)
	defer func() {
		if p := recover(); p != nil {
			res.Ok = false
			if _, ok := p.(mcache.GiantMalloc); ok {
				res.Giant = true
			} else {
				res.Panic = true
			}
		}
	}()
	fn()
}

var skipChunkShapes = []struct {
	name   string
	chunks []int
	wd     bool
	fail   error
}{
	{"fit", []int{-1}, false, nil},
	{"fit+eof", []int{-1}, true, nil},
	{"1byte", []int{1}, false, nil},
	{"1byte+eof", []int{1}, true, nil},
	{"3-0-7", []int{3, 0, 7}, true, nil},
	{"fit+err", []int{-1}, false, errInjected},
	{"2byte+unexpectedeof", []int{2}, true, io.ErrUnexpectedEOF},
	{"3byte+wrapped-protocol-exception", []int{3}, false, errWrappedPE},
	{"5byte+typed-source-error", []int{5}, false, errTypedSrc},
	{"4byte+error-wrapping-eof", []int{4}, false, errWrapsEOF},
	{"6byte+operror-eof", []int{6}, true, errOpEOF},
	{"7byte+error-that-is-eof", []int{7}, false, errIsEOF},
}

// source errors that are NOT io.EOF but answer errors.Is(err, io.EOF): what a connection reports when the peer goes away
// in the middle of a frame.  They are the source's own errors like any other: the very value stays on the Unwrap chain
var errWrapsEOF = fmt.Errorf("conn 10.0.0.7:8888: read frame: %w", io.EOF)
var errOpEOF = &net.OpError{Op: "read", Net: "tcp", Err: io.EOF}

type isEOFErr struct{ msg string }

func (e *isEOFErr) Error() string        { return e.msg }
func (e *isEOFErr) Is(target error) bool { return target == io.EOF }

var errIsEOF = &isEOFErr{"stream reset by peer"}

// a source error of a transport layer's own exception type: it exposes TypeId() like the library's exceptions and
// unwraps to the real cause; the stream readers must wrap THIS value, not rebuild something that merely resembles it
type typedSrcErr struct{ cause error }

func (e *typedSrcErr) Error() string { return "transport: frame read timed out" }
func (e *typedSrcErr) TypeId() int32 { return 3 }
func (e *typedSrcErr) Unwrap() error { return e.cause }

var errTypedCause = errors.New("verif: i/o timeout")
var errTypedSrc = &typedSrcErr{cause: errTypedCause}

// wrapsSource: "wrap that reader's error": errors.Is finds it, the very value is on the Unwrap chain, and so is
// whatever it wraps itself
func wrapsSource(err, src error) bool {
	if err == nil || src == nil || !errors.Is(err, src) {
		return false
	}
	onChain := false
	for e := err; e != nil; e = errors.Unwrap(e) {
		if e == src {
			onChain = true
			break
		}
	}
	if !onChain {
		return false
	}
	if c := errors.Unwrap(src); c != nil && !errors.Is(err, c) {
		return false
	}
	return true
}

// a source error that itself wraps a protocol exception (a framing layer below reporting its own decode failure):
// the stream readers must still hand back THIS error (errors.Is), not the exception buried in it
var errWrappedPE = fmt.Errorf("transport: read frame: %w", thrift.NewProtocolException(thrift.INVALID_DATA, "bad magic"))

// runSkippers executes every skipping facility on (b, t). full=false runs only the allocation-free ones.
func runSkippers(b []byte, t int8, full bool, shapes int) []skipRes {
	var out []skipRes
	// 1. thrift.Binary.Skip on the slice, and flush against guard pages
	for _, sh := range []string{"slice", "guard-end", "guard-front"} {
		in := b
		if sh == "guard-end" {
			in = guardCopy(b)
		} else if sh == "guard-front" {
			in = guardCopyFront(b)
		}
		if sh != "slice" && in == nil {
			continue
		}
		r := skipRes{Impl: "binary", Shape: sh, Ret: true}
		protect(&r, func() {
			n, err := thrift.Binary.Skip(in, t)
			r.Ok, r.N, r.Used, r.Tid = err == nil, n, n, tidOf(err)
		})
		out = append(out, r)
	}
	// ... and with the input in an array on the stack of a fresh goroutine (a caller decoding out of a local scratch
	// buffer): deep values make the recursion grow that stack, which MOVES the input while it is being skipped
	if len(b) <= len(stackArr{}) {
		// where the grown stack lands relative to the old one depends on the allocator's state: a few goroutines parked
		// on stacks of various sizes vary it (both directions matter: one makes a stale end address reject everything,
		// the other makes it accept anything)
		parkedSets := []int{0}
		if len(b) >= 90 {
			parkedSets = []int{0, 2, 2, 3, 2}
		}
		for rep, parked := range parkedSets {
			ready, gate := make(chan int, parked), make(chan int)
			for k := 0; k < parked; k++ {
				go burnPark(5+(k*13+rep*7+len(b))%60, ready, gate)
			}
			for k := 0; k < parked; k++ {
				<-ready
			}
			ch := make(chan skipRes, 1)
			go func() { ch <- skipOnStack(b, t) }()
			r := <-ch
			close(gate)
			out = append(out, r)
		}
	}
	// 4. BytesSkipDecoder
	{
		r := skipRes{Impl: "bytesdec", Shape: "slice"}
		protect(&r, func() {
			d := thrift.NewBytesSkipDecoder(b)
			buf, err := d.Next(t)
			d.Release()
			r.Ok, r.N, r.Used, r.Tid = err == nil, len(buf), len(buf), tidOf(err)
			r.Ret = len(buf) <= len(b) && bytes.Equal(buf, b[:len(buf)])
			r.SrcErr = errors.Is(err, io.EOF)
		})
		out = append(out, r)
	}
	// 2./3. BufferReader.Skip and SkipDecoder over the bytes-backed and the io.Reader-backed bufiox reader
	mk := func(sh int) (*shieldReader, string, *dataSource) {
		if sh < 0 {
			return &shieldReader{Reader: bufiox.NewBytesReader(b), limit: len(b) + shieldExtra}, "bytes", nil
		}
		s := skipChunkShapes[sh]
		src := &dataSource{data: b, chunks: s.chunks, wd: s.wd, fail: s.fail}
		return &shieldReader{Reader: bufiox.NewDefaultReader(src), limit: len(b) + shieldExtra}, s.name, src
	}
	for sh := -1; sh < shapes && sh < len(skipChunkShapes); sh++ {
		{
			rd, name, src := mk(sh)
			r := skipRes{Impl: "bufferreader", Shape: name, Ret: true}
			protect(&r, func() {
				br := thrift.NewBufferReader(rd)
				err := br.Skip(t)
				r.Ok, r.N, r.Used, r.Tid = err == nil, int(br.Readn()), rd.ReadLen(), tidOf(err)
				r.SrcErr = wrapsSource(err, srcEnd(src))
				r.Giant = rd.giant
				br.Recycle()
			})
			rd.Release(nil)
			out = append(out, r)
		}
		{
			rd, name, src := mk(sh)
			r := skipRes{Impl: "skipdec", Shape: name}
			protect(&r, func() {
				d := thrift.NewSkipDecoder(rd)
				buf, err := d.Next(t)
				r.Ok, r.N, r.Used, r.Tid = err == nil, len(buf), rd.ReadLen(), tidOf(err)
				r.Ret = len(buf) <= len(b) && bytes.Equal(buf, b[:len(buf)])
				r.SrcErr = wrapsSource(err, srcEnd(src))
				r.Giant = rd.giant
				d.Release()
			})
			rd.Release(nil)
			out = append(out, r)
		}
	}
	// 5. ReaderSkipDecoder over a plain io.Reader: no read-ahead allowed. It allocates what the input
	// declares from the pool, so inputs declaring more than allocCap are not fed to it.
	if !full {
		return out
	}
	for sh := 0; sh < shapes && sh < len(skipChunkShapes); sh++ {
		s := skipChunkShapes[sh]
		src := &dataSource{data: b, chunks: s.chunks, wd: s.wd, fail: s.fail}
		r := skipRes{Impl: "readerdec", Shape: s.name}
		protect(&r, func() {
			// previous life of the pooled decoder object: a source that offers more than Read (io.ByteReader, io.ReaderAt,
			// io.Seeker, io.WriterTo) and is drained; nothing of it may be consulted in the next life
			pd := thrift.NewReaderSkipDecoder(bytes.NewReader(priorLifeBytes))
			pd.Next(thrift.STRUCT)
			pd.Release()
			d := thrift.NewReaderSkipDecoder(src)
			buf, err := d.Next(t)
			r.Ok, r.N, r.Used, r.Tid = err == nil, len(buf), src.pos, tidOf(err)
			r.Ret = len(buf) <= len(b) && bytes.Equal(buf, b[:len(buf)])
			r.SrcErr = wrapsSource(err, src.endErr())
			d.Release()
		})
		out = append(out, r)
	}
	// 6. the exported template over somebody else's SkipDecoderIface: SkipN hands out one scratch window that it
	// OVERWRITES on the next call (the interface allows it: the template does not hold bytes between two SkipN calls)
	{
		r := skipRes{Impl: "tpl-foreign-scratch", Shape: "slice", Ret: true}
		protect(&r, func() {
			sk := &scratchSkipper{in: b}
			err := thrift.NewSkipDecoderTpl(sk).Skip(thrift.TType(t), 64)
			r.Ok, r.N, r.Used, r.Tid = err == nil, sk.pos, sk.pos, tidOf(err)
			r.SrcErr = errors.Is(err, io.EOF)
		})
		out = append(out, r)
	}
	// ... and on a live connection: the bytes of the value have arrived, what follows has not.  A skipper that asks its
	// source for more than the value needs would block there (here the request is answered with an error and counted)
	if n0 := out[0].N; out[0].Ok && n0 > 0 && n0 <= len(b) {
		for k, chunks := range [][]int{{-1}, {1}, {3, 0, 7}} {
			if k >= shapes {
				break
			}
			name := []string{"fit", "1byte", "3-0-7"}[k] + "+nothing-more-has-arrived"
			{
				src := &exactSource{dataSource: dataSource{data: b[:n0], chunks: chunks}}
				rd := bufiox.NewDefaultReader(src)
				r := skipRes{Impl: "bufferreader", Shape: name, Ret: true}
				protect(&r, func() {
					br := thrift.NewBufferReader(rd)
					err := br.Skip(t)
					r.Ok, r.N, r.Used, r.Tid = err == nil, int(br.Readn()), rd.ReadLen(), tidOf(err)
					br.Recycle()
				})
				r.Over = src.extra > 0
				rd.Release(nil)
				out = append(out, r)
			}
			{
				src := &exactSource{dataSource: dataSource{data: b[:n0], chunks: chunks}}
				rd := bufiox.NewDefaultReader(src)
				r := skipRes{Impl: "skipdec", Shape: name}
				protect(&r, func() {
					d := thrift.NewSkipDecoder(rd)
					buf, err := d.Next(t)
					r.Ok, r.N, r.Used, r.Tid = err == nil, len(buf), rd.ReadLen(), tidOf(err)
					r.Ret = len(buf) <= len(b) && bytes.Equal(buf, b[:len(buf)])
					d.Release()
				})
				r.Over = src.extra > 0
				rd.Release(nil)
				out = append(out, r)
			}
			{
				src := &exactSource{dataSource: dataSource{data: b[:n0], chunks: chunks}}
				r := skipRes{Impl: "readerdec", Shape: name}
				protect(&r, func() {
					d := thrift.NewReaderSkipDecoder(src)
					buf, err := d.Next(t)
					r.Ok, r.N, r.Used, r.Tid = err == nil, len(buf), src.pos, tidOf(err)
					r.Ret = len(buf) <= len(b) && bytes.Equal(buf, b[:len(buf)])
					d.Release()
				})
				r.Over = src.extra > 0
				out = append(out, r)
			}
		}
	}
	// ... and over a connection-like source: besides Read it has Len() / Buffered() in the sense connections give
	// them - what is readable RIGHT NOW (here: at most 7 bytes) - not what is still to come.  A fresh decoder object
	// (nothing buffered, nothing allocated) and a pooled one.
	for k := 0; k < 2; k++ {
		src := &connSource{dataSource: dataSource{data: b, chunks: []int{4096, 100, 7}}}
		r := skipRes{Impl: "readerdec", Shape: []string{"conn-len-fresh", "conn-len-pooled"}[k]}
		protect(&r, func() {
			var d *thrift.ReaderSkipDecoder
			if k == 0 {
				d = &thrift.ReaderSkipDecoder{}
				d.Reset(src)
			} else {
				d = thrift.NewReaderSkipDecoder(src)
			}
			buf, err := d.Next(t)
			r.Ok, r.N, r.Used, r.Tid = err == nil, len(buf), src.pos, tidOf(err)
			r.Ret = len(buf) <= len(b) && bytes.Equal(buf, b[:len(buf)])
			r.SrcErr = wrapsSource(err, src.endErr())
			if k == 1 {
				d.Release()
			}
		})
		out = append(out, r)
	}
	return out
}

type stackArr [1536]byte

// skipOnStack copies the input into a local array (it does not escape: thrift.Binary.Skip does not retain its argument)
// and skips it there.  Must run on a fresh goroutine so that the stack is small when the recursion starts.
//
//go:noinline
func skipOnStack(b []byte, t int8) (r skipRes) {
	r = skipRes{Impl: "binary", Shape: "stack-array-fresh-goroutine", Ret: true}
	defer func() {
		if p := recover(); p != nil {
			r.Ok, r.Panic = false, true
		}
	}()
	var arr stackArr
	n := copy(arr[:], b)
	for i := n; i < len(arr); i++ {
		arr[i] = 0
	}
	k, err := thrift.Binary.Skip(arr[:n], t)
	r.Ok, r.N, r.Used, r.Tid = err == nil, k, k, tidOf(err)
	return r
}

// burnPark recurses d levels (growing its goroutine's stack accordingly), reports and parks until the gate opens
//
//go:noinline
func burnPark(d int, ready chan<- int, gate <-chan int) int {
	var pad [256]byte
	pad[d%256] = byte(d)
	if d == 0 {
		ready <- 1
		<-gate
		return int(pad[0])
	}
	return burnPark(d-1, ready, gate) + int(pad[d%256])
}

// scratchSkipper: a SkipDecoderIface that copies the next n bytes of its input into ONE scratch buffer and returns that
// (what an implementation over a ring buffer or a cgo reader does)
type scratchSkipper struct {
	in      []byte
	pos     int
	scratch []byte
}

func (s *scratchSkipper) SkipN(n int) ([]byte, error) {
	if n < 0 || n > len(s.in)-s.pos {
		return nil, io.EOF
	}
	if cap(s.scratch) < n {
		s.scratch = make([]byte, 0, n+64)
	}
	for i := range s.scratch[:cap(s.scratch)] { // the previous window is gone
		s.scratch[:cap(s.scratch)][i] = 0xDD
	}
	s.scratch = s.scratch[:n]
	copy(s.scratch, s.in[s.pos:s.pos+n])
	s.pos += n
	return s.scratch, nil
}

// connSource: an io.Reader with the extra methods of a connection / buffered stream
type connSource struct{ dataSource }

func (s *connSource) now() int {
	n := len(s.data) - s.pos
	if n > 7 {
		n = 7
	}
	return n
}
func (s *connSource) Len() int       { return s.now() }
func (s *connSource) Buffered() int  { return s.now() }
func (s *connSource) Available() int { return s.now() }

// struct{1: bool true; 2: byte 7; 3: struct{}}: one-byte pieces everywhere
var priorLifeBytes = []byte{2, 0, 1, 1, 3, 0, 2, 7, 12, 0, 3, 0, 0}

// buildSkipInput materialises the input of a case.
func buildSkipInput(cs *SkipCase) *SegBuf {
	if cs.Gen == nil {
		return &SegBuf{b: hexToBytes(cs.Hex)}
	}
	return cs.Gen.build(int8(cs.T))
}

func runSkipCase(raw json.RawMessage, w *TraceWriter) {
	var cs SkipCase
	if err := json.Unmarshal(raw, &cs); err != nil {
		panic(err)
	}
	in := buildSkipInput(&cs)
	t := int8(cs.T)
	full := declaredMax(in.b, t) <= allocCap
	shapes := len(skipChunkShapes)
	if len(in.b) > 300 {
		shapes = 3 // 1-byte chunking of long inputs adds time, not behaviour
	}
	res := runSkippers(in.b, t, full, shapes)
	rb, _ := json.Marshal(res)
	w.Ev("reset")
	w.Ev("skip", "t", cs.T, "len", len(in.b), "in", in.JSON(), "res", Raw(rb))
}

func sigSkip(raw json.RawMessage, line string) string {
	why := ""
	if i := strings.Index(line, " // "); i >= 0 {
		why = line[i+4:]
	}
	impl, _, _ := strings.Cut(why, " ")
	var cs SkipCase
	json.Unmarshal(raw, &cs)
	note := cs.Note
	if cs.Gen != nil && note == "" {
		note = cs.Gen.Kind
		if cs.Gen.Mut != "" {
			m, _, _ := strings.Cut(cs.Gen.Mut, ":")
			note += "+" + m
		}
	}
	if i := strings.IndexAny(note, " <{"); i >= 0 {
		note = note[:i] // drop type parameters: one signature per failing shape, not per type combination
	}
	ref := ""
	if i := strings.Index(why, "ref="); i >= 0 {
		ref = why[i:]
	}
	tc := "known-type"
	if fixedSize(int8(cs.T)) == 0 && (cs.T < 11 || cs.T > 15) {
		tc = "unknown-type"
	}
	return fmt.Sprintf("skip/%s/%s/%s/%s", impl, tc, note, ref)
}

func skipFamily(prop string) *Family {
	return Register(&Family{Name: "skip-" + prop, Spec: "Trace_ThriftSkip", Cfg: "Trace_ThriftSkip.cfg",
		Run: runSkipCase, Sig: sigSkip, Env: []string{"VPROP=" + prop}})
}

var (
	famSkipC02 = skipFamily("C02")
	famSkipC08 = skipFamily("C08")
	famSkipC03 = skipFamily("C03")
	famSkipC17 = skipFamily("C17")
)

func srcEnd(s *dataSource) error {
	if s == nil {
		return io.EOF // the bytes-backed reader ends with io.EOF
	}
	return s.endErr()
}

var _ = unsafe.Pointer(nil)

// ---- sessions: one instance skips a sequence of values ------------------------------------------

type SkipSeqCase struct {
	Seed int64 `json:"seed"`
	N    int   `json:"n"`
	Big  bool  `json:"big,omitempty"`
	Fail bool  `json:"fail,omitempty"` // insert a failing call (on a private copy) before the session to exercise reuse after failure
}

type seqRes struct {
	Impl  string `json:"impl"`
	Shape string `json:"shape"`
	Oks   []bool `json:"oks"`
	Ns    []int  `json:"ns"`
	Rets  []bool `json:"rets"`
	Panic bool   `json:"panic"`
}

func runSkipSeqCase(raw json.RawMessage, w *TraceWriter) {
	var c SkipSeqCase
	if err := json.Unmarshal(raw, &c); err != nil {
		panic(err)
	}
	rng := rand.New(rand.NewSource(c.Seed))
	s := &SegBuf{}
	var ts []int
	var offs []int
	for i := 0; i < c.N; i++ {
		t := allTypes[rng.Intn(len(allTypes))]
		ts = append(ts, int(t))
		offs = append(offs, s.Len())
		vg := &valGen{rng: rng, budget: 3 + rng.Intn(12), bigStr: c.Big}
		vg.Value(s, t, 1+rng.Intn(3))
	}
	offs = append(offs, s.Len())
	b := s.b
	var out []seqRes
	run := func(impl, shape string, next func(k int, t int8) ([]byte, int, error)) {
		r := seqRes{Impl: impl, Shape: shape}
		func() {
			defer func() {
				if p := recover(); p != nil {
					r.Panic = true
				}
			}()
			for k, t := range ts {
				buf, n, err := next(k, int8(t))
				r.Oks = append(r.Oks, err == nil)
				r.Ns = append(r.Ns, n)
				r.Rets = append(r.Rets, buf == nil || (offs[k]+len(buf) <= len(b) && bytes.Equal(buf, b[offs[k]:offs[k]+len(buf)])))
				if err != nil {
					break
				}
			}
		}()
		out = append(out, r)
	}
	// BytesSkipDecoder (also after Reset, and after a failed Next on other data when c.Fail)
	{
		d := thrift.NewBytesSkipDecoder([]byte{11, 0, 0})
		if c.Fail {
			d.Next(thrift.STRING) // fails: truncated
		}
		d.Reset(b)
		run("bytesdec", "reset", func(k int, t int8) ([]byte, int, error) { x, err := d.Next(t); return x, len(x), err })
		d.Release()
	}
	for si, sh := range skipChunkShapes[:5] {
		if len(b) > 3000 && si >= 3 {
			break
		}
		{
			// (with c.Fail: the stream starts with values the decoder has to REJECT on grammar grounds - an unknown type tag, a
			// negative size, nesting beyond the limit; the caller skips each frame on the reader - the decoder only peeks -
			// and goes on with the same decoder instance)
			var junk [][]byte
			if c.Fail {
				deep, _ := nestValue("struct", 70, "empty")
				junk = [][]byte{{8, 0, 1, 0, 0, 0, 7, 99, 0, 2, 1, 0}, {11, 0, 1, 0xff, 0xff, 0xff, 0xfe, 0}, deep.b}
			}
			var data []byte
			for _, j := range junk {
				data = append(data, j...)
			}
			data = append(data, b...)
			src := &dataSource{data: data, chunks: sh.chunks, wd: sh.wd}
			rd := bufiox.NewDefaultReader(src)
			d := thrift.NewSkipDecoder(rd)
			for _, j := range junk {
				if _, err := d.Next(thrift.STRUCT); err == nil {
					break // (judged by C08; here the values behind it are what matters)
				}
				rd.Skip(len(j))
				rd.Release(nil)
			}
			last := rd.ReadLen()
			run("skipdec", sh.name, func(k int, t int8) ([]byte, int, error) {
				x, err := d.Next(t)
				cp := append([]byte(nil), x...) // the result is valid until Release: copy first
				n := rd.ReadLen() - last
				last = rd.ReadLen()
				if k%2 == 1 {
					rd.Release(nil)
					last = 0
				}
				return cp, n, err
			})
			d.Release()
		}
		{
			src := &dataSource{data: b, chunks: sh.chunks, wd: sh.wd}
			// first a source that offers more than Read (bytes.Reader / bufio.Reader), then Reset to the plain one
			var d *thrift.ReaderSkipDecoder
			if len(b)%2 == 0 {
				d = thrift.NewReaderSkipDecoder(bytes.NewReader(priorLifeBytes))
			} else {
				d = thrift.NewReaderSkipDecoder(bufio.NewReader(bytes.NewReader(priorLifeBytes)))
			}
			d.Next(thrift.STRUCT)
			d.Reset(src)
			if c.Fail {
				d.Reset(&dataSource{data: []byte{11, 0, 0}})
				d.Next(thrift.STRING)
				d.Reset(src)
			}
			last := 0
			run("readerdec", sh.name, func(k int, t int8) ([]byte, int, error) {
				x, err := d.Next(t)
				n := src.pos - last
				last = src.pos
				return append([]byte(nil), x...), n, err
			})
			d.Release()
		}
		{
			src := &dataSource{data: b, chunks: sh.chunks, wd: sh.wd}
			rd := bufiox.NewDefaultReader(src)
			br := thrift.NewBufferReader(rd)
			last := 0
			run("bufferreader", sh.name, func(k int, t int8) ([]byte, int, error) {
				err := br.Skip(t)
				n := rd.ReadLen() - last
				last = rd.ReadLen()
				return nil, n, err
			})
			br.Recycle()
		}
	}
	{
		off := 0
		run("binary", "slice", func(k int, t int8) ([]byte, int, error) {
			n, err := thrift.Binary.Skip(b[off:], t)
			off += n
			return nil, n, err
		})
	}
	rb, _ := json.Marshal(out)
	w.Ev("skipseq", "ts", ts, "in", s.JSON(), "res", Raw(rb))
}

var famSkipSeq = Register(&Family{Name: "skipseq-C02", Spec: "Trace_ThriftSkip", Cfg: "Trace_ThriftSkip.cfg",
	Run: runSkipSeqCase, Env: []string{"VPROP=C02"},
	Sig: func(raw json.RawMessage, line string) string {
		why := ""
		if i := strings.Index(line, " // "); i >= 0 {
			why = line[i+4:]
		}
		impl, _, _ := strings.Cut(why, " ")
		return "skipseq/" + impl
	}})

// the same sessions under C08: a decoder that has just REJECTED a value (unknown type tag, negative size, depth) is
// used again on the same stream; what it accepts and how far it reads afterwards is judged by the same reference
var famSkipSeqC08 = Register(&Family{Name: "skipseq-C08", Spec: "Trace_ThriftSkip", Cfg: "Trace_ThriftSkip.cfg",
	Run: runSkipSeqCase, Env: []string{"VPROP=C02"},
	Sig: func(raw json.RawMessage, line string) string {
		why := ""
		if i := strings.Index(line, " // "); i >= 0 {
			why = line[i+4:]
		}
		impl, _, _ := strings.Cut(why, " ")
		return "skipseq-after-rejection/" + impl
	}})

func skipSeqCases(c *Ctx, n int) []json.RawMessage {
	var out []json.RawMessage
	rng := rand.New(rand.NewSource(c.Seed*48271 + 202))
	for i := 0; i < n; i++ {
		out = append(out, mustJSON(SkipSeqCase{Seed: rng.Int63(), N: 2 + rng.Intn(5), Big: i%5 == 0, Fail: i%3 == 0}))
	}
	return out
}

// ---- the template's SkipN protocol (SkipMachine.tla) -------------------------------------------------

// recBackend is a recording SkipDecoderIface over a byte slice.
type recBackend struct {
	b     []byte
	pos   int
	calls []int
}

func (r *recBackend) SkipN(n int) ([]byte, error) {
	r.calls = append(r.calls, n)
	if n < 0 || r.pos+n > len(r.b) {
		return nil, io.EOF
	}
	out := r.b[r.pos : r.pos+n]
	r.pos += n
	return out, nil
}

func runTplCase(raw json.RawMessage, w *TraceWriter) {
	var cs SkipCase
	if err := json.Unmarshal(raw, &cs); err != nil {
		panic(err)
	}
	in := buildSkipInput(&cs)
	rb := &recBackend{b: in.b}
	ok := false
	func() {
		defer func() { recover() }()
		ok = thrift.NewSkipDecoderTpl(rb).Skip(int8(cs.T), 64) == nil
	}()
	calls := rb.calls
	for i, c := range calls { // sizes beyond the input are all "short": clamp so that they fit TLC's integers
		if c > len(in.b)+1 {
			calls[i] = len(in.b) + 1
		}
	}
	if calls == nil {
		calls = []int{}
	}
	w.Ev("tpl", "t", cs.T, "in", in.JSON(), "calls", calls, "ok", ok)
}

var famTpl = Register(&Family{Name: "tpl", Spec: "Trace_SkipMachine", Cfg: "Trace_SkipMachine.cfg", Run: runTplCase,
	Sig: func(raw json.RawMessage, line string) string { return "tpl/verdict" }})

// ---- ReaderSkipDecoder buffer model (implementation level, via the verif hook) -------------------------

func runRdecCase(raw json.RawMessage, w *TraceWriter) {
	var c SkipSeqCase
	if err := json.Unmarshal(raw, &c); err != nil {
		panic(err)
	}
	rng := rand.New(rand.NewSource(c.Seed))
	s := &SegBuf{}
	var ts []int
	for i := 0; i < c.N; i++ {
		t := allTypes[rng.Intn(len(allTypes))]
		ts = append(ts, int(t))
		vg := &valGen{rng: rng, budget: 3 + rng.Intn(12), bigStr: c.Big}
		vg.Value(s, t, 1+rng.Intn(3))
	}
	src := &dataSource{data: s.b, chunks: []int{1 + rng.Intn(5000)}, wd: c.Fail}
	d := thrift.NewReaderSkipDecoder(src)
	_, l0, c0 := d.VerifState()
	var states []string
	for _, t := range ts {
		if _, err := d.Next(int8(t)); err != nil {
			break
		}
		n, bl, bc := d.VerifState()
		states = append(states, fmt.Sprintf("[%d,%d,%d]", n, bl, bc))
	}
	d.Release()
	if len(states) != len(ts) {
		return // judged by the C02/C08 families; the buffer model is defined for successful sessions
	}
	w.Ev("rdec", "ts", ts, "in", s.JSON(), "init", []int{l0, c0}, "states", Raw("["+strings.Join(states, ",")+"]"))
}

var famRdec = Register(&Family{Name: "rdec", Spec: "Trace_SkipMachine", Cfg: "Trace_SkipMachine.cfg", Run: runRdecCase,
	Sig: func(raw json.RawMessage, line string) string { return "rdec/buffer" }})
