// vcheck: conformance harness binding the TLA+ specifications in /verif/spec to cloudwego/gopkg.
package main

import (
	"fmt"
	"os"
	"sort"
)

var checks = map[string]func(*Ctx){}

func main() {
	if len(os.Args) < 2 {
		fmt.Println("usage: vcheck <Cxx> [--tier quick|thorough] [--replay file]")
		os.Exit(2)
	}
	prop := os.Args[1]
	if len(os.Args) >= 3 && os.Args[2] == "--stress-child" {
		stressChild() // race-detector build of the C14 stress driver (no TLC, no tracing)
	}
	tier := os.Getenv("VERIF_TIER")
	if tier == "" {
		tier = "quick"
	}
	replay := ""
	for i := 2; i < len(os.Args); i++ {
		switch os.Args[i] {
		case "--tier":
			if i+1 < len(os.Args) {
				tier = os.Args[i+1]
				i++
			}
		case "--replay":
			if i+1 < len(os.Args) {
				replay = os.Args[i+1]
				i++
			}
		}
	}
	if tier != "quick" && tier != "thorough" {
		tier = "quick"
	}
	fn := checks[prop]
	if fn == nil {
		var ks []string
		for k := range checks {
			ks = append(ks, k)
		}
		sort.Strings(ks)
		fmt.Println("unknown check", prop, "; known:", ks)
		os.Exit(2)
	}
	ctx := NewCtx(prop, tier)
	if replay != "" {
		ctx.Replay(replay)
		ctx.Finish()
	}
	fn(ctx)
	ctx.Finish()
}
