// vcheck: conformance harness binding the TLA+ specifications in /verif/spec to cloudwego/gopkg.
package main

import (
	"fmt"
	"os"
	"sort"
	"strconv"
	"strings"
	"syscall"
	"time"
)

var checks = map[string]func(*Ctx){}

func main() {
	// Fresh goroutines must start with the minimum stack (not with the process' running average): the stack-resident
	// input probes (skipOnStack) need the recursion of the code under test to GROW the stack, deterministically.
	// The setting is read by the runtime at start-up, so the process re-executes itself once with it.
	if !strings.Contains(os.Getenv("GODEBUG"), "adaptivestackstart=") {
		if self, err := os.Executable(); err == nil {
			gd := os.Getenv("GODEBUG")
			if gd != "" {
				gd += ","
			}
			os.Setenv("GODEBUG", gd+"adaptivestackstart=0")
			syscall.Exec(self, os.Args, os.Environ()) // returns only on failure: carry on without the setting
		}
	}
	if len(os.Args) < 2 {
		fmt.Println("usage: vcheck <Cxx> [--tier quick|thorough] [--replay file]")
		os.Exit(2)
	}
	prop := os.Args[1]
	if len(os.Args) >= 5 && os.Args[2] == "--deepchain-child" {
		n, _ := strconv.Atoi(os.Args[4])
		deepChainChild(os.Args[3], n) // one multi-million-level nesting chain through every skipper (C03 monitor)
	}
	if len(os.Args) >= 3 && os.Args[2] == "--stress-child" {
		stressChild() // race-detector build of the C14 stress driver (no TLC, no tracing)
	}
	tier := os.Getenv("VERIF_TIER")
	if tier == "" {
		tier = "quick"
	}
	replay := ""
	for i := 2; i < len(os.Args); i++ {
		switch os.Args[i] {
		case "--tier":
			if i+1 < len(os.Args) {
				tier = os.Args[i+1]
				i++
			}
		case "--replay":
			if i+1 < len(os.Args) {
				replay = os.Args[i+1]
				i++
			}
		}
	}
	if tier != "quick" && tier != "thorough" {
		tier = "quick"
	}
	fn := checks[prop]
	if fn == nil {
		var ks []string
		for k := range checks {
			ks = append(ks, k)
		}
		sort.Strings(ks)
		fmt.Println("unknown check", prop, "; known:", ks)
		os.Exit(2)
	}
	ctx := NewCtx(prop, tier)
	// overall deadline: a check that hangs outside a watched driver case (a Go-side sweep spinning inside the library)
	// ends with "no verdict" instead of never ending (VERIF_CHECK_DEADLINE seconds; default 40 min quick, 4 h thorough)
	go func() {
		d := 40 * time.Minute
		if tier == "thorough" {
			d = 4 * time.Hour
		}
		if v, err := strconv.Atoi(os.Getenv("VERIF_CHECK_DEADLINE")); err == nil && v > 0 {
			d = time.Duration(v) * time.Second
		}
		time.Sleep(d)
		fmt.Printf("INFRA-ERROR: check %s exceeded its overall deadline of %s\nRESULT %s: infrastructure error(s); no verdict\n", prop, d, prop)
		os.Exit(2)
	}()
	if replay != "" {
		ctx.Replay(replay)
		ctx.Finish()
	}
	fn(ctx)
	ctx.Finish()
}
