package main

import (
	"bufio"
	"bytes"
	"context"
	"encoding/json"
	"fmt"
	"hash/fnv"
	"io"
	"os"
	"os/exec"
	"path/filepath"
	"regexp"
	"sort"
	"strconv"
	"strings"
	"sync"
	"sync/atomic"
	"time"
)

const (
	verifRoot = "/verif"
	tlaJars   = "/opt/veriftools/tla/tla2tools.jar:/opt/veriftools/tla/CommunityModules-deps.jar"
)

// Ctx carries one check invocation.
type Ctx struct {
	Prop    string
	Tier    string
	Seed    int64
	Work    string
	Started time.Time

	mu         sync.Mutex
	states     int64
	trans      int64
	mcRuns     []map[string]interface{}
	traces     int64
	events     int64
	evals      int64
	distinct   map[string]struct{}
	drift      int64
	samples    []interface{}
	extra      map[string]interface{}
	assume     []string
	rule       string
	violations []Violation
	known      []string
	infraErr   []string
	tlcSeq     int
	level      string
	corrupt    func(w *TraceWriter)
}

// Violation is a confirmed disagreement between the real code and the abstract specification.
type Violation struct {
	Sig    string
	What   string
	Replay string
}

func NewCtx(prop, tier string) *Ctx {
	seed := int64(1)
	if s := os.Getenv("VERIF_SEED"); s != "" {
		if v, err := strconv.ParseInt(s, 10, 64); err == nil {
			seed = v
		}
	}
	work := filepath.Join(verifRoot, ".work", fmt.Sprintf("%s-%d", prop, os.Getpid()))
	os.RemoveAll(work)
	if err := os.MkdirAll(filepath.Join(work, "spec"), 0o755); err != nil {
		fmt.Println("INFRA-ERROR: cannot create work dir:", err)
		os.Exit(2)
	}
	// private copy of the specifications: TLC litters its working directory
	ents, _ := os.ReadDir(filepath.Join(verifRoot, "spec"))
	for _, e := range ents {
		if e.IsDir() {
			continue
		}
		b, err := os.ReadFile(filepath.Join(verifRoot, "spec", e.Name()))
		if err == nil {
			os.WriteFile(filepath.Join(work, "spec", e.Name()), b, 0o644)
		}
	}
	return &Ctx{Prop: prop, Tier: tier, Seed: seed, Work: work, Started: time.Now(),
		distinct: map[string]struct{}{}, extra: map[string]interface{}{}, level: "model_checking", assume: []string{}, known: []string{}}
}

func (c *Ctx) Thorough() bool { return c.Tier == "thorough" }

// Pick returns q in the quick tier and t in the thorough tier.
func (c *Ctx) Pick(q, t int) int {
	if c.Thorough() {
		return t
	}
	return q
}

func (c *Ctx) PickInts(q, t []int) []int {
	if c.Thorough() {
		return t
	}
	return q
}

func (c *Ctx) Infra(format string, a ...interface{}) {
	c.mu.Lock()
	c.infraErr = append(c.infraErr, fmt.Sprintf(format, a...))
	c.mu.Unlock()
	fmt.Printf("INFRA-ERROR: "+format+"\n", a...)
}

func (c *Ctx) Assume(s string) { c.assume = append(c.assume, s) }
func (c *Ctx) Extra(k string, v interface{}) {
	c.mu.Lock()
	c.extra[k] = v
	c.mu.Unlock()
}
func (c *Ctx) AddExtraCount(k string, n int64) {
	c.mu.Lock()
	if v, ok := c.extra[k].(int64); ok {
		c.extra[k] = v + n
	} else {
		c.extra[k] = n
	}
	c.mu.Unlock()
}
func (c *Ctx) Sample(v interface{}) {
	c.mu.Lock()
	if len(c.samples) < 8 {
		c.samples = append(c.samples, v)
	}
	c.mu.Unlock()
}
func (c *Ctx) Distinct(key string) {
	c.mu.Lock()
	c.distinct[key] = struct{}{}
	c.mu.Unlock()
}
func (c *Ctx) AddEvals(n int64) {
	c.mu.Lock()
	c.evals += n
	c.mu.Unlock()
}

// ---------------------------------------------------------------------------
// TLC

type TLCResult struct {
	Generated int64
	Distinct  int64
	Depth     int
	Completed bool // "Model checking completed. No error has been found."
	Violated  string
	Prints    []string // PrintT output lines (strings, unquoted)
	Output    string
	Wall      float64
}

var (
	reStates = regexp.MustCompile(`(\d+) states generated, (\d+) distinct states found`)
	reDepth  = regexp.MustCompile(`depth of the complete state graph search is (\d+)`)
	reInv    = regexp.MustCompile(`Invariant (\S+) is violated|Temporal properties were violated|Action property (\S+) is violated|Error: (.*)`)
)

// TLCOpts configures one TLC run.
type TLCOpts struct {
	Module     string
	Cfg        string
	Workers    int
	HeapMB     int
	Env        []string
	Timeout    time.Duration
	ParallelGC bool
	Simulate   string // e.g. "num=1000" ; adds -simulate
	Depth      int
	Extra      []string
}

func (c *Ctx) RunTLC(o TLCOpts) (*TLCResult, error) {
	c.mu.Lock()
	c.tlcSeq++
	seq := c.tlcSeq
	c.mu.Unlock()
	if o.Workers == 0 {
		o.Workers = 1
	}
	if o.HeapMB == 0 {
		o.HeapMB = 3000
	}
	if o.Timeout == 0 {
		o.Timeout = 20 * time.Minute
	}
	meta := filepath.Join(c.Work, fmt.Sprintf("meta-%d", seq))
	gc := "-XX:+UseParallelGC"
	if o.Workers == 1 && !o.ParallelGC {
		gc = "-XX:+UseSerialGC" // many single-worker JVMs run side by side: parallel GC threads only fight each other (4x slower, measured)
	}
	jtmp := meta + "-tmp" // TLC and SANY leave tlc-* / SANY* directories in java.io.tmpdir: keep them out of /tmp
	os.MkdirAll(jtmp, 0o755)
	defer os.RemoveAll(jtmp)
	args := []string{gc, fmt.Sprintf("-Xmx%dm", o.HeapMB), "-Xss512m", "-Djava.io.tmpdir=" + jtmp, "-cp", tlaJars, "tlc2.TLC",
		"-workers", strconv.Itoa(o.Workers), "-metadir", meta, "-noGenerateSpecTE", "-seed", strconv.FormatInt(c.Seed, 10)}
	if o.Cfg != "" {
		args = append(args, "-config", o.Cfg)
	}
	if o.Simulate != "" {
		args = append(args, "-simulate", o.Simulate)
	}
	if o.Depth > 0 {
		args = append(args, "-depth", strconv.Itoa(o.Depth))
	}
	args = append(args, o.Extra...)
	args = append(args, o.Module)
	cctx, cancel := context.WithTimeout(context.Background(), o.Timeout)
	defer cancel()
	cmd := exec.CommandContext(cctx, "java", args...)
	cmd.Dir = filepath.Join(c.Work, "spec")
	cmd.Env = append(os.Environ(), o.Env...)
	var out bytes.Buffer
	cmd.Stdout = &out
	cmd.Stderr = &out
	t0 := time.Now()
	err := cmd.Run()
	res := &TLCResult{Output: out.String(), Wall: time.Since(t0).Seconds()}
	os.RemoveAll(meta)
	if cctx.Err() == context.DeadlineExceeded {
		return res, fmt.Errorf("TLC timed out after %v on %s", o.Timeout, o.Module)
	}
	sc := bufio.NewScanner(strings.NewReader(res.Output))
	sc.Buffer(make([]byte, 1<<20), 1<<26)
	for sc.Scan() {
		ln := sc.Text()
		if m := reStates.FindStringSubmatch(ln); m != nil {
			res.Generated, _ = strconv.ParseInt(m[1], 10, 64)
			res.Distinct, _ = strconv.ParseInt(m[2], 10, 64)
		}
		if m := reDepth.FindStringSubmatch(ln); m != nil {
			res.Depth, _ = strconv.Atoi(m[1])
		}
		if strings.Contains(ln, "Model checking completed. No error has been found.") {
			res.Completed = true
		}
		if strings.HasPrefix(ln, "\"") && strings.HasSuffix(ln, "\"") && len(ln) >= 2 {
			if s, e := strconv.Unquote(ln); e == nil {
				res.Prints = append(res.Prints, s)
			} else {
				res.Prints = append(res.Prints, ln[1:len(ln)-1])
			}
		}
		if res.Violated == "" {
			if m := reInv.FindStringSubmatch(ln); m != nil {
				res.Violated = strings.TrimSpace(ln)
			}
		}
	}
	if o.Simulate != "" && err == nil && res.Violated == "" {
		res.Completed = true
	}
	if err != nil && res.Violated == "" {
		res.Violated = "TLC exited with " + err.Error()
	}
	return res, nil
}

// MC model-checks a design module; any failure is an infrastructure/spec error (exit 2), never a violation.
func (c *Ctx) MC(module, cfg string, workers int) *TLCResult {
	if os.Getenv("VERIF_SKIP_MC") == "1" { // development aid only
		return &TLCResult{}
	}
	res, err := c.RunTLC(TLCOpts{Module: module, Cfg: cfg, Workers: workers, HeapMB: 8000})
	if err != nil {
		c.Infra("%v", err)
		return res
	}
	if !res.Completed || res.Violated != "" {
		c.Infra("TLC did not verify %s/%s: %s\n%s", module, cfg, res.Violated, tail(res.Output, 40))
		return res
	}
	c.mu.Lock()
	c.states += res.Distinct
	c.trans += res.Generated
	c.mcRuns = append(c.mcRuns, map[string]interface{}{"module": module, "cfg": cfg, "distinct_states": res.Distinct,
		"states_generated": res.Generated, "depth": res.Depth, "wall_s": round1(res.Wall)})
	c.mu.Unlock()
	fmt.Printf("MC %s %s: %d generated, %d distinct, depth %d, %.1fs\n", module, cfg, res.Generated, res.Distinct, res.Depth, res.Wall)
	return res
}

// Apalache runs the symbolic model checker on one query (base case, inductive step, or a probe that must fail).
// expectViolation: the query is a negative control / non-vacuity probe and has to end with a counterexample.
func (c *Ctx) Apalache(module, what string, expectViolation bool, args ...string) {
	if os.Getenv("VERIF_SKIP_MC") == "1" { // development aid only
		return
	}
	c.mu.Lock()
	c.tlcSeq++
	seq := c.tlcSeq
	c.mu.Unlock()
	outDir := filepath.Join(c.Work, fmt.Sprintf("apalache-%d", seq))
	full := append([]string{"900", "apalache-mc", "check", "--out-dir=" + outDir, "--run-dir=" + outDir, "--output-traces=false"}, args...)
	full = append(full, module)
	cmd := exec.Command("timeout", full...)
	cmd.Dir = filepath.Join(c.Work, "spec")
	atmp := outDir + "-tmp"
	os.MkdirAll(atmp, 0o755)
	cmd.Env = append(os.Environ(), "TMPDIR="+atmp) // apalache-mc makes its SANY* directory with mktemp -t
	var out bytes.Buffer
	cmd.Stdout = &out
	cmd.Stderr = &out
	t0 := time.Now()
	cmd.Run()
	os.RemoveAll(outDir)
	os.RemoveAll(atmp)
	o := out.String()
	ok := strings.Contains(o, "The outcome is: NoError") && strings.Contains(o, "EXITCODE: OK")
	viol := strings.Contains(o, "The outcome is: Error") && strings.Contains(o, "EXITCODE: ERROR (12)")
	if (expectViolation && !viol) || (!expectViolation && !ok) {
		c.Infra("Apalache %s (%s): unexpected outcome\n%s", module, what, tail(o, 30))
		return
	}
	c.mu.Lock()
	c.mcRuns = append(c.mcRuns, map[string]interface{}{"module": module, "tool": "apalache", "query": what, "args": strings.Join(args, " "),
		"outcome": map[bool]string{true: "counterexample (expected)", false: "no error"}[expectViolation], "wall_s": round1(time.Since(t0).Seconds())})
	c.mu.Unlock()
	fmt.Printf("APALACHE %s %s: %s, %.1fs\n", module, what, map[bool]string{true: "counterexample as expected", false: "holds"}[expectViolation], time.Since(t0).Seconds())
}

// TLAPS runs the TLA+ proof system on a proof module. expectFailure: a negative control whose assumptions describe a
// wrong design; at least one obligation has to stay unproved.
func (c *Ctx) TLAPS(module, what string, expectFailure bool) {
	if os.Getenv("VERIF_SKIP_MC") == "1" { // development aid only
		return
	}
	c.mu.Lock()
	c.tlcSeq++
	seq := c.tlcSeq
	c.mu.Unlock()
	dir := filepath.Join(c.Work, fmt.Sprintf("tlaps-%d", seq))
	os.MkdirAll(dir, 0o755)
	// tlapm writes its cache next to the module: work on a private copy of the specification directory
	ents, _ := os.ReadDir(filepath.Join(c.Work, "spec"))
	for _, e := range ents {
		if strings.HasSuffix(e.Name(), ".tla") {
			if b, err := os.ReadFile(filepath.Join(c.Work, "spec", e.Name())); err == nil {
				os.WriteFile(filepath.Join(dir, e.Name()), b, 0o644)
			}
		}
	}
	cmd := exec.Command("timeout", "900", "tlapm", "--threads", "8", "--cleanfp", module)
	cmd.Dir = dir
	var out bytes.Buffer
	cmd.Stdout = &out
	cmd.Stderr = &out
	t0 := time.Now()
	cmd.Run()
	os.RemoveAll(dir)
	o := out.String()
	m := regexp.MustCompile(`All (\d+) obligations proved`).FindStringSubmatch(o)
	f := regexp.MustCompile(`(\d+)/(\d+) obligations failed`).FindStringSubmatch(o)
	if (!expectFailure && m == nil) || (expectFailure && f == nil) {
		c.Infra("TLAPS %s (%s): unexpected outcome\n%s", module, what, tail(o, 30))
		return
	}
	outcome := ""
	if m != nil {
		outcome = "all " + m[1] + " obligations proved"
	} else {
		outcome = f[1] + " of " + f[2] + " obligations unproved (expected)"
	}
	c.mu.Lock()
	c.mcRuns = append(c.mcRuns, map[string]interface{}{"module": module, "tool": "tlaps", "query": what, "outcome": outcome, "wall_s": round1(time.Since(t0).Seconds())})
	c.mu.Unlock()
	fmt.Printf("TLAPS %s %s: %s, %.1fs\n", module, what, outcome, time.Since(t0).Seconds())
}

func tail(s string, n int) string {
	ls := strings.Split(strings.TrimRight(s, "\n"), "\n")
	if len(ls) > n {
		ls = ls[len(ls)-n:]
	}
	return strings.Join(ls, "\n")
}
func round1(f float64) float64 { return float64(int(f*10+0.5)) / 10 }

// ---------------------------------------------------------------------------
// Trace recording and validation

// TraceWriter writes ndjson events for one shard.
type TraceWriter struct {
	f     *os.File
	w     *bufio.Writer
	line  int
	cases []caseSpan
	path  string
}
type caseSpan struct {
	idx        int
	first, end int // lines [first, end)
}

func (t *TraceWriter) begin(idx int) {
	t.cases = append(t.cases, caseSpan{idx: idx, first: t.line + 1, end: t.line + 1})
}

// Ev writes one event. kv are alternating key, value; values are marshalled with encoding/json.
func (t *TraceWriter) Ev(kind string, kv ...interface{}) {
	t.w.WriteString(`{"k":`)
	t.w.WriteString(strconv.Quote(kind))
	for i := 0; i+1 < len(kv); i += 2 {
		t.w.WriteByte(',')
		t.w.WriteString(strconv.Quote(kv[i].(string)))
		t.w.WriteByte(':')
		switch v := kv[i+1].(type) {
		case int:
			t.w.WriteString(strconv.Itoa(tlcInt(v)))
		case bool:
			if v {
				t.w.WriteString("true")
			} else {
				t.w.WriteString("false")
			}
		case string:
			t.w.WriteString(strconv.Quote(v))
		case Raw:
			t.w.WriteString(string(v))
		default:
			b, err := json.Marshal(v)
			if err != nil {
				panic(err)
			}
			t.w.Write(b)
		}
	}
	t.w.WriteString("}\n")
	t.line++
	t.cases[len(t.cases)-1].end = t.line + 1
}

// Raw is pre-rendered JSON.
type Raw string

// Family binds a trace specification to a driver of the real code.
type Family struct {
	Name string // registry key, stored in replay files
	Spec string // Trace_*.tla module
	Cfg  string
	Env  []string // extra environment for TLC (e.g. VPROP=C08 selects the clause set)
	// Retries > 0: executions of a case are not deterministic (fresh random hash seeds per instance); a rejected
	// case is confirmed / replayed by running that many fresh copies of it and needs one of them to be rejected.
	Retries int
	// ParallelGC: use the parallel collector for the validation JVMs (traces with very large events)
	ParallelGC bool
	// Run executes one case against the real code and emits its events (the first must be "reset").
	Run func(cs json.RawMessage, w *TraceWriter)
	// Sig names the failing shape of a rejected case (used for known-findings and de-duplication).
	Sig func(cs json.RawMessage, line string) string
}

var families = map[string]*Family{}

func Register(f *Family) *Family { families[f.Name] = f; return f }

type traceOutcome struct {
	mismatch map[int]string // case index -> first rejected event (json line)
	drift    map[int]string
	events   int64
}

// validate runs the cases through the real code, writes shards, and lets TLC judge them.
func (c *Ctx) validate(f *Family, cases []json.RawMessage, shards int) (*traceOutcome, error) {
	if len(cases) == 0 {
		return nil, fmt.Errorf("family %s: zero cases generated", f.Name)
	}
	if shards < 1 {
		shards = 1
	}
	if shards > len(cases) {
		shards = len(cases)
	}
	c.mu.Lock()
	c.tlcSeq++
	tag := c.tlcSeq
	c.mu.Unlock()
	ws := make([]*TraceWriter, shards)
	for s := range ws {
		p := filepath.Join(c.Work, fmt.Sprintf("trace-%s-%d-%d.ndjson", f.Name, tag, s))
		fh, err := os.Create(p)
		if err != nil {
			return nil, err
		}
		ws[s] = &TraceWriter{f: fh, w: bufio.NewWriterSize(fh, 1<<20), path: p}
	}
	out := &traceOutcome{mismatch: map[int]string{}, drift: map[int]string{}}
	// watchdog: a driver case normally takes milliseconds.  One that does not come back is the library not terminating
	// (a goroutine cannot be killed, so the verdict is settled by re-running the case in a child process).
	var curCase, curStart int64
	atomic.StoreInt64(&curCase, -1)
	stopWatch := make(chan struct{})
	defer close(stopWatch)
	go func() {
		tk := time.NewTicker(2 * time.Second)
		defer tk.Stop()
		for {
			select {
			case <-stopWatch:
				return
			case <-tk.C:
				i := atomic.LoadInt64(&curCase)
				if i < 0 || time.Now().UnixNano()-atomic.LoadInt64(&curStart) < int64(caseDeadline()) {
					continue
				}
				c.caseTimedOut(f, cases[i])
			}
		}
	}()
	for i, cs := range cases {
		atomic.StoreInt64(&curStart, time.Now().UnixNano())
		atomic.StoreInt64(&curCase, int64(i))
		h := fnv.New64a()
		h.Write(cs)
		c.Distinct(f.Name + ":" + strconv.FormatUint(h.Sum64(), 36))
		w := ws[i%shards]
		w.begin(i)
		func() {
			// a panic that escapes the library into the driver (the drivers recover around the calls they
			// expect to fail; anything else is the library blowing up on an ordinary call) rejects the case
			defer func() {
				if p := recover(); p != nil {
					msg := fmt.Sprint(p)
					if len(msg) > 160 {
						msg = msg[:160]
					}
					out.mismatch[i] = `{"k":"driver-panic"} // panic escaped into the driver: ` + msg
				}
			}()
			f.Run(cs, w)
		}()
	}
	atomic.StoreInt64(&curCase, -1)
	for _, w := range ws {
		w.w.Flush()
		w.f.Close()
		out.events += int64(w.line)
		if c.corrupt != nil { // self-test of the binding: tamper with the recorded trace before TLC sees it
			c.corrupt(w)
		}
	}
	var wg sync.WaitGroup
	var emu sync.Mutex
	var firstErr error
	sem := make(chan struct{}, 12)
	for s := range ws {
		wg.Add(1)
		go func(w *TraceWriter) {
			defer wg.Done()
			sem <- struct{}{}
			defer func() { <-sem }()
			if w.line == 0 {
				return
			}
			res, err := c.RunTLC(TLCOpts{Module: f.Spec, Cfg: f.Cfg, Workers: 1, HeapMB: 3000, ParallelGC: f.ParallelGC, Env: append([]string{"VTRACE=" + w.path}, f.Env...)})
			emu.Lock()
			defer emu.Unlock()
			if err != nil {
				firstErr = err
				return
			}
			if !res.Completed || res.Violated != "" {
				firstErr = fmt.Errorf("trace spec %s failed on %s: %s\n%s", f.Spec, w.path, res.Violated, tail(res.Output, 30))
				return
			}
			lines := []string(nil)
			for _, p := range res.Prints {
				kind, rest, _ := strings.Cut(p, " ")
				if kind != "MISMATCH" && kind != "DRIFT" {
					continue
				}
				num, _, _ := strings.Cut(rest, " ")
				ln, e := strconv.Atoi(num)
				if e != nil {
					continue
				}
				// map line to case
				k := sort.Search(len(w.cases), func(i int) bool { return w.cases[i].end > ln })
				if k >= len(w.cases) || ln < w.cases[k].first {
					continue
				}
				if lines == nil {
					lines = readLines(w.path)
				}
				txt := ""
				if ln-1 < len(lines) {
					txt = lines[ln-1]
				}
				if extra := strings.TrimSpace(strings.TrimPrefix(rest, num)); extra != "" {
					txt = txt + " // " + extra
				}
				idx := w.cases[k].idx
				if kind == "MISMATCH" {
					if _, ok := out.mismatch[idx]; !ok {
						out.mismatch[idx] = txt
					}
				} else if _, ok := out.drift[idx]; !ok {
					out.drift[idx] = txt
				}
			}
		}(ws[s])
	}
	wg.Wait()
	if os.Getenv("VERIF_KEEP") == "" {
		for _, w := range ws {
			os.Remove(w.path)
		}
	}
	return out, firstErr
}

func readLines(p string) []string {
	b, err := os.ReadFile(p)
	if err != nil {
		return nil
	}
	return strings.Split(string(b), "\n")
}

// TraceCheck is the whole TRACE pipeline for one family: run, validate, confirm, report.
func (c *Ctx) TraceCheck(f *Family, cases []json.RawMessage) {
	if m, _ := strconv.Atoi(os.Getenv("VERIF_MAXCASES")); m > 0 && len(cases) > m { // development aid only
		step := len(cases) / m
		var sub []json.RawMessage
		for i := 0; i < len(cases); i += step {
			sub = append(sub, cases[i])
		}
		cases = sub
	}
	shards := 12
	if len(cases) < 64 {
		shards = 1
	}
	t0 := time.Now()
	out, err := c.validate(f, cases, shards)
	if err != nil {
		c.Infra("%v", err)
		return
	}
	c.mu.Lock()
	c.traces += int64(len(cases))
	c.events += out.events
	c.drift += int64(len(out.drift))
	if len(c.samples) < 6 && len(cases) > 0 {
		c.samples = append(c.samples, map[string]interface{}{"family": f.Name, "case": cases[0]},
			map[string]interface{}{"family": f.Name, "case": cases[len(cases)/2]})
	}
	c.mu.Unlock()
	fmt.Printf("TRACE %s: %d cases, %d events, %d rejected, %d drift, %.1fs\n", f.Name, len(cases), out.events, len(out.mismatch), len(out.drift), time.Since(t0).Seconds())
	// drift: report a few
	n := 0
	for idx, ln := range out.drift {
		if n < 3 {
			fmt.Printf("MODEL-DRIFT family=%s case=%s at %s\n", f.Name, string(cases[idx]), ln)
		}
		n++
	}
	// group rejected cases by signature, confirm one per signature
	bySig := map[string][]int{}
	var idxs []int
	for idx := range out.mismatch {
		idxs = append(idxs, idx)
	}
	sort.Ints(idxs)
	for _, idx := range idxs {
		var s string
		if strings.HasPrefix(out.mismatch[idx], `{"k":"driver-panic"}`) {
			s = f.Name + "/panic-escaped-into-driver"
		} else {
			s = f.Sig(cases[idx], out.mismatch[idx])
		}
		bySig[s] = append(bySig[s], idx)
	}
	var sigs []string
	for s := range bySig {
		sigs = append(sigs, s)
	}
	sort.Strings(sigs)
	for _, s := range sigs {
		idx := bySig[s][0]
		// shortest case of this signature is the nicest replay file
		for _, j := range bySig[s] {
			if len(cases[j]) < len(cases[idx]) {
				idx = j
			}
		}
		// confirm on the real code again, alone: the shortest case first, then up to 6 others of the signature (a case
		// may depend on state an earlier case left in a process-wide pool; Retries runs copies of it back to back)
		cands := []int{idx}
		for _, j := range bySig[s] {
			if j != idx && len(cands) < 7 {
				cands = append(cands, j)
			}
		}
		confirmed, failed := -1, false
		if os.Getenv("VERIF_CONFIRM_CHILD") == "1" { // this process IS the fresh-process confirmation of its parent
			confirmed = idx
			cands = nil
		}
		for _, j := range cands {
			confirm := []json.RawMessage{cases[j]}
			for r := 0; r < f.Retries; r++ {
				confirm = append(confirm, cases[j])
			}
			again, err := c.validate(f, confirm, 1)
			if err != nil {
				c.Infra("re-validation failed: %v", err)
				failed = true
				break
			}
			if len(again.mismatch) > 0 {
				confirmed = j
				break
			}
		}
		if failed {
			continue
		}
		if confirmed < 0 {
			// the rejection may depend on process-wide state that the first run itself changed (a pooled scratch area that
			// has grown since): re-run the case in a fresh process, which settles it from a pristine state
			for _, j := range cands[:minInt(len(cands), 3)] {
				if c.confirmInChild(f, cases[j]) {
					confirmed = j
					break
				}
			}
		}
		if confirmed < 0 {
			c.Infra("rejected case did not reproduce (family %s, sig %s): %s", f.Name, s, string(cases[idx]))
			continue
		}
		idx = confirmed
		c.report(f, s, cases[idx], out.mismatch[idx], len(bySig[s]))
	}
}

func minInt(a, b int) int {
	if a < b {
		return a
	}
	return b
}

// confirmInChild re-runs one case in a fresh process (VERIF_CONFIRM_CHILD: no nested confirmation there) and reports
// whether that process found a violation.
func (c *Ctx) confirmInChild(f *Family, cs json.RawMessage) bool {
	p := filepath.Join(c.Work, fmt.Sprintf("confirm-%d.json", time.Now().UnixNano()))
	b, _ := json.Marshal(map[string]interface{}{"property": c.Prop, "family": f.Name, "case": cs})
	if os.WriteFile(p, b, 0o644) != nil {
		return false
	}
	defer os.Remove(p)
	cctx, cancel := context.WithTimeout(context.Background(), 10*time.Minute)
	defer cancel()
	cmd := exec.CommandContext(cctx, os.Args[0], c.Prop, "--tier", c.Tier, "--replay", p)
	cmd.Env = append(os.Environ(), "VERIF_CONFIRM_CHILD=1", "VERIF_EVIDENCE_DIR="+filepath.Join(c.Work, "child-evidence"))
	cmd.Run()
	return cmd.ProcessState != nil && cmd.ProcessState.ExitCode() == 1
}

// caseDeadline: how long one driver case may run before it counts as not terminating (VERIF_CASE_DEADLINE seconds)
func caseDeadline() time.Duration {
	if v, err := strconv.Atoi(os.Getenv("VERIF_CASE_DEADLINE")); err == nil && v > 0 {
		return time.Duration(v) * time.Second
	}
	return 240 * time.Second
}

// caseTimedOut settles a case that did not come back: the case is written as a replay file and re-run alone in a child
// process under the same deadline.  Does not return.
func (c *Ctx) caseTimedOut(f *Family, cs json.RawMessage) {
	sig := f.Name + "/no-termination"
	line := `{"k":"no-termination"} // the driver case did not finish within ` + caseDeadline().String()
	if os.Getenv("VERIF_WATCHDOG_CHILD") == "1" {
		os.Exit(3) // the child itself hung: the parent draws the conclusion
	}
	dir := filepath.Join(verifRoot, "replay", c.Prop)
	os.MkdirAll(dir, 0o755)
	p := filepath.Join(dir, regexp.MustCompile(`[^A-Za-z0-9_.-]+`).ReplaceAllString(sig, "_")+".json")
	b, _ := json.MarshalIndent(map[string]interface{}{"property": c.Prop, "family": f.Name, "sig": sig, "rejected_event": line,
		"cases_with_this_signature": 1, "case": cs}, "", " ")
	os.WriteFile(p, b, 0o644)
	cctx, cancel := context.WithTimeout(context.Background(), 2*caseDeadline()+60*time.Second)
	defer cancel()
	cmd := exec.CommandContext(cctx, os.Args[0], c.Prop, "--tier", c.Tier, "--replay", p)
	cmd.Env = append(os.Environ(), "VERIF_WATCHDOG_CHILD=1", "VERIF_EVIDENCE_DIR="+filepath.Join(c.Work, "child-evidence"))
	out, _ := cmd.CombinedOutput()
	hung := cctx.Err() == context.DeadlineExceeded || (cmd.ProcessState != nil && cmd.ProcessState.ExitCode() == 3)
	if hung {
		fmt.Printf("VIOLATION property=%s replay=%s\n  signature: %s (1 cases)\n  rejected event: %s\n", c.Prop, p, sig, line)
		c.mu.Lock()
		c.violations = append(c.violations, Violation{Sig: sig, What: line, Replay: p})
		c.mu.Unlock()
		c.Finish() // writes the evidence file and exits 1
	}
	c.Infra("a driver case exceeded %s but finished when re-run alone (family %s): %s\n%s", caseDeadline(), f.Name, string(cs), tail(string(out), 5))
	c.Finish() // exits 2
}

func (c *Ctx) report(f *Family, sig string, cs json.RawMessage, line string, count int) {
	kf := loadFindings()
	for _, k := range kf.Findings {
		if k.Status == "known" && k.Property == c.Prop && k.Sig == sig {
			fmt.Printf("KNOWN-FINDING: property=%s %s (%s; %d cases)\n", c.Prop, k.What, sig, count)
			c.mu.Lock()
			c.known = append(c.known, sig)
			c.mu.Unlock()
			return
		}
	}
	dir := filepath.Join(verifRoot, "replay", c.Prop)
	os.MkdirAll(dir, 0o755)
	name := regexp.MustCompile(`[^A-Za-z0-9_.-]+`).ReplaceAllString(sig, "_")
	if len(name) > 120 {
		name = name[:120]
	}
	p := filepath.Join(dir, name+".json")
	b, _ := json.MarshalIndent(map[string]interface{}{"property": c.Prop, "family": f.Name, "sig": sig,
		"rejected_event": line, "cases_with_this_signature": count, "case": cs}, "", " ")
	os.WriteFile(p, b, 0o644)
	fmt.Printf("VIOLATION property=%s replay=%s\n", c.Prop, p)
	short := line
	if len(short) > 400 {
		short = short[:200] + " ... " + short[len(short)-180:]
	}
	fmt.Printf("  signature: %s (%d cases)\n  rejected event: %s\n", sig, count, short)
	c.mu.Lock()
	c.violations = append(c.violations, Violation{Sig: sig, What: line, Replay: p})
	c.mu.Unlock()
}

// GoViolation reports a violation found by a Go-side monitor (panic, fault, race, poison): still tied to a replayable case.
func (c *Ctx) GoViolation(family, sig string, cs interface{}, what string) {
	b, _ := json.Marshal(cs)
	f := families[family]
	if f == nil {
		f = &Family{Name: family}
	}
	c.report(f, sig, b, what, 1)
}

// ---------------------------------------------------------------------------
// Known findings

type Finding struct {
	Status   string `json:"status"` // known | fixed
	Property string `json:"property"`
	Sig      string `json:"sig,omitempty"`
	What     string `json:"what"`
	Commit   string `json:"commit,omitempty"`
}
type Findings struct {
	Findings []Finding `json:"findings"`
}

func loadFindings() Findings {
	var f Findings
	b, err := os.ReadFile(filepath.Join(verifRoot, "known_findings.json"))
	if err == nil {
		json.Unmarshal(b, &f)
	}
	return f
}

// ---------------------------------------------------------------------------
// Evidence and exit

func (c *Ctx) Finish() {
	wall := time.Since(c.Started).Seconds()
	cov := map[string]interface{}{}
	for k, v := range c.extra {
		cov[k] = v
	}
	if len(c.samples) == 0 {
		c.samples = append(c.samples, "no sample recorded")
	}
	cov["states"] = c.states
	cov["transitions"] = c.trans
	cov["traces_validated_against_impl"] = c.traces
	cov["samples"] = c.samples
	cov["trace_events"] = c.events
	cov["mc_runs"] = c.mcRuns
	cov["model_drift_cases"] = c.drift
	cov["evaluations"] = c.evals + c.traces
	dn := int64(len(c.distinct)) // distinct cases by content hash (per family)
	cov["distinct_nontrivial"] = dn
	if c.rule != "" {
		cov["rule"] = c.rule
	}
	cov["known_findings_seen"] = c.known
	ev := map[string]interface{}{
		"property_id": c.Prop, "tier": c.Tier, "seed": c.Seed, "level": c.level,
		"coverage": cov, "assumptions": c.assume, "wall_s": round1(wall), "violations": len(c.violations),
	}
	if len(c.infraErr) > 0 {
		ev["infrastructure_errors"] = c.infraErr
	}
	b, _ := json.MarshalIndent(ev, "", " ")
	evDir := filepath.Join(verifRoot, "evidence")
	if d := os.Getenv("VERIF_EVIDENCE_DIR"); d != "" { // development aid (tools/coverage.sh, seeded runs): keep /verif/evidence as it is
		evDir = d
	}
	os.MkdirAll(evDir, 0o755)
	if strings.HasPrefix(c.Prop, "C") { // evidence files exist for properties only (SELFTEST prints its result)
		os.WriteFile(filepath.Join(evDir, c.Prop+".json"), append(b, '\n'), 0o644)
	}
	if os.Getenv("VERIF_KEEP") == "" {
		os.RemoveAll(c.Work)
	}
	if len(c.violations) > 0 {
		fmt.Printf("RESULT %s: %d violation signature(s)\n", c.Prop, len(c.violations))
		os.Exit(1)
	}
	if len(c.infraErr) > 0 {
		fmt.Printf("RESULT %s: infrastructure error(s); no verdict\n", c.Prop)
		os.Exit(2)
	}
	fmt.Printf("RESULT %s: held on everything explored (%.1fs)\n", c.Prop, wall)
	os.Exit(0)
}

// ---------------------------------------------------------------------------
// Replay

func (c *Ctx) Replay(path string) {
	b, err := os.ReadFile(path)
	if err != nil {
		c.Infra("cannot read replay file: %v", err)
		return
	}
	var r struct {
		Family string          `json:"family"`
		Case   json.RawMessage `json:"case"`
	}
	if err := json.Unmarshal(b, &r); err != nil {
		c.Infra("bad replay file: %v", err)
		return
	}
	f := families[r.Family]
	if f == nil || f.Run == nil {
		if g := goReplays[r.Family]; g != nil {
			g(c, r.Case)
			return
		}
		c.Infra("unknown family %q in replay file", r.Family)
		return
	}
	rc := []json.RawMessage{r.Case}
	for i := 0; i < f.Retries; i++ {
		rc = append(rc, r.Case)
	}
	c.TraceCheck(f, rc)
}

// goReplays re-executes cases of Go-side monitors.
var goReplays = map[string]func(c *Ctx, cs json.RawMessage){}

func mustJSON(v interface{}) json.RawMessage {
	b, err := json.Marshal(v)
	if err != nil {
		panic(err)
	}
	return b
}

var _ = io.EOF
