package main

import (
	"bufio"
	"bytes"
	"context"
	"encoding/base64"
	"encoding/hex"
	"encoding/json"
	"errors"
	"fmt"
	"io"
	"math/rand"
	"net"
	"os"
	"sort"
	"strconv"
	"strings"

	"github.com/cloudwego/gopkg/protocol/thrift"
)

// ---------------------------------------------------------------------------
// C18 — exception helpers preserve kind, type id and cause (Exceptions.tla).

type ErrDesc struct {
	UID   int      `json:"uid"`
	Kind  string   `json:"kind"` // plain | foreign | application | transport | protocol | fmtwrap | none
	Tid   int      `json:"tid"`
	Msg   string   `json:"msg"`
	Text  string   `json:"text"`
	Cause *ErrDesc `json:"cause,omitempty"`
	// Embed (kind foreign only): the foreign type EMBEDS a library exception ("app" | "transport" | "protocol") and
	// overrides Error() and TypeId(); for the helpers it is still just a foreign type with a type id
	Embed string `json:"embed,omitempty"`
}

type ExcCase struct {
	Fn     string   `json:"fn"` // prepend | wrap | is
	Prefix string   `json:"prefix,omitempty"`
	In     *ErrDesc `json:"in,omitempty"`
	X      *ErrDesc `json:"x,omitempty"`
	T      *ErrDesc `json:"t,omitempty"`
}

type foreignExc struct {
	t int32
	s string
}

func (f *foreignExc) Error() string { return f.s }
func (f *foreignExc) TypeId() int32 { return f.t }

type foreignEmbApp struct {
	*thrift.ApplicationException
	t int32
	s string
}
type foreignEmbTransport struct {
	*thrift.TransportException
	t int32
	s string
}
type foreignEmbProtocol struct {
	*thrift.ProtocolException
	t int32
	s string
}

func (f *foreignEmbApp) Error() string       { return f.s }
func (f *foreignEmbApp) TypeId() int32       { return f.t }
func (f *foreignEmbTransport) Error() string { return f.s }
func (f *foreignEmbTransport) TypeId() int32 { return f.t }
func (f *foreignEmbProtocol) Error() string  { return f.s }
func (f *foreignEmbProtocol) TypeId() int32  { return f.t }

// sentinelErrs: plain errors of the standard library that code likes to special-case by identity
var sentinelErrs = map[int]error{9001: io.EOF, 9002: io.ErrUnexpectedEOF, 9003: context.Canceled, 9004: os.ErrDeadlineExceeded, 9005: io.ErrClosedPipe,
	// ... and values of the standard library's error TYPES (code ported from other Thrift libraries special-cases some)
	// (only types without Unwrap / Is methods of their own: the algebra's plain errors have no chain)
	9006: base64.CorruptInputError(3), 9007: hex.InvalidByteError('x'), 9013: strconv.ErrRange, 9014: io.ErrShortBuffer,
	9015: io.ErrNoProgress, 9016: os.ErrClosed, 9017: net.ErrClosed, 9018: context.DeadlineExceeded, 9019: &json.SyntaxError{Offset: 3},
	9020: bufio.ErrBufferFull, 9021: bytes.ErrTooLarge, 9022: &net.AddrError{Err: "bad", Addr: "a"}, 9023: net.UnknownNetworkError("x")}

// uncmpErr: an error whose dynamic type is not comparable (like go/scanner.ErrorList); == on two of them panics
type uncmpErr []string

func (u uncmpErr) Error() string { return u[0] }

// sameErr is == on error values that does not panic on uncomparable dynamic types (same backing array = same value)
func sameErr(a, b error) bool {
	ua, oka := a.(uncmpErr)
	ub, okb := b.(uncmpErr)
	if oka || okb {
		return oka && okb && len(ua) == len(ub) && &ua[0] == &ub[0]
	}
	return a == b
}

func descJSON(d *ErrDesc) string {
	if d == nil || d.Kind == "none" {
		return `{"uid":-1,"kind":"none"}`
	}
	return fmt.Sprintf(`{"uid":%d,"kind":%q,"tid":%d,"msg":%s,"text":%s,"cause":%s}`, d.UID, d.Kind, d.Tid, jstr(d.Msg), jstr(d.Text), descJSON(d.Cause))
}

func jstr(s string) string { b, _ := json.Marshal(s); return string(b) }

// build materialises an error description; memo keeps identity (uid) stable within a case.
func buildErr(d *ErrDesc, memo map[int]error) error {
	if d == nil || d.Kind == "none" {
		return nil
	}
	if e, ok := memo[d.UID]; ok && d.UID != 0 {
		return e
	}
	var e error
	switch d.Kind {
	case "plain":
		if sv, ok := sentinelErrs[d.UID]; ok { // the well-known sentinel VALUES (identity matters: io.EOF is compared with ==)
			e = sv
		} else {
			e = errors.New(d.Text)
		}
	case "uncmp":
		e = uncmpErr{d.Text}
	case "foreign":
		switch d.Embed {
		case "app":
			e = &foreignEmbApp{thrift.NewApplicationException(77, "inner"), int32(d.Tid), d.Text}
		case "transport":
			e = &foreignEmbTransport{thrift.NewTransportException(77, "inner"), int32(d.Tid), d.Text}
		case "protocol":
			e = &foreignEmbProtocol{thrift.NewProtocolException(77, "inner"), int32(d.Tid), d.Text}
		default:
			e = &foreignExc{int32(d.Tid), d.Text}
		}
	case "fmtwrap": // text = "ctx: " + the cause's text
		e = fmt.Errorf("ctx: %w", buildErr(d.Cause, memo))
	case "application":
		e = thrift.NewApplicationException(int32(d.Tid), d.Msg)
	case "transport":
		e = thrift.NewTransportException(int32(d.Tid), d.Msg)
	case "protocol":
		if d.Cause != nil && d.Cause.Kind != "none" {
			// a protocol exception carrying a cause can only be made by wrapping: tid 0, msg = cause text
			e = thrift.NewProtocolExceptionWithErr(buildErr(d.Cause, memo))
		} else {
			e = thrift.NewProtocolException(int32(d.Tid), d.Msg)
		}
	}
	memo[d.UID] = e
	return e
}

func obsJSON(e error) string {
	kind, tid := "plain", 0
	switch x := e.(type) {
	case *thrift.TransportException:
		kind, tid = "transport", int(x.TypeId())
	case *thrift.ProtocolException:
		kind, tid = "protocol", int(x.TypeId())
	case *thrift.ApplicationException:
		kind, tid = "application", int(x.TypeId())
	case *foreignExc:
		kind, tid = "foreign", int(x.TypeId())
	case *foreignEmbApp:
		kind, tid = "foreign", int(x.TypeId())
	case *foreignEmbTransport:
		kind, tid = "foreign", int(x.TypeId())
	case *foreignEmbProtocol:
		kind, tid = "foreign", int(x.TypeId())
	}
	return fmt.Sprintf(`{"kind":%q,"tid":%d,"text":%s}`, kind, tid, jstr(e.Error()))
}

func runExcCase(raw json.RawMessage, w *TraceWriter) {
	var c ExcCase
	if err := json.Unmarshal(raw, &c); err != nil {
		panic(err)
	}
	memo := map[int]error{}
	switch c.Fn {
	case "prepend":
		in := buildErr(c.In, memo)
		out := thrift.PrependError(c.Prefix, in)
		w.Ev("exc_prepend", "prefix", c.Prefix, "in", Raw(descJSON(c.In)), "out", Raw(obsJSON(out)))
	case "wrap":
		in := buildErr(c.In, memo)
		out := thrift.NewProtocolExceptionWithErr(in)
		same := sameErr(out, in)
		iscause := true
		if c.In.Cause != nil && c.In.Cause.Kind != "none" {
			iscause = errors.Is(out, buildErr(c.In.Cause, memo))
		}
		w.Ev("exc_wrap", "in", Raw(descJSON(c.In)), "out", Raw(obsJSON(out)), "same", same,
			"unwrapsame", sameErr(errors.Unwrap(out), in), "isin", errors.Is(out, in), "iscause", iscause)
	case "is":
		x := buildErr(c.X, memo)
		t := buildErr(c.T, memo)
		w.Ev("exc_is", "x", Raw(descJSON(c.X)), "t", Raw(descJSON(c.T)), "res", errors.Is(x, t))
	}
}

func sigExc(raw json.RawMessage, line string) string {
	var c ExcCase
	json.Unmarshal(raw, &c)
	k := ""
	if c.In != nil {
		k = c.In.Kind
	} else if c.X != nil {
		k = c.X.Kind + "-vs-" + c.T.Kind
	}
	return "exc/" + c.Fn + "/" + k
}

var famExc = Register(&Family{Name: "exc", Spec: "Trace_Exceptions", Cfg: "Trace_Exceptions.cfg", Run: runExcCase, Sig: sigExc})

func genExcCases(c *Ctx) []json.RawMessage {
	var out []json.RawMessage
	rng := rand.New(rand.NewSource(c.Seed*2147483629 + 18))
	tids := []int{0, 1, 6, 10, 11, -1, 2147483647, -2147483648, 2, 4, 5, 7, 8, 9, 3}
	msgs := []string{"", "m", "unknown method", "p: m", strings.Repeat("long message ", 40), "\x00\xff bytes"}
	uid := 0
	mk := func(kind string, tid int, msg string) *ErrDesc {
		uid++
		d := &ErrDesc{UID: uid, Kind: kind, Tid: tid, Cause: &ErrDesc{UID: -1, Kind: "none"}}
		switch kind {
		case "plain", "uncmp":
			d.Tid, d.Text = 0, msg
		case "foreign":
			d.Text = msg
		default:
			d.Msg = msg
		}
		return d
	}
	// the wrapped form as the library builds it: tid 0, msg = cause's Error() text
	textOf := func(d *ErrDesc) string {
		if d.Kind == "plain" || d.Kind == "foreign" || d.Kind == "fmtwrap" || d.Kind == "uncmp" {
			return d.Text
		}
		if d.Msg != "" {
			return d.Msg
		}
		return thrift.NewApplicationException(int32(d.Tid), "").Error()
	}
	wrap := func(cause *ErrDesc) *ErrDesc {
		uid++
		return &ErrDesc{UID: uid, Kind: "protocol", Tid: 0, Msg: textOf(cause), Cause: cause}
	}
	fmtwrap := func(cause *ErrDesc) *ErrDesc {
		uid++
		return &ErrDesc{UID: uid, Kind: "fmtwrap", Text: "ctx: " + textOf(cause), Cause: cause}
	}
	var all []*ErrDesc
	for _, k := range []string{"plain", "uncmp", "foreign", "application", "transport", "protocol"} {
		for _, t := range tids {
			for _, m := range msgs {
				if (k == "plain" || k == "uncmp") && t != 0 {
					continue
				}
				all = append(all, mk(k, t, m))
			}
		}
	}
	base := len(all)
	for i := 0; i < base; i++ {
		if all[i].Kind != "protocol" && (i%3 == 0 || c.Thorough()) {
			w1 := wrap(all[i])
			all = append(all, w1)
		}
	}
	// standard-library wrappers (fmt.Errorf %w) around every kind, around wrapped protocol exceptions, and nested twice
	for i := 0; i < base; i++ {
		if i%2 == 0 || c.Thorough() || all[i].Kind == "protocol" {
			all = append(all, fmtwrap(all[i]))
		}
	}
	for i := base; i < base+40 && i < len(all); i++ {
		if all[i].Kind == "protocol" {
			f := fmtwrap(all[i])
			all = append(all, f, fmtwrap(f))
		}
	}
	for i := 0; i < c.Pick(300, 5000); i++ { // random int32 type ids and messages
		k := []string{"foreign", "application", "transport", "protocol"}[rng.Intn(4)]
		m := make([]byte, rng.Intn(20))
		for j := range m {
			m[j] = byte(32 + rng.Intn(90))
		}
		all = append(all, mk(k, int(int32(rng.Uint32())), string(m)))
	}
	for _, d := range all {
		for _, p := range []string{"", "p: ", "Base read field 1 'LogID' error: "} {
			out = append(out, mustJSON(ExcCase{Fn: "prepend", Prefix: p, In: d}))
		}
		if d.UID%5 == 0 || d.Kind == "plain" || d.Kind == "fmtwrap" || d.Kind == "uncmp" { // prefixes a formatting function would interpret
			for _, p := range []string{"%", "%%", "%d ", "%s", "100% of ", "%!v(", "%[2]s", "%w: ", "\\n\\t%", strings.Repeat("pfx ", 3000)} {
				out = append(out, mustJSON(ExcCase{Fn: "prepend", Prefix: p, In: d}))
			}
		}
		out = append(out, mustJSON(ExcCase{Fn: "wrap", In: d}))
	}
	// foreign types that embed a library exception and override Error() / TypeId(): still foreign for PrependError
	// (application exception with the OVERRIDING id and text); NewProtocolExceptionWithErr wraps the app / transport ones
	for _, emb := range []string{"app", "transport", "protocol"} {
		for _, t := range tids {
			for _, m := range msgs[:4] {
				d := mk("foreign", t, m)
				d.Embed = emb
				for _, p := range []string{"", "p: "} {
					out = append(out, mustJSON(ExcCase{Fn: "prepend", Prefix: p, In: d}))
				}
				if emb != "protocol" {
					out = append(out, mustJSON(ExcCase{Fn: "wrap", In: d}))
				}
			}
		}
	}
	// Is truth table: every pair from a reduced set + targeted (tid, text) matches
	var small []*ErrDesc
	for i, d := range all {
		if i%7 == 0 || d.Cause.Kind != "none" {
			small = append(small, d)
		}
	}
	if len(small) > c.Pick(70, 200) {
		small = small[:c.Pick(70, 200)]
	}
	for _, a := range small {
		for _, b := range small {
			out = append(out, mustJSON(ExcCase{Fn: "is", X: a, T: b}))
		}
	}
	// values of uncomparable types on both sides of errors.Is: bare, wrapped by the library, wrapped by the standard
	// library, as the same value and as two values of the same type (== on such a pair panics: nothing may do that)
	for _, m := range msgs[:4] {
		u1, u2 := mk("uncmp", 0, m), mk("uncmp", 0, m)
		for _, x := range []*ErrDesc{u1, wrap(u1), fmtwrap(u1), wrap(fmtwrap(u1)), fmtwrap(wrap(u1))} {
			for _, t := range []*ErrDesc{u1, u2, mk("plain", 0, m), mk("protocol", 0, m), mk("application", 0, m), wrap(u2)} {
				out = append(out, mustJSON(ExcCase{Fn: "is", X: x, T: t}))
				out = append(out, mustJSON(ExcCase{Fn: "is", X: t, T: x}))
			}
		}
	}
	// the standard library's sentinel values, bare and inside wrappers of other people: a wrapper around io.EOF is an
	// error of its own (its text, its identity), whatever it answers to errors.Is(err, io.EOF)
	var sent []*ErrDesc
	var sentinelIDs []int
	for id := range sentinelErrs {
		sentinelIDs = append(sentinelIDs, id)
	}
	sort.Ints(sentinelIDs)
	for _, uidS := range sentinelIDs {
		sent = append(sent, &ErrDesc{UID: uidS, Kind: "plain", Text: sentinelErrs[uidS].Error(), Cause: &ErrDesc{UID: -1, Kind: "none"}})
	}
	for _, sd := range sent {
		w1, w2 := fmtwrap(sd), fmtwrap(fmtwrap(sd))
		for _, d := range []*ErrDesc{sd, w1, w2} {
			out = append(out, mustJSON(ExcCase{Fn: "wrap", In: d}))
			for _, p := range []string{"", "read field 3: "} {
				out = append(out, mustJSON(ExcCase{Fn: "prepend", Prefix: p, In: d}))
			}
			for _, t := range append([]*ErrDesc{w1, w2, mk("plain", 0, sd.Text), mk("protocol", 0, sd.Text), wrap(sd)}, sent...) {
				out = append(out, mustJSON(ExcCase{Fn: "is", X: wrap(d), T: t}))
				out = append(out, mustJSON(ExcCase{Fn: "is", X: d, T: t}))
				out = append(out, mustJSON(ExcCase{Fn: "is", X: wrap(fmtwrap(wrap(d))), T: t}))
			}
		}
	}
	for _, t := range tids {
		for _, m := range msgs {
			p := mk("protocol", t, m)
			for _, k := range []string{"foreign", "application", "transport", "protocol"} {
				// a target whose Error() text equals the protocol exception's stored message (and one that differs)
				out = append(out, mustJSON(ExcCase{Fn: "is", X: p, T: mk(k, t, m)}))
				out = append(out, mustJSON(ExcCase{Fn: "is", X: p, T: mk(k, t+1, m)}))
				out = append(out, mustJSON(ExcCase{Fn: "is", X: p, T: mk(k, t, m+"x")}))
				if k != "protocol" { // wrapping a protocol exception is the identity: no such value exists
					out = append(out, mustJSON(ExcCase{Fn: "is", X: wrap(mk(k, t, m)), T: mk(k, t, m)}))
				}
				// through a standard-library wrapper: by identity of the buried value, by (type id, text), and a near miss
				inner := mk("protocol", t, m)
				out = append(out, mustJSON(ExcCase{Fn: "is", X: fmtwrap(inner), T: inner}))
				out = append(out, mustJSON(ExcCase{Fn: "is", X: fmtwrap(inner), T: mk(k, t, m)}))
				out = append(out, mustJSON(ExcCase{Fn: "is", X: wrap(fmtwrap(inner)), T: inner}))
				out = append(out, mustJSON(ExcCase{Fn: "is", X: wrap(fmtwrap(inner)), T: mk(k, t+1, m)}))
			}
		}
	}
	return out
}

func checkC18(c *Ctx) {
	c.rule = "MC: the full case table of the algebra over all kinds x type ids {0,1,6,10,11,-1,2^31-1,-2^31} x messages {\"\",m} x prefixes x cause chains of depth <= 2 (incl. standard-library %w wrappers around every kind) satisfies the clauses of C18. TRACE: every (kind, type id, message, prefix) combination incl. empty messages (default-message table), long and binary messages, random int32 type ids, wrapped chains, fmt.Errorf(%w) wrappers around every kind (a protocol exception buried in a wrapper is wrapped, not returned); PrependError, NewProtocolExceptionWithErr, errors.Is (pairwise truth table, targeted (type id, text) matches and near-misses) and Unwrap on real values; TLC computes the expected dynamic kind, TypeId, Error() text and Is outcome. Also the standard library sentinel VALUES (io.EOF, io.ErrUnexpectedEOF, context.Canceled, os.ErrDeadlineExceeded, io.ErrClosedPipe) as plain errors with fixed identity, bare and inside one and two %w wrappers. Also values of standard-library error types without a chain of their own (base64.CorruptInputError, hex.InvalidByteError, strconv.ErrRange, *json.SyntaxError, *net.AddrError ...). Prefixes a formatting function would interpret (%, %%, %d, %s, %[2]s, %w ...)."
	c.MC("MC_Exceptions.tla", "MC_Exceptions.cfg", 4)
	c.TraceCheck(famExc, genExcCases(c))
	c.Assume("error values are described to TLC as records (kind, type id, message, text, cause, identity)")
}

func init() { checks["C18"] = checkC18 }
