package main

import (
	"bytes"
	"context"
	"encoding/binary"
	"encoding/json"
	"errors"
	"fmt"
	"github.com/cloudwego/gopkg/protocol/thrift/base"
	"github.com/cloudwego/gopkg/protocol/thrift/unknownfields"
	"github.com/cloudwego/gopkg/protocol/ttheader"
	"math/rand"
	"sort"
	"strings"
	"unsafe"

	"github.com/bytedance/gopkg/lang/mcache"
	"github.com/cloudwego/gopkg/bufiox"
	"github.com/cloudwego/gopkg/protocol/thrift"
	"github.com/cloudwego/gopkg/unsafex"
)

// ---------------------------------------------------------------------------
// C20 — zero-copy conversions; C16 — decoded values are independent (MemViews.tla).

type ConvCase struct {
	Shape string `json:"shape"` // whole | sub | empty | nil | spare
	N     int    `json:"n"`
	Off   int    `json:"off,omitempty"`
	Spare int    `json:"spare,omitempty"` // extra bytes of the backing array behind the value (sub / spare shapes)
	Adds  []int  `json:"adds,omitempty"`  // append history on the StringToBinary result
	// Lp: the content LOOKS length-prefixed / framed: its first bytes spell its own remaining length (Lp = 4: big-endian
	// 32 bit, 2: 16 bit, 1: one byte, -4: little-endian 32 bit): it is content like any other
	Lp int `json:"lp,omitempty"`
}

func dataPtr(b []byte) uintptr {
	if cap(b) == 0 {
		return 0
	}
	return uintptr(unsafe.Pointer(unsafe.SliceData(b)))
}

func runConvCase(raw json.RawMessage, w *TraceWriter) {
	var c ConvCase
	if err := json.Unmarshal(raw, &c); err != nil {
		panic(err)
	}
	w.Ev("reset", "input", Raw(`{"c":-1,"o":0,"len":0}`))
	// build the source: a string (for s2b) and a byte slice (for b2s) of the requested shape
	backing := PatBytes(c.N%250, 0, c.N+c.Off+16+c.Spare)
	if v := backing[c.Off:]; c.Lp != 0 && c.N > 4 {
		switch c.Lp {
		case 4:
			binary.BigEndian.PutUint32(v, uint32(c.N-4))
		case -4:
			binary.LittleEndian.PutUint32(v, uint32(c.N-4))
		case 2:
			binary.BigEndian.PutUint16(v, uint16(c.N-2))
		case 1:
			v[0] = byte(c.N - 1)
		}
	}
	big := string(backing) // immutable copy
	var s string
	var b []byte
	switch c.Shape {
	case "whole":
		s = string(backing[:c.N])
		b = append([]byte(nil), backing[:c.N]...)
	case "sub": // substring of a larger string / sub-slice with spare capacity
		s = big[c.Off : c.Off+c.N]
		b = backing[c.Off : c.Off+c.N]
	case "spare":
		s = big[:c.N]
		b = backing[:c.N:len(backing)]
	case "empty":
		s = ""
		b = []byte{}
	case "nil":
		s = ""
		b = nil
	}
	ref := append([]byte(nil), []byte(s)...)
	bigRef := []byte(big)
	// StringToBinary
	out := unsafex.StringToBinary(s)
	w.Ev("conv", "fn", "s2b", "in", Raw(fmt.Sprintf(`{"len":%d,"cap":%d}`, len(s), len(s))), "out", Raw(fmt.Sprintf(`{"len":%d,"cap":%d}`, len(out), cap(out))),
		"sameptr", len(s) > 0 && uintptr(unsafe.Pointer(unsafe.StringData(s))) == dataPtr(out), "content", bytes.Equal(out, ref))
	cur := out
	for _, k := range c.Adds {
		ext := bytes.Repeat([]byte{0xEE}, k)
		cur = append(cur, ext...)
		// in place = the grown slice still lives in the string's memory
		inplace := len(cur) > len(out) && len(out) > 0 && dataPtr(cur) == dataPtr(out)
		w.Ev("appendchk", "added", k, "inplace", inplace, "srcintact", s == string(ref) && big == string(bigRef))
	}
	// BinaryToString on a caller's scratch buffer, the result kept beyond the caller's frame
	if c.Shape == "whole" && c.N <= 48 {
		for k, f := range []func(int, int) string{convFromLocalArray, convFromConstMake} {
			kept := f(c.N%250, c.N)
			useSomeStack(3)
			want := string(PatBytes(c.N%250, 0, c.N))
			w.Ev("conv", "fn", []string{"b2s-local-array", "b2s-const-make"}[k], "in", Raw(fmt.Sprintf(`{"len":%d,"cap":%d}`, c.N, 48+16*k)),
				"out", Raw(fmt.Sprintf(`{"len":%d,"cap":%d}`, len(kept), len(kept))), "sameptr", true, "content", kept == want)
		}
	}
	// StringToBinary on a short temporary string built inside a function that has returned (string(bytes), a + b,
	// BinaryToString of a scratch array): the bytes share the string's memory, so the string must outlive the frame
	if c.Shape == "whole" && c.N >= 1 && c.N <= 32 {
		for k, f := range []func(int, int) []byte{s2bFromStringOfBytes, s2bFromConcat, s2bFromLocalArray} {
			kept := f(c.N%250, c.N)
			useSomeStack(3)
			useBigStack(byte(c.N))
			want := PatBytes(c.N%250, 0, c.N)
			w.Ev("conv", "fn", "s2b", "in", Raw(fmt.Sprintf(`{"len":%d,"cap":%d}`, c.N, c.N)),
				"out", Raw(fmt.Sprintf(`{"len":%d,"cap":%d}`, len(kept), cap(kept))), "sameptr", true, "content", bytes.Equal(kept, want),
				"how", []string{"string-of-bytes", "concat", "b2s-of-local-array"}[k])
		}
	}
	// BinaryToString
	bref := append([]byte(nil), b...)
	str := unsafex.BinaryToString(b)
	w.Ev("conv", "fn", "b2s", "in", Raw(fmt.Sprintf(`{"len":%d,"cap":%d}`, len(b), cap(b))), "out", Raw(fmt.Sprintf(`{"len":%d,"cap":%d}`, len(str), len(str))),
		"sameptr", len(b) > 0 && uintptr(unsafe.Pointer(unsafe.StringData(str))) == dataPtr(b), "content", str == string(bref))
}

// a caller that formats into a fixed-size scratch buffer and returns the converted string: the string must outlive the
// caller's frame (the conversion must keep the aliasing visible to the compiler, so that the buffer is heap-allocated)
//
//go:noinline
func convFromLocalArray(seed, n int) string {
	var buf [48]byte
	b := buf[:0]
	for i := 0; i < n && i < len(buf); i++ {
		b = append(b, PatByte(seed, i))
	}
	return unsafex.BinaryToString(b)
}

//go:noinline
func convFromConstMake(seed, n int) string {
	b := make([]byte, 0, 64)
	for i := 0; i < n && i < 64; i++ {
		b = append(b, PatByte(seed, i))
	}
	return unsafex.BinaryToString(b)
}

//go:noinline
func s2bFromStringOfBytes(seed, n int) []byte {
	raw := PatBytes(seed, 0, n)
	s := string(raw) // <= 32 bytes: a candidate for the caller's frame unless the conversion makes it escape
	return unsafex.StringToBinary(s)
}

//go:noinline
func s2bFromConcat(seed, n int) []byte {
	raw := PatBytes(seed, 0, n)
	s := string(raw[:n/2]) + string(raw[n/2:])
	return unsafex.StringToBinary(s)
}

//go:noinline
func s2bFromLocalArray(seed, n int) []byte {
	var buf [32]byte
	b := buf[:0]
	for i := 0; i < n && i < len(buf); i++ {
		b = append(b, PatByte(seed, i))
	}
	return unsafex.StringToBinary(unsafex.BinaryToString(b))
}

//go:noinline
func useBigStack(fill byte) int {
	var scratch [8192]byte
	for i := range scratch {
		scratch[i] = fill
	}
	n := 0
	for _, c := range scratch {
		n += int(c)
	}
	return n
}

//go:noinline
func useSomeStack(d int) int {
	var junk [768]byte
	for i := range junk {
		junk[i] = byte(i*31 + d)
	}
	x := 0
	for _, v := range junk {
		x += int(v)
	}
	if d > 0 {
		return x + useSomeStack(d-1)
	}
	return x
}

func sigConv(raw json.RawMessage, line string) string {
	why := ""
	if i := strings.Index(line, " // "); i >= 0 {
		why = line[i+4:]
	}
	var c ConvCase
	json.Unmarshal(raw, &c)
	return "conv/" + why + "/" + c.Shape
}

func init() {
	goReplays["giant-C20"] = func(c *Ctx, raw json.RawMessage) { giantConvMonitor(c) }
}

var famConv = Register(&Family{Name: "conv", Spec: "Trace_MemViews", Cfg: "Trace_MemViews.cfg", Run: runConvCase, Sig: sigConv})

func checkC20(c *Ctx) {
	c.rule = "MC: all input shapes (whole string, substring of a larger string, empty) x conversion/append histories of 4 steps: no write lands in string memory when cap = len (and TLC finds the violation when the design keeps the backing array's capacity). TRACE: every shape (whole, substring, spare capacity, empty, nil) x lengths 0..5000 x append histories, and a grid of lengths (0..16 MiB, thorough 64 MiB, incl. 2^16 and 2^20 +-1) x spare capacities (0..1 MiB) of the backing array on the StringToBinary result; TLC checks len/cap/content/shared pointer and that appends never happen in place; strings converted from a caller's fixed-size scratch buffer are kept beyond the caller's frame and re-compared. GIANT (Go monitor): 2^31, 2^31+3, 2^32-1, 2^32, 2^32+5 bytes of a lazily mapped buffer converted in both directions (length, ends, shared memory). The giant sizes sweep 2^k +- 1, 1.5 x 2^k and 1.25 x 2^k + 7 for k = 25..32. Contents whose first bytes spell their own remaining length (32-bit big / little endian, 16 bit, one byte)."
	c.MC("MC_MemViews.tla", "MC_MemViews.cfg", 4)
	var cases []json.RawMessage
	rng := rand.New(rand.NewSource(c.Seed + 20))
	for _, sh := range []string{"whole", "sub", "spare", "empty", "nil"} {
		for _, n := range []int{0, 1, 2, 7, 8, 15, 16, 31, 32, 33, 100, 1000, 4096, 5000} {
			if (sh == "empty" || sh == "nil") && n > 0 {
				continue
			}
			for _, adds := range [][]int{nil, {1}, {0, 1}, {1, 1, 1}, {16}, {3, 100}} {
				cases = append(cases, mustJSON(ConvCase{Shape: sh, N: n, Off: 1 + n%5, Adds: adds}))
			}
		}
	}
	// small and large values inside small and large backing arrays (length x spare-capacity grid)
	spares := []int{0, 1, 15, 16, 17, 100, 239, 240, 255, 256, 257, 1000, 4095, 4096, 65536, 1 << 20}
	ns := []int{0, 1, 2, 3, 5, 8, 15, 16, 17, 24, 31, 32, 33, 63, 64, 65, 127, 128, 255, 256, 257, 1024, 4096, 65535, 65536, 65537, 70000,
		1<<20 - 1, 1 << 20, 1<<20 + 1, 3 << 20, 1<<24 + 5}
	if c.Thorough() {
		ns = ns[:0]
		for n := 0; n <= 300; n++ {
			ns = append(ns, n)
		}
		ns = append(ns, 1024, 4095, 4096, 4097, 65535, 65536, 65537, 70000, 1<<20-1, 1<<20, 1<<20+1, 3<<20, 1<<24+5, 1<<26+1)
	}
	for _, sh := range []string{"sub", "spare"} {
		for _, n := range ns {
			for _, sp := range spares {
				if n > 1<<20 && sp != 0 && sp != 17 {
					continue
				}
				cases = append(cases, mustJSON(ConvCase{Shape: sh, N: n, Off: n % 3, Spare: sp, Adds: []int{1}}))
			}
		}
	}
	for _, lp := range []int{4, -4, 2, 1} { // contents that spell their own remaining length
		for _, n := range []int{5, 6, 8, 9, 12, 16, 100, 255, 256, 260, 4100, 65540} {
			for _, sh := range []string{"whole", "sub", "spare"} {
				cases = append(cases, mustJSON(ConvCase{Shape: sh, N: n, Off: 3, Spare: 7, Lp: lp}))
			}
		}
	}
	for i := 0; i < c.Pick(300, 10000); i++ {
		cs := ConvCase{Shape: []string{"whole", "sub", "spare"}[rng.Intn(3)], N: rng.Intn(300), Off: rng.Intn(40), Spare: []int{0, 0, 7, 300, 5000}[rng.Intn(5)]}
		for j := rng.Intn(4); j > 0; j-- {
			cs.Adds = append(cs.Adds, rng.Intn(40))
		}
		cases = append(cases, mustJSON(cs))
	}
	c.TraceCheck(famConv, cases)
	giantConvMonitor(c)
	c.Assume("pointer identity, len, cap and content are read with unsafe.SliceData/StringData in the harness; in-place modification of a StringToBinary result is caller misuse and not an action of the model")
}

// giantConvMonitor: lengths at and beyond 2^32 (Go monitor: TLC's integers are 32 bits wide).  The pages of the 4 GiB
// buffer are mapped lazily and only its ends are touched.
func giantConvMonitor(c *Ctx) {
	var buf []byte
	func() {
		defer func() { recover() }()
		buf = make([]byte, 1<<32+5)
	}()
	if buf == nil {
		c.Assume("conversions of 4 GiB values skipped: the address space could not be reserved")
		return
	}
	sizes := []int{1<<32 - 1, 1 << 32, 1<<32 + 5, 1<<31 + 3, 1 << 31}
	for k := 25; k <= 32; k++ { // around and between the powers of two up to 4 GiB
		sizes = append(sizes, 1<<k-1, 1<<k+1, 1<<k+1<<(k-1), 1<<k+1<<(k-2)+7)
	}
	for _, n := range sizes {
		if n > len(buf) {
			continue
		}
		b := buf[:n:n]
		b[0], b[n-1], b[n/2] = 0xA1, 0xB2, 0xC3
		bad := guarded(func() string {
			s := unsafex.BinaryToString(b)
			if len(s) != n {
				return fmt.Sprintf("BinaryToString of %d bytes has length %d", n, len(s))
			}
			if s[0] != 0xA1 || s[n-1] != 0xB2 || s[n/2] != 0xC3 || unsafe.StringData(s) != &b[0] {
				return fmt.Sprintf("BinaryToString of %d bytes: content or memory differs", n)
			}
			r := unsafex.StringToBinary(s)
			if len(r) != n || cap(r) != n {
				return fmt.Sprintf("StringToBinary of a %d-byte string has len %d cap %d", n, len(r), cap(r))
			}
			if r[0] != 0xA1 || r[n-1] != 0xB2 || &r[0] != &b[0] {
				return fmt.Sprintf("StringToBinary of a %d-byte string: content or memory differs", n)
			}
			return ""
		})
		b[0], b[n-1], b[n/2] = 0, 0, 0
		c.AddEvals(1)
		if bad != "" {
			c.GoViolation("giant-C20", "conv/giant", map[string]int{"n": n}, bad)
		}
	}
}

// ---- C16 ------------------------------------------------------------------------

type IndepCase struct {
	Span  bool   `json:"span"`
	API   string `json:"api"` // buffer | stream
	Lens  []int  `json:"lens"`
	Seed  int64  `json:"seed"`
	Kinds []int  `json:"kinds"` // 0 string, 1 binary
	// Hdr: a container header (map<string,string>) precedes the values and is read first; Same: all values carry the same
	// bytes (equal lengths => identical contents), as repeated keys / values of a real container do
	Hdr  bool `json:"hdr,omitempty"`
	Same bool `json:"same,omitempty"`
}

type decRec struct {
	addr  uintptr
	ln    int
	cp    int
	b     []byte // the result (for strings: a view of its bytes)
	ref   []byte
	isStr bool
}

func runIndepCase(raw json.RawMessage, w *TraceWriter) {
	var c IndepCase
	if err := json.Unmarshal(raw, &c); err != nil {
		panic(err)
	}
	// input: a sequence of encoded strings
	var in []byte
	var offs []int
	pat := func(i, n int) []byte {
		if c.Same {
			return PatBytes(1, 0, n)
		}
		return PatBytes(i+1, 0, n)
	}
	if c.Hdr {
		in = thrift.Binary.AppendMapBegin(in, thrift.STRING, thrift.STRING, (len(c.Lens)+1)/2)
	}
	hdrLen := len(in)
	for i, n := range c.Lens {
		offs = append(offs, len(in))
		in = append(in, byte(n>>24), byte(n>>16), byte(n>>8), byte(n))
		in = append(in, pat(i, n)...)
	}
	if c.API != "buffer" {
		// bytes the stream reader has buffered but nobody reads: Release has to move them to the front of its buffer
		in = append(in, PatBytes(99, 0, 100)...)
	}
	inCopy := append([]byte(nil), in...)
	var rd bufiox.Reader
	run := func(span bool) []decRec {
		thrift.SetSpanCache(span)
		defer thrift.SetSpanCache(false)
		var recs []decRec
		var br *thrift.BufferReader
		switch c.API {
		case "stream":
			rd = bufiox.NewDefaultReader(&dataSource{data: in, chunks: []int{4096, 1000}})
		case "streambytes": // the reader's buffer IS the input
			rd = bufiox.NewBytesReader(in)
		}
		if rd != nil {
			br = thrift.NewBufferReader(rd)
			defer br.Recycle()
		}
		off := hdrLen
		if c.Hdr && br != nil {
			if _, _, _, err := br.ReadMapBegin(); err != nil {
				return recs
			}
		}
		for i, n := range c.Lens {
			var res []byte
			isStr := c.Kinds[i%len(c.Kinds)] == 0
			if c.API != "buffer" {
				if isStr {
					s, err := br.ReadString()
					if err != nil {
						return recs
					}
					res = unsafe.Slice(unsafe.StringData(s), len(s))
				} else {
					b, err := br.ReadBinary()
					if err != nil {
						return recs
					}
					res = b
				}
			} else {
				if isStr {
					s, l, err := thrift.Binary.ReadString(in[off:])
					if err != nil {
						return recs
					}
					off += l
					res = unsafe.Slice(unsafe.StringData(s), len(s))
				} else {
					b, l, err := thrift.Binary.ReadBinary(in[off:])
					if err != nil {
						return recs
					}
					off += l
					res = b
				}
			}
			cp := cap(res)
			if isStr {
				cp = len(res)
			}
			rec := decRec{addr: dataPtr(res), ln: len(res), cp: cp, b: res, ref: pat(i, n), isStr: isStr}
			if isStr && len(res) == 1 {
				// the Go runtime backs every one-byte string made by conversion with one shared read-only table, so two equal
				// one-byte strings share that immutable byte: unless it lies in the input, such a result has no memory of its own
				a, lo := dataPtr(res), dataPtr(in)
				if a < lo || a >= lo+uintptr(len(in)) {
					rec.ln, rec.cp = 0, 0
				}
			}
			recs = append(recs, rec)
		}
		return recs
	}
	recs := run(c.Span)
	// cluster addresses
	type ar struct {
		addr uintptr
		idx  int
	}
	addrs := []ar{{dataPtr(in), -1}}
	for i, r := range recs {
		if r.ln > 0 || r.cp > 0 {
			addrs = append(addrs, ar{r.addr, i})
		}
	}
	sort.Slice(addrs, func(i, j int) bool { return addrs[i].addr < addrs[j].addr })
	cluster := map[int][2]int{}
	cid, base := 0, uintptr(0)
	for i, a := range addrs {
		if i == 0 || a.addr-addrs[i-1].addr >= 1<<28 {
			cid++
			base = a.addr
		}
		cluster[a.idx] = [2]int{cid, int(a.addr - base)}
	}
	ic := cluster[-1]
	w.Ev("reset", "input", Raw(fmt.Sprintf(`{"c":%d,"o":%d,"len":%d}`, ic[0], ic[1], len(in))), "span", c.Span)
	for i, r := range recs {
		cl, ok := cluster[i]
		if !ok {
			cl = [2]int{0, 0}
		}
		w.Ev("dec", "i", i, "api", c.API, "span", c.Span, "region", Raw(fmt.Sprintf(`{"c":%d,"o":%d,"len":%d,"cap":%d}`, cl[0], cl[1], r.ln, r.cp)),
			"valok", bytes.Equal(r.b, r.ref))
	}
	allIntact := func() bool {
		for _, r := range recs {
			if !bytes.Equal(r.b, r.ref) {
				return false
			}
		}
		return true
	}
	// 1. reuse / overwrite the input buffer
	for i := range in {
		in[i] ^= 0x5A
	}
	w.Ev("mut", "what", "input-overwritten", "intact", allIntact(), "inputintact", true)
	copy(in, inCopy)
	// 1b. the stream reader is released (unread bytes move to the front of its buffer, or the buffer returns to the
	// pool) and the pool hands its buffers to somebody else who fills them
	if rd != nil {
		rd.Release(nil)
		var held [][]byte
		for _, sz := range []int{4096, 8192, 16384, 65536, 131072, 262144, 4096, 8192} {
			b := mcache.Malloc(sz)
			for k := range b {
				b[k] = 0xEE
			}
			held = append(held, b)
		}
		for _, b := range held {
			mcache.Free(b)
		}
		w.Ev("mut", "what", "reader-released-and-buffers-reused", "intact", allIntact(), "inputintact", bytes.Equal(in, inCopy))
	}
	// 1c. the stream reader object was recycled: whoever gets it from the pool next decodes OTHER data of the same
	// shape (twice, so that a per-reader scratch area is certainly overwritten); earlier results must not change
	if c.API != "buffer" {
		var in2 []byte
		for i, n := range c.Lens {
			in2 = append(in2, byte(n>>24), byte(n>>16), byte(n>>8), byte(n))
			in2 = append(in2, PatBytes(i+131, 7, n)...)
		}
		for rep := 0; rep < 2; rep++ {
			rd2 := bufiox.NewBytesReader(in2)
			br2 := thrift.NewBufferReader(rd2)
			for i := range c.Lens {
				var err error
				if c.Kinds[i%len(c.Kinds)] == 0 {
					_, err = br2.ReadString()
				} else {
					_, err = br2.ReadBinary()
				}
				if err != nil {
					break
				}
			}
			br2.Recycle()
			rd2.Release(nil)
		}
		w.Ev("mut", "what", "reader-recycled-and-reused-for-other-data", "intact", allIntact(), "inputintact", bytes.Equal(in, inCopy))
	}
	// 1d. the allocator configuration is set again (a second component of the process calls SetSpanCache, or it is
	// switched off and on) and other data of the same shape is decoded: results handed out under the earlier setting
	// stay what they were, and the new results do not share memory with them
	for rep, toggles := range [][]bool{{true}, {false, true}} {
		for _, t := range toggles {
			thrift.SetSpanCache(t)
		}
		var in3 []byte
		for i, n := range c.Lens {
			in3 = append(in3, byte(n>>24), byte(n>>16), byte(n>>8), byte(n))
			in3 = append(in3, PatBytes(i+57+rep, 3, n)...)
		}
		off, ok := 0, true
		for i, n := range c.Lens {
			var res []byte
			if c.Kinds[i%len(c.Kinds)] == 0 {
				s, l, err := thrift.Binary.ReadString(in3[off:])
				if err != nil {
					break
				}
				off += l
				res = unsafe.Slice(unsafe.StringData(s), len(s))
			} else {
				b, l, err := thrift.Binary.ReadBinary(in3[off:])
				if err != nil {
					break
				}
				off += l
				res = b
			}
			if !bytes.Equal(res, PatBytes(i+57+rep, 3, n)) {
				ok = false
			}
			if len(res) > 1 { // (one-byte strings may be interned by the runtime)
				lo, hi := dataPtr(res), dataPtr(res)+uintptr(len(res))
				for _, r := range recs {
					if r.ln > 1 && lo < r.addr+uintptr(r.ln) && r.addr < hi {
						ok = false
					}
				}
			}
		}
		thrift.SetSpanCache(false)
		w.Ev("mut", "what", "allocator-configured-again-and-other-data-decoded", "intact", ok && allIntact(), "inputintact", bytes.Equal(in, inCopy))
	}
	// 2. append to and modify every returned byte slice; the input and all other results must stay intact
	rng := rand.New(rand.NewSource(c.Seed))
	for i := range recs {
		if recs[i].isStr {
			continue
		}
		orig := recs[i].b
		grown := append(orig, bytes.Repeat([]byte{0xCC}, 1+rng.Intn(64))...)
		_ = grown
		for k := range orig {
			orig[k] ^= 0xFF
		}
		others := true
		for j, r := range recs {
			if j != i && !bytes.Equal(r.b, r.ref) {
				others = false
			}
		}
		w.Ev("mut", "what", "result-appended-and-modified", "intact", others, "inputintact", bytes.Equal(in, inCopy))
		for k := range orig {
			orig[k] ^= 0xFF
		}
	}
	// 2b. the results belong to the caller: with every byte-slice result overwritten, the same input decoded again
	// (same API, same setting) still yields the original values
	for i := range recs {
		if !recs[i].isStr {
			for k := range recs[i].b {
				recs[i].b[k] ^= 0xFF
			}
		}
	}
	again := run(c.Span)
	same := len(again) == len(recs)
	for i := range again {
		if same && !bytes.Equal(again[i].b, recs[i].ref) {
			same = false
		}
	}
	for i := range recs {
		if !recs[i].isStr {
			for k := range recs[i].b {
				recs[i].b[k] ^= 0xFF
			}
		}
	}
	w.Ev("mut", "what", "decoded-again-while-earlier-results-are-overwritten", "intact", same, "inputintact", bytes.Equal(in, inCopy))
	// 3. the same decode with the other span-cache setting gives identical values
	other := run(!c.Span)
	if rd != nil {
		rd.Release(nil)
	}
	eq := len(other) == len(recs)
	for i := range recs {
		if eq && !bytes.Equal(other[i].b, recs[i].ref) {
			eq = false
		}
	}
	w.Ev("cmp", "equal", eq)
}

func sigIndep(raw json.RawMessage, line string) string {
	why := ""
	if i := strings.Index(line, " // "); i >= 0 {
		why = line[i+4:]
	}
	var c IndepCase
	json.Unmarshal(raw, &c)
	return fmt.Sprintf("indep/%s/%s/span=%v", why, c.API, c.Span)
}

var famIndep = Register(&Family{Name: "indep", Spec: "Trace_MemViews", Cfg: "Trace_MemViews.cfg", Run: runIndepCase, Sig: sigIndep})

// manyDistinctMonitor: a process that has decoded tens of thousands of DISTINCT short values (method names, strings) - so
// that any bounded table of seen values is full - and then decodes values it has not seen: they are independent copies
// like the first ones (Go monitor: the history is the point, not the individual value).
func manyDistinctMonitor(c *Ctx) {
	const prelude = 40000
	bp := thrift.Binary
	type api struct {
		name string
		dec  func(in []byte) (string, bool)
		enc  func(v string) []byte
	}
	msg := func(v string) []byte { return bp.AppendFieldStop(bp.AppendMessageBegin(nil, v, thrift.CALL, 1)) }
	str := func(v string) []byte { return bp.AppendString(nil, v) }
	apis := []api{
		{"Binary.ReadMessageBegin", func(in []byte) (string, bool) { n, _, _, _, err := bp.ReadMessageBegin(in); return n, err == nil }, msg},
		{"BufferReader.ReadMessageBegin", func(in []byte) (string, bool) {
			rd := bufiox.NewBytesReader(in)
			br := thrift.NewBufferReader(rd)
			n, _, _, err := br.ReadMessageBegin()
			br.Recycle()
			rd.Release(nil)
			return n, err == nil
		}, msg},
		{"UnmarshalFastMsg", func(in []byte) (string, bool) {
			n, _, err := thrift.UnmarshalFastMsg(in, thrift.NewApplicationException(0, ""))
			return n, err == nil
		}, msg},
		{"Binary.ReadString", func(in []byte) (string, bool) { v, _, err := bp.ReadString(in); return v, err == nil }, str},
		{"Binary.ReadBinary", func(in []byte) (string, bool) { v, _, err := bp.ReadBinary(in); return string(v), err == nil }, str},
		{"BufferReader.ReadString", func(in []byte) (string, bool) {
			rd := bufiox.NewBytesReader(in)
			br := thrift.NewBufferReader(rd)
			v, err := br.ReadString()
			br.Recycle()
			rd.Release(nil)
			return v, err == nil
		}, str},
	}
	for _, span := range []bool{false, true} {
		thrift.SetSpanCache(span)
		for _, a := range apis {
			for i := 0; i < prelude; i++ {
				a.dec(a.enc(fmt.Sprintf("method-%d-%v", i, span)))
			}
			bad := ""
			for i := 0; i < 40 && bad == ""; i++ {
				want := fmt.Sprintf("unseen-%s-%d-%v", a.name, i, span)
				if i%4 == 3 {
					want = want[:3+i%5] + strings.Repeat("z", i)
				}
				in := a.enc(want)
				got, ok := a.dec(in)
				if !ok || got != want {
					bad = fmt.Sprintf("%q decoded as %q (ok=%v)", want, got, ok)
					break
				}
				lo, hi := dataPtr(in), dataPtr(in)+uintptr(len(in))
				if p := uintptr(unsafe.Pointer(unsafe.StringData(got))); len(got) > 1 && p >= lo && p < hi {
					bad = fmt.Sprintf("the decoded value %q lives inside the input buffer", want)
				}
				for k := range in {
					in[k] ^= 0x5A
				}
				if got != want {
					bad = fmt.Sprintf("the decoded value %q changed when the input buffer was reused (after %d distinct values had been decoded)", want, prelude+i)
				}
			}
			c.AddEvals(prelude + 40)
			if bad != "" {
				thrift.SetSpanCache(false)
				c.GoViolation("distinct-C16", "indep/many-distinct/"+a.name, map[string]interface{}{"api": a.name, "span": span}, bad)
				return
			}
		}
	}
	thrift.SetSpanCache(false)
}

// headerMapsMonitor: the keys and values of the maps ttheader.Decode returns are decoded values too: they stay what they
// are when the input buffer is reused / the stream reader is released and its buffers are refilled.  Frames as a peer
// may send them: unique keys, the same key in two str sections, the ACL section followed by a pair with its key.
func headerMapsMonitor(c *Ctx) {
	str := func(pairs ...string) []byte {
		b := []byte{0x01, 0, byte(len(pairs) / 2)}
		for _, p := range pairs {
			b = append(b, byte(len(p)>>8), byte(len(p)))
			b = append(b, p...)
		}
		return b
	}
	acl := func(tok string) []byte { return append([]byte{0x11, byte(len(tok) >> 8), byte(len(tok))}, tok...) }
	intsec := func(k uint16, v string) []byte {
		return append([]byte{0x10, 0, 1, byte(k >> 8), byte(k), byte(len(v) >> 8), byte(len(v))}, v...)
	}
	type fr struct {
		name  string
		parts [][]byte
		str   map[string]string
		ints  map[uint16]string
	}
	frames := []fr{
		{"unique keys", [][]byte{str("tc", "cluster-a", "rip", "10.0.0.1"), intsec(7, "seven")}, map[string]string{"tc": "cluster-a", "rip": "10.0.0.1"}, map[uint16]string{7: "seven"}},
		{"a key repeated in a second str section", [][]byte{str("tc", "first", "k", "v"), str("tc", "second-value")}, map[string]string{"tc": "second-value", "k": "v"}, nil},
		{"a key repeated inside one section", [][]byte{str("tc", "first", "tc", "again")}, map[string]string{"tc": "again"}, nil},
		{"ACL section, then a pair with its key", [][]byte{acl("tok-1"), str(ttheader.GDPRToken, "tok-2", "x", "y")}, map[string]string{ttheader.GDPRToken: "tok-2", "x": "y"}, nil},
		{"a pair with the ACL key, then the ACL section", [][]byte{str(ttheader.GDPRToken, "tok-0"), acl("tok-9")}, map[string]string{ttheader.GDPRToken: "tok-9"}, nil},
		{"int key repeated in a second int section", [][]byte{intsec(7, "a"), intsec(7, "bb"), intsec(8, "c")}, nil, map[uint16]string{7: "bb", 8: "c"}},
	}
	same := func(got map[string]string, want map[string]string) bool {
		if len(got) != len(want) {
			return false
		}
		for k, v := range want {
			if g, ok := got[k]; !ok || g != v {
				return false
			}
		}
		for k := range got { // every stored key, as ranged over, is one of the expected ones
			if _, ok := want[k]; !ok {
				return false
			}
		}
		return true
	}
	for _, f := range frames {
		info := []byte{0, 0}
		for _, p := range f.parts {
			info = append(info, p...)
		}
		for len(info)%4 != 0 {
			info = append(info, 0)
		}
		frame := make([]byte, 14, 14+len(info)+4)
		frame[4] = 0x10
		frame[11] = 9
		frame[12], frame[13] = byte(len(info)/4>>8), byte(len(info)/4)
		frame = append(append(frame, info...), 'p', 'a', 'y', '!')
		binary.BigEndian.PutUint32(frame, uint32(len(frame)-4))
		for _, how := range []string{"DecodeFromBytes", "Decode"} {
			bad := guarded(func() string {
				in := append([]byte(nil), frame...)
				var d ttheader.DecodeParam
				var err error
				if how == "Decode" {
					rd := bufiox.NewDefaultReader(&dataSource{data: in, chunks: []int{4096}})
					d, err = ttheader.Decode(context.Background(), rd)
					rd.Skip(d.PayloadLen)
					rd.Release(nil)
					var held [][]byte // whoever gets the reader's buffers next fills them
					for _, sz := range []int{4096, 4096, 8192, 16384, 4096} {
						b := mcache.Malloc(sz)
						for k := range b {
							b[k] = '#'
						}
						held = append(held, b)
					}
					for _, b := range held {
						mcache.Free(b)
					}
				} else {
					d, err = ttheader.DecodeFromBytes(context.Background(), in)
				}
				if err != nil {
					return fmt.Sprintf("%s refused the frame: %v", how, err)
				}
				for k := range in {
					in[k] = '#'
				}
				want := f.str
				if want == nil {
					want = map[string]string{}
				}
				if !same(d.StrInfo, want) {
					return fmt.Sprintf("%s: after the input was reused StrInfo reads %q, want %q", how, d.StrInfo, want)
				}
				if len(d.IntInfo) != len(f.ints) {
					return fmt.Sprintf("%s: IntInfo %v, want %v", how, d.IntInfo, f.ints)
				}
				for k, v := range f.ints {
					if d.IntInfo[k] != v {
						return fmt.Sprintf("%s: after the input was reused IntInfo[%d] reads %q, want %q", how, k, d.IntInfo[k], v)
					}
				}
				return ""
			})
			c.AddEvals(1)
			if bad != "" {
				c.GoViolation("hdrmaps-C16", "indep/header-maps/"+how, map[string]string{"frame": f.name, "api": how}, f.name+": "+bad)
			}
		}
	}
}

// structStringsMonitor: the strings inside what the struct decoders return (Base / BaseResp / ApplicationException fields,
// map keys and values, unknown-field trees, method names of UnmarshalFastMsg) are decoded values as well: none of them
// lives in the input, all of them survive its reuse; span cache off and on, lengths from every size class (Go monitor)
func structStringsMonitor(c *Ctx) {
	bp := thrift.Binary
	inside := func(s string, in []byte) bool {
		if len(s) < 2 || len(in) == 0 {
			return false
		}
		p, lo := uintptr(unsafe.Pointer(unsafe.StringData(s))), dataPtr(in)
		return p >= lo && p < lo+uintptr(len(in))
	}
	for _, span := range []bool{false, true} {
		for _, n := range []int{2, 7, 31, 127, 128, 129, 1000, 4096, 70000, 131073} {
			str := func(k int) string { return string(PatBytes(40+k, k, n)) }
			bad := guarded(func() string {
				thrift.SetSpanCache(span)
				defer thrift.SetSpanCache(false)
				// Base
				b := &base.Base{LogID: str(1), Caller: str(2), Addr: str(3), Extra: map[string]string{str(4): str(5), "k": str(6)}}
				in := thrift.FastMarshal(b)
				nb := base.NewBase()
				if err := thrift.FastUnmarshal(in, nb); err != nil {
					return "Base: " + err.Error()
				}
				var all []string
				all = append(all, nb.LogID, nb.Caller, nb.Addr)
				for k, v := range nb.Extra {
					all = append(all, k, v)
				}
				for _, x := range all {
					if inside(x, in) {
						return fmt.Sprintf("a string of %d bytes decoded by Base.FastRead lives inside the input", len(x))
					}
				}
				for i := range in {
					in[i] = '#'
				}
				if nb.LogID != str(1) || nb.Caller != str(2) || nb.Addr != str(3) || len(nb.Extra) != 2 || nb.Extra[str(4)] != str(5) || nb.Extra["k"] != str(6) {
					return "Base fields changed when the input was reused"
				}
				// BaseResp + ApplicationException through a message
				r := &base.BaseResp{StatusMessage: str(7), StatusCode: 3, Extra: map[string]string{str(8): str(9)}}
				mname := str(10)
				if len(mname) > 200 {
					mname = mname[:200]
				}
				msg, _ := thrift.MarshalFastMsg(mname, thrift.REPLY, 9, r)
				nr := base.NewBaseResp()
				name, _, err := thrift.UnmarshalFastMsg(msg, nr)
				if err != nil {
					return "BaseResp message: " + err.Error()
				}
				if inside(name, msg) || inside(nr.StatusMessage, msg) {
					return "a method name / status message decoded by UnmarshalFastMsg lives inside the input"
				}
				for i := range msg {
					msg[i] = '#'
				}
				if name != mname || nr.StatusMessage != str(7) || nr.Extra[str(8)] != str(9) {
					return "method name / BaseResp fields changed when the input was reused"
				}
				emsg, _ := thrift.MarshalFastMsg("m", thrift.EXCEPTION, 9, thrift.NewApplicationException(6, str(11)))
				_, _, eerr := thrift.UnmarshalFastMsg(emsg, nil)
				var ae *thrift.ApplicationException
				if !errors.As(eerr, &ae) {
					return "EXCEPTION message did not come back as an application exception"
				}
				if inside(ae.Msg(), emsg) {
					return "an exception message decoded by UnmarshalFastMsg lives inside the input"
				}
				for i := range emsg {
					emsg[i] = '#'
				}
				if ae.Msg() != str(11) {
					return "the exception message changed when the input was reused"
				}
				// unknown-field tree: a string field, a binary-as-string inside a list, map keys and values
				var uin []byte
				uin = bp.AppendString(bp.AppendFieldBegin(uin, thrift.STRING, 1), str(12))
				uin = bp.AppendListBegin(bp.AppendFieldBegin(uin, thrift.LIST, 2), thrift.STRING, 2)
				uin = bp.AppendString(bp.AppendString(uin, str(13)), str(14))
				uin = bp.AppendMapBegin(bp.AppendFieldBegin(uin, thrift.MAP, 3), thrift.STRING, thrift.STRING, 1)
				uin = bp.AppendString(bp.AppendString(uin, str(15)), str(16))
				fs, err := unknownfields.ConvertUnknownFields(uin)
				if err != nil || len(fs) != 3 {
					return "unknown fields did not convert"
				}
				// ... and through the reflective entry point: the holder's own bytes are then overwritten as well
				holderBytes := append([]byte(nil), uin...)
				gfs, gerr := unknownfields.GetUnknownFields(&withUnknown{A: 1, _unknownFields: holderBytes})
				if gerr != nil || len(gfs) != 3 {
					return "GetUnknownFields did not convert"
				}
				var gleaves []string
				var gwalk func(f unknownfields.UnknownField)
				gwalk = func(f unknownfields.UnknownField) {
					switch v := f.Value.(type) {
					case string:
						gleaves = append(gleaves, v)
					case []unknownfields.UnknownField:
						for _, x := range v {
							gwalk(x)
						}
					}
				}
				for _, f := range gfs {
					gwalk(f)
				}
				for _, x := range gleaves {
					if inside(x, holderBytes) {
						return fmt.Sprintf("a string of %d bytes returned by GetUnknownFields lives inside the holder's bytes", len(x))
					}
				}
				for i := range holderBytes {
					holderBytes[i] = '#'
				}
				for i, x := range gleaves {
					if x != []string{str(12), str(13), str(14), str(15), str(16)}[i] {
						return "a string returned by GetUnknownFields changed when the holder's bytes were reused"
					}
				}
				var leaves []string
				var walk func(f unknownfields.UnknownField)
				walk = func(f unknownfields.UnknownField) {
					switch v := f.Value.(type) {
					case string:
						leaves = append(leaves, v)
					case []unknownfields.UnknownField:
						for _, x := range v {
							walk(x)
						}
					}
				}
				for _, f := range fs {
					walk(f)
				}
				for _, x := range leaves {
					if inside(x, uin) {
						return fmt.Sprintf("a string of %d bytes inside the unknown-field tree lives inside the input", len(x))
					}
				}
				for i := range uin {
					uin[i] = '#'
				}
				want := []string{str(12), str(13), str(14), str(15), str(16)}
				if len(leaves) != len(want) {
					return "unknown-field tree has the wrong number of string leaves"
				}
				for i := range want {
					if leaves[i] != want[i] {
						return "a string inside the unknown-field tree changed when the input was reused"
					}
				}
				return ""
			})
			c.AddEvals(20)
			if bad != "" {
				c.GoViolation("structstr-C16", "indep/struct-strings", map[string]interface{}{"span": span, "n": n}, fmt.Sprintf("span=%v n=%d: %s", span, n, bad))
				return
			}
		}
	}
}

func init() {
	goReplays["structstr-C16"] = func(c *Ctx, raw json.RawMessage) { structStringsMonitor(c) }
	goReplays["hdrmaps-C16"] = func(c *Ctx, raw json.RawMessage) { headerMapsMonitor(c) }
	goReplays["distinct-C16"] = func(c *Ctx, raw json.RawMessage) { manyDistinctMonitor(c) }
}

func checkC16(c *Ctx) {
	c.rule = "MC: span allocator regions are pairwise disjoint, in bounds and have cap = len over request runs that wrap the span (scaled span size), private allocation beyond the span size. TRACE: decode runs of strings/binaries with lengths from every span class (0, <128, 128..128KiB, larger) incl. long runs that wrap the 1 MiB span, buffer and stream readers (over an io.Reader source and over the input slice itself), both SetSpanCache settings; every result's memory region [addr, addr+cap) must be disjoint from the input and from every other result, results must be unchanged after the input is overwritten, after the stream reader is released with unread bytes and the pool's buffers are refilled by another user, after the recycled reader object decoded other data, and after every other result is appended to and modified, and values must be identical with the span cache on and off. MANY DISTINCT VALUES (Go monitor): 40000 distinct short values through every name / string returning API (ReadMessageBegin of both readers, UnmarshalFastMsg, ReadString, ReadBinary; span cache off and on), then unseen values must still be independent copies. Every byte-slice result is overwritten by its owner and the same input decoded again. HEADER MAPS (Go monitor): the keys and values of the maps ttheader.Decode / DecodeFromBytes return (unique keys, keys repeated across sections, the ACL section followed by a pair with its key) after the input is reused and the reader buffers are refilled. STRUCT STRINGS (Go monitor): the strings inside Base / BaseResp / ApplicationException, unknown-field trees (Convert and GetUnknownFields) and method names of UnmarshalFastMsg after the input / holder is reused."
	c.MC("MC_MemViews.tla", "MC_MemViews.cfg", 4)
	var cases []json.RawMessage
	rng := rand.New(rand.NewSource(c.Seed + 16))
	classes := []int{0, 1, 5, 16, 31, 32, 33, 64, 127, 128, 129, 1000, 4096, 65536, 131071, 131072, 200000}
	for _, span := range []bool{false, true} {
		for _, api := range []string{"buffer", "stream", "streambytes"} {
			for _, n := range classes {
				cases = append(cases, mustJSON(IndepCase{Span: span, API: api, Lens: []int{n, n, 3, n}, Kinds: []int{0, 1}, Seed: int64(n)}))
			}
			// long runs that wrap the 1 MiB span (class 128..255 and 64K..128K)
			wrap := make([]int, 0, 40)
			for i := 0; i < 24; i++ {
				wrap = append(wrap, 100000)
			}
			cases = append(cases, mustJSON(IndepCase{Span: span, API: api, Lens: wrap, Kinds: []int{1}, Seed: 1}))
			small := make([]int, 0, 9000)
			for i := 0; i < c.Pick(5000, 9000); i++ {
				small = append(small, 200+i%56)
			}
			if span || c.Thorough() {
				cases = append(cases, mustJSON(IndepCase{Span: span, API: api, Lens: small, Kinds: []int{1, 0}, Seed: 2}))
			}
			// container shapes: a header in front, identical contents (repeated keys / values), binary then string and back
			for _, n := range []int{1, 7, 8, 12, 64, 127, 128, 255, 256, 257, 1000, 4096, 70000} {
				for _, kinds := range [][]int{{1, 0}, {0, 1}, {0}, {1}} {
					for _, hdr := range []bool{false, true} {
						cases = append(cases, mustJSON(IndepCase{Span: span, API: api, Lens: []int{n, n, n, n, n + 1, n}, Kinds: kinds, Seed: int64(n), Hdr: hdr, Same: true}))
					}
				}
			}
			for i := 0; i < c.Pick(40, 800); i++ {
				k := 1 + rng.Intn(30)
				ls := make([]int, k)
				for j := range ls {
					ls[j] = classes[rng.Intn(len(classes)-3)]
					if rng.Intn(3) == 0 {
						ls[j] = rng.Intn(3000)
					}
				}
				cases = append(cases, mustJSON(IndepCase{Span: span, API: api, Lens: ls, Kinds: []int{rng.Intn(2), rng.Intn(2)}, Seed: rng.Int63()}))
			}
		}
	}
	c.TraceCheck(famIndep, cases)
	manyDistinctMonitor(c)
	headerMapsMonitor(c)
	structStringsMonitor(c)
	c.Assume("result regions are projected as (cluster, offset, len, cap) from real addresses; strings count with cap = len")
}

func init() {
	checks["C20"] = checkC20
	checks["C16"] = checkC16
}
