package main

import (
	"context"
	"encoding/json"
	"errors"
	"fmt"
	"io"
	"math"
	"math/rand"
	"net"
	"os"
	"sort"
	"strings"
	"syscall"
	"time"

	"github.com/cloudwego/gopkg/bufiox"
)

// ---------------------------------------------------------------------------
// C04 — buffered reader delivers the source bytes exactly, in order.
// Spec: BufReader.tla (ReaderImpl + ReaderAbs), MC_BufReader, Trace_BufReader.

type RdOp struct {
	Op string `json:"op"` // next | peek | skip | readbinary | release
	N  int    `json:"n"`
}

type RdCase struct {
	Fl     string `json:"fl"`  // io | bytes
	S      int    `json:"S"`   // stream length (= position of the source fault)
	Cap    int    `json:"cap"` // bytes flavour: capacity of the caller's slice
	Fk     string `json:"fk"`  // EOF | ERR
	Wd     bool   `json:"wd"`  // final data delivered together with the error
	Seed   int    `json:"seed"`
	Chunks []int  `json:"chunks"` // cyclic chunk schedule: k>0 at most k bytes, 0 empty read, -1 as much as fits
	Ops    []RdOp `json:"ops"`
	// ErrKind (with fk = ERR): which error value the source fails with: "" = a private sentinel, or one of the well-known
	// ones a real connection produces (EINTR, EAGAIN, deadline exceeded, closed, cancelled; bare or wrapped)
	ErrKind string `json:"errkind,omitempty"`
	// Rich: the source's dynamic type also is a net.Conn and offers Len / Buffered / Available ("readable right now": a
	// few bytes), ReadByte, Close ...: what connections and buffered streams look like
	Rich bool `json:"rich,omitempty"`
}

var errInjected = errors.New("verif: injected source error")

// wellKnownSrcErrs: error values of real sources. For the reader they are all just "the source's own error".
var wellKnownSrcErrs = map[string]error{
	"EINTR":      syscall.EINTR,
	"EAGAIN":     syscall.EAGAIN,
	"WRAPEINTR":  os.NewSyscallError("read", syscall.EINTR),
	"PATHEINTR":  &os.PathError{Op: "read", Path: "/dev/x", Err: syscall.EINTR},
	"TIMEOUT":    os.ErrDeadlineExceeded,
	"CLOSED":     net.ErrClosed,
	"CANCEL":     context.Canceled,
	"CLOSEDPIPE": io.ErrClosedPipe,
	"SHORTBUF":   io.ErrShortBuffer,
}

var errReleaseArg = errors.New("verif: the error handed to Release")

// curSrcErr is the error value of the case being run (the drivers run cases one after the other)
var curSrcErr error = errInjected

// patSource is the io.Reader fault/fragmentation machine of the IOSource part of the specification.
type patSource struct {
	seed, S, pos int
	fk           string
	wd           bool
	chunks       []int
	ci           int
	failed       bool
	w            *TraceWriter
	handed       int // bytes handed over so far
	quiet        bool
	errKind      string
}

func (s *patSource) err() error {
	if s.fk == "EOF" {
		return io.EOF
	}
	if e, ok := wellKnownSrcErrs[s.errKind]; ok {
		return e
	}
	return errInjected
}

func (s *patSource) Read(p []byte) (int, error) {
	want := len(p)
	m := 0
	var e error
	if s.failed || s.S-s.pos == 0 {
		s.failed = true
		e = s.err()
	} else {
		left := s.S - s.pos
		m = want
		if left < m {
			m = left
		}
		c := -1
		if len(s.chunks) > 0 {
			c = s.chunks[s.ci%len(s.chunks)]
			s.ci++
		}
		if c >= 0 && c < m {
			m = c
		}
		PatFill(p[:m], s.seed, s.pos)
		s.pos += m
		if m == left && s.wd {
			s.failed = true
			e = s.err()
		}
	}
	s.handed += m
	if s.w != nil && !s.quiet {
		s.w.Ev("read", "want", want, "m", m, "e", errClass(e))
	}
	return m, e
}

type richSource struct{ patSource }

func (s *richSource) now() int {
	n := s.S - s.pos
	if n > 3 {
		n = 3
	}
	return n
}
func (s *richSource) Len() int                           { return s.now() }
func (s *richSource) Buffered() int                      { return s.now() }
func (s *richSource) Available() int                     { return s.now() }
func (s *richSource) Size() int64                        { return int64(s.now()) }
func (s *richSource) Write(p []byte) (int, error)        { return len(p), nil }
func (s *richSource) Close() error                       { return nil }
func (s *richSource) LocalAddr() net.Addr                { return &net.UnixAddr{Name: "verif-local", Net: "unix"} }
func (s *richSource) RemoteAddr() net.Addr               { return &net.UnixAddr{Name: "verif-remote", Net: "unix"} }
func (s *richSource) SetDeadline(t time.Time) error      { return nil }
func (s *richSource) SetReadDeadline(t time.Time) error  { return nil }
func (s *richSource) SetWriteDeadline(t time.Time) error { return nil }
func (s *richSource) ReadByte() (byte, error) { // one byte through the same script: recorded as a one-byte read
	var b [1]byte
	n, err := s.Read(b[:])
	if n == 1 {
		return b[0], nil
	}
	if err == nil {
		err = io.ErrNoProgress
	}
	return 0, err
}

var _ net.Conn = &richSource{}

func errClass(err error) string {
	switch {
	case err == nil:
		return "nil"
	case errors.Is(err, io.EOF):
		return "EOF"
	case errors.Is(err, errInjected) || (curSrcErr != nil && errors.Is(err, curSrcErr)):
		return "ERR"
	case errors.Is(err, io.ErrNoProgress):
		return "NOPROG"
	case err.Error() == "bufiox: negative count":
		return "NEG"
	}
	return "OTHER"
}

type rdStater interface {
	VerifState() bufiox.VerifReaderState
}

func rdStateJSON(r rdStater) Raw {
	st := r.VerifState()
	return Raw(fmt.Sprintf(`{"ri":%d,"len":%d,"cap":%d,"np":%d,"ro":%v,"err":%v}`, rdN(st.Ri), rdN(st.Len), rdN(st.Cap), st.NPend, st.RO, st.HasErr))
}

func runRdCase(raw json.RawMessage, w *TraceWriter) {
	var cs RdCase
	if err := json.Unmarshal(raw, &cs); err != nil {
		panic(err)
	}
	w.Ev("reset", "fam", "rd", "fl", cs.Fl, "S", cs.S, "cap", cs.Cap, "fk", cs.Fk, "wd", cs.Wd, "seed", cs.Seed)
	var r bufiox.Reader
	var callerBuf, callerCopy []byte
	if cs.Fl == "bytes" {
		callerBuf = make([]byte, cs.S, cs.Cap)
		PatFill(callerBuf, cs.Seed, 0)
		callerCopy = append([]byte(nil), callerBuf[:cap(callerBuf)]...)
		r = bufiox.NewBytesReader(callerBuf)
	} else {
		src := &patSource{seed: cs.Seed, S: cs.S, fk: cs.Fk, wd: cs.Wd, chunks: cs.Chunks, w: w, errKind: cs.ErrKind}
		curSrcErr = src.err()
		if cs.Rich {
			r = bufiox.NewDefaultReader(&richSource{*src})
		} else {
			r = bufiox.NewDefaultReader(src)
		}
	}
	_ = callerCopy
	st := r.(rdStater)
	rmarkPos := 0
	for opi, op := range cs.Ops {
		hint := rmarkPos + r.ReadLen()
		if op.Op == "release" {
			func() {
				defer func() {
					if p := recover(); p != nil {
						w.Ev("release", "rl", -1, "st", Raw(`{"ri":-1,"len":-1,"cap":-1,"np":-1,"ro":false,"err":false}`), "panic", fmt.Sprint(p))
					}
				}()
				rmarkPos = hint
				if (op.N+opi)%3 == 1 { // the argument ("the error the release depends on") changes nothing
					r.Release(errReleaseArg)
				} else {
					r.Release(nil)
				}
				w.Ev("release", "rl", rdN(r.ReadLen()), "st", rdStateJSON(st))
			}()
			continue
		}
		w.Ev("start", "op", op.Op, "n", rdN(op.N))
		func() {
			defer func() {
				if p := recover(); p != nil {
					w.Ev("end", "op", op.Op, "n", rdN(op.N), "ok", false, "m", 0, "e", "PANIC", "seg", litSeg(nil), "rl", -1, "st", Raw(`{"ri":-1,"len":-1,"cap":-1,"np":-1,"ro":false,"err":false}`), "panic", fmt.Sprint(p))
				}
			}()
			var buf []byte
			var err error
			m := 0
			switch op.Op {
			case "next":
				buf, err = r.Next(op.N)
				m = len(buf)
			case "peek":
				buf, err = r.Peek(op.N)
				m = len(buf)
			case "skip":
				err = r.Skip(op.N)
			case "readbinary":
				bs := make([]byte, op.N)
				m, err = r.ReadBinary(bs)
				k := m
				if k > len(bs) {
					k = len(bs)
				}
				if k < 0 {
					k = 0
				}
				buf = bs[:k]
			}
			w.Ev("end", "op", op.Op, "n", rdN(op.N), "ok", err == nil, "m", rdN(m), "e", errClass(err), "seg", SegOf(buf, cs.Seed, hint, cs.S), "rl", rdN(r.ReadLen()), "st", rdStateJSON(st))
		}()
	}
}

// rdN: counts beyond 2^30 are described to TLC as 2^30 (its integers are 32 bits wide and the contract adds the count to
// the cursor); for streams of a few KiB the two are the same request: far more than the source will ever deliver
func rdN(n int) int {
	if n > 1<<30 {
		return 1 << 30
	}
	if n < -(1 << 30) {
		return -(1 << 30)
	}
	return n
}

func sigRd(raw json.RawMessage, line string) string {
	var ev struct {
		K  string `json:"k"`
		Op string `json:"op"`
		N  int    `json:"n"`
		Ok bool   `json:"ok"`
		M  int    `json:"m"`
		E  string `json:"e"`
		Rl int    `json:"rl"`
	}
	if i := indexOf(line, " // "); i >= 0 {
		line = line[:i]
	}
	json.Unmarshal([]byte(line), &ev)
	var cs RdCase
	json.Unmarshal(raw, &cs)
	shape := fmt.Sprintf("ok=%v-e=%s", ev.Ok, ev.E)
	switch {
	case ev.E == "PANIC":
		shape = "panic"
	case ev.K == "release":
		shape = "release"
	case ev.Op == "readbinary" && ev.M > ev.N:
		shape = "reports-more-than-requested"
	case ev.Op == "readbinary" && ev.M < ev.N && ev.E == "nil":
		shape = "short-without-error"
	case (ev.Op == "next" || ev.Op == "peek") && ev.Ok && ev.M != ev.N:
		shape = "nil-error-but-not-n-bytes"
	case ev.Op == "skip" && ev.Ok:
		shape = "skip-ok-rejected"
	case !ev.Ok:
		shape = "failure-rejected-e=" + ev.E
	case ev.Ok:
		shape = "success-rejected"
	}
	return fmt.Sprintf("rd/%s/%s/%s", cs.Fl, ev.Op, shape)
}

func indexOf(s, sub string) int {
	for i := 0; i+len(sub) <= len(s); i++ {
		if s[i:i+len(sub)] == sub {
			return i
		}
	}
	return -1
}

var famRd = Register(&Family{Name: "rd", Spec: "Trace_BufReader", Cfg: "Trace_BufReader.cfg", Run: runRdCase, Sig: sigRd})

func genRdCases(c *Ctx) []json.RawMessage {
	var out []json.RawMessage
	add := func(cs RdCase) { out = append(out, mustJSON(cs)) }
	sizes := []int{0, 1, 4096, 4097, 9000}
	if c.Thorough() {
		sizes = []int{0, 1, 4095, 4096, 4097, 8192, 9000}
	}
	var alpha []RdOp
	for _, op := range []string{"next", "peek", "skip", "readbinary"} {
		for _, n := range sizes {
			alpha = append(alpha, RdOp{op, n})
		}
	}
	alpha = append(alpha, RdOp{"release", 0}, RdOp{"next", -1})
	var seqs [][]RdOp
	for _, a := range alpha {
		seqs = append(seqs, []RdOp{a})
		for _, b := range alpha {
			seqs = append(seqs, []RdOp{a, b})
			if c.Thorough() {
				for _, d := range alpha {
					seqs = append(seqs, []RdOp{a, b, d})
				}
			}
		}
	}
	streams := []int{0, 5, 4096, 4100, 10000}
	policies := [][]int{{-1}, {4096}, {1000}, {0, -1}}
	seed := 1
	stride := c.Pick(4, 5) // quick: 1/6 of the length-2 product; thorough: 1/7 of the length-3 product
	for _, S := range streams {
		for _, fk := range []string{"EOF", "ERR"} {
			for _, wd := range []bool{false, true} {
				for pi, pol := range policies {
					_ = pi
					for _, sq := range seqs {
						seed++
						if len(sq) > 1 && seed%stride != 0 {
							continue // systematic subsample: every stride-th (config, sequence) pair
						}
						add(RdCase{Fl: "io", S: S, Fk: fk, Wd: wd, Seed: seed % 251, Chunks: pol, Ops: sq})
					}
				}
			}
		}
		for _, spare := range []int{0, 3, 4096 - S} {
			if spare < 0 {
				continue
			}
			for _, sq := range seqs {
				seed++
				if len(sq) > 1 && seed%stride != 0 {
					continue
				}
				add(RdCase{Fl: "bytes", S: S, Cap: S + spare, Fk: "EOF", Seed: seed % 251, Ops: sq})
			}
		}
	}
	// tiny caller buffers for the bytes-backed reader (1..3 bytes, capacity = length and one more)
	for _, S := range []int{1, 2, 3} {
		for _, spare := range []int{0, 1} {
			for _, sq := range [][]RdOp{{{"next", 1}, {"next", 1}}, {{"peek", S}, {"next", S}, {"next", 1}}, {{"readbinary", S}, {"release", 0}, {"next", 1}},
				{{"skip", 1}, {"peek", 1}}, {{"next", S + 1}}, {{"readbinary", S + 1}, {"next", 1}}, {{"next", 0}, {"next", S}, {"release", 0}}} {
				seed++
				add(RdCase{Fl: "bytes", S: S, Cap: S + spare, Fk: "EOF", Seed: seed % 251, Ops: sq})
			}
		}
	}
	// small operands under 1-byte and all-empty policies (each read is one event)
	small := []RdOp{{"next", 3}, {"peek", 120}, {"skip", 101}, {"readbinary", 150}, {"next", 99}, {"next", 100}, {"release", 0}, {"readbinary", 7}}
	for _, pol := range [][]int{{1}, {0}, {1, 0}, {0, 0, 1}, {2, 1, 0, 7}} {
		for _, S := range []int{0, 5, 150, 300} {
			for _, fk := range []string{"EOF", "ERR"} {
				for _, wd := range []bool{false, true} {
					for i := range small {
						for j := range small {
							seed++
							if !c.Thorough() && seed%2 != 0 {
								continue
							}
							add(RdCase{Fl: "io", S: S, Fk: fk, Wd: wd, Seed: seed % 251, Chunks: pol, Ops: []RdOp{small[i], small[j], {"next", 1}}})
						}
					}
				}
			}
		}
	}
	// growth with a non-zero read index: consume k, then request n at / around the doubled capacities
	// (4096 * 2^j) so that the new buffer's room (cap - ri) is exactly, just above and just below n
	for _, k := range []int{1, 7, 100, 4095, 4096, 5000} {
		for _, base := range []int{4096, 8192, 16384, 32768} {
			for _, d := range []int{-1, 0, 1} {
				for _, ko := range []string{"next", "skip", "readbinary"} {
					for _, op := range []string{"next", "peek", "skip", "readbinary"} {
						for _, n := range []int{base + d, base - k + d} {
							if n <= 0 {
								continue
							}
							seed++
							if !c.Thorough() && seed%3 != 0 {
								continue
							}
							add(RdCase{Fl: "io", S: 80000, Fk: "EOF", Wd: seed%2 == 0, Seed: seed % 251, Chunks: [][]int{{-1}, {4096}, {1000}}[seed%3],
								Ops: []RdOp{{ko, k}, {op, n}, {"next", 1}, {"release", 0}, {"next", 10}}})
							if seed%5 == 0 {
								add(RdCase{Fl: "bytes", S: 6000, Cap: 6000 + seed%3, Fk: "EOF", Seed: seed % 251, Ops: []RdOp{{ko, k}, {op, n}, {"next", 1}}})
							}
						}
					}
				}
			}
		}
	}
	// adaptive initial size: the maximum over the last 10 released capacities (ring): one big cycle, then
	// 9..12 small cycles; the allocation after the big size left the ring must be back to the default
	for _, nsmall := range []int{8, 9, 10, 11, 12} {
		ops := []RdOp{{"next", 20000}, {"release", 0}}
		for i := 0; i < nsmall; i++ {
			ops = append(ops, RdOp{"next", 10}, RdOp{"release", 0})
		}
		ops = append(ops, RdOp{"next", 5000}, RdOp{"peek", 3}, RdOp{"release", 0}, RdOp{"next", 1})
		seed++
		add(RdCase{Fl: "io", S: 20000 + 10*nsmall + 5010, Fk: "EOF", Wd: nsmall%2 == 0, Seed: seed % 251, Chunks: []int{20000, 10, 10, 10, 10, 10, 10, 10, 10, 10, 10, 10, 10, 5000}, Ops: ops})
	}
	// every well-known source error, delivered with the last data and separately, at several stream positions
	for _, ek := range []string{"EINTR", "EAGAIN", "WRAPEINTR", "PATHEINTR", "TIMEOUT", "CLOSED", "CANCEL", "CLOSEDPIPE", "SHORTBUF"} {
		for _, wd := range []bool{true, false} {
			for _, S := range []int{5, 100, 5000} {
				for _, ch := range [][]int{{-1}, {3}, {1000, 0}} {
					seed++
					add(RdCase{Fl: "io", S: S, Fk: "ERR", ErrKind: ek, Wd: wd, Seed: seed % 251, Chunks: ch,
						Ops: []RdOp{{"next", 3}, {"peek", S - 3}, {"next", S - 4}, {"skip", 1}, {"next", 1}, {"readbinary", 10}}})
					add(RdCase{Fl: "io", S: S, Fk: "ERR", ErrKind: ek, Wd: wd, Seed: seed % 251, Chunks: ch,
						Ops: []RdOp{{"readbinary", S + 7}, {"next", 1}}})
				}
			}
		}
	}
	// seeded random histories
	rng := rand.New(rand.NewSource(c.Seed*7919 + 4))
	nrand := c.Pick(1500, 20000)
	for k := 0; k < nrand; k++ {
		cs := RdCase{Fl: "io", Fk: "EOF", Seed: rng.Intn(251)}
		if rng.Intn(4) == 0 {
			cs.Fk = "ERR"
			cs.ErrKind = []string{"", "EINTR", "EAGAIN", "WRAPEINTR", "PATHEINTR", "TIMEOUT", "CLOSED", "CANCEL", "CLOSEDPIPE", "SHORTBUF"}[rng.Intn(10)]
		}
		cs.Wd = rng.Intn(2) == 0
		switch rng.Intn(5) {
		case 0:
			cs.S = rng.Intn(50)
		case 1:
			cs.S = 4090 + rng.Intn(12)
		case 2:
			cs.S = 8186 + rng.Intn(12)
		default:
			cs.S = rng.Intn(40000)
		}
		bigChunks := true
		switch rng.Intn(6) {
		case 0:
			cs.Chunks = []int{-1}
		case 1:
			cs.Chunks = []int{1 + rng.Intn(9000)}
		case 2:
			cs.Chunks = []int{4096, 0, 1 + rng.Intn(300)}
		case 3:
			n := 1 + rng.Intn(5)
			for i := 0; i < n; i++ {
				cs.Chunks = append(cs.Chunks, rng.Intn(6000)-1)
			}
		case 4:
			cs.Chunks = []int{1 + rng.Intn(3)}
			bigChunks = false
		default:
			cs.Chunks = []int{rng.Intn(2), 0, 1 + rng.Intn(40)}
			bigChunks = false
		}
		if rng.Intn(6) == 0 {
			cs.Fl = "bytes"
			cs.Fk = "EOF"
			cs.Wd = false
			cs.Chunks = nil
			cs.Cap = cs.S + []int{0, 1, 7, 100, 5000}[rng.Intn(5)]
			if rng.Intn(3) == 0 { // power-of-two capacities (pool-class sized caller memory)
				cs.Cap = 1
				for cs.Cap < cs.S {
					cs.Cap *= 2
				}
			}
		}
		nops := 1 + rng.Intn(c.Pick(40, 300))
		budget := 3000 // read events per case
		for i := 0; i < nops; i++ {
			var op RdOp
			switch rng.Intn(10) {
			case 0, 1, 2:
				op.Op = "next"
			case 3, 4:
				op.Op = "peek"
			case 5:
				op.Op = "skip"
			case 6, 7:
				op.Op = "readbinary"
			default:
				op.Op = "release"
			}
			switch rng.Intn(8) {
			case 0:
				op.N = 0
			case 1:
				op.N = 1 + rng.Intn(8)
			case 2:
				op.N = 4090 + rng.Intn(12)
			case 3:
				op.N = rng.Intn(20000)
			case 4:
				op.N = rng.Intn(300)
			case 5:
				op.N = 4096<<uint(rng.Intn(3)) - rng.Intn(200) // at / just below a doubled capacity
			default:
				op.N = rng.Intn(3000)
			}
			if !bigChunks {
				if op.N > 400 {
					op.N = op.N % 400
				}
				budget -= op.N + 100
				if budget < 0 {
					break
				}
			}
			if op.Op != "readbinary" && op.Op != "release" && rng.Intn(60) == 0 {
				op.N = -1 - rng.Intn(3)
			}
			cs.Ops = append(cs.Ops, op)
		}
		if cs.Fl == "io" && rng.Intn(4) == 0 {
			cs.Rich = true
		}
		add(cs)
	}
	// one oversized frame (65 and 130 MiB: a buffer beyond any "too big to keep" threshold), released with the next frames
	// already buffered behind it; then ordinary traffic on the same reader
	for _, big := range []int{65 << 20, 130<<20 + 5} {
		for _, tail := range []int{0, 100, 9000, 70000} {
			cs := RdCase{Fl: "io", S: big + tail, Fk: "EOF", Seed: seed, Chunks: []int{-1}}
			seed++
			cs.Ops = []RdOp{{"next", big}, {"release", 0}}
			for left := tail; left > 0; left -= 3000 {
				n := 3000
				if left < n {
					n = left
				}
				cs.Ops = append(cs.Ops, RdOp{"next", n})
			}
			cs.Ops = append(cs.Ops, RdOp{"release", 0}, RdOp{"peek", 1})
			add(cs)
		}
	}
	// counts near the top of the int range (a peer-controlled 64-bit length handed straight to the reader), once the
	// source's error is latched (before that the reader would try to obtain that much memory): the request fails with
	// the source's error, nothing is consumed, whatever the read index is
	for _, fl := range []string{"io", "bytes"} {
		for _, huge := range []int{math.MaxInt64, math.MaxInt64 - 1, math.MaxInt64 - 3, math.MaxInt64 - 5, 1 << 62, 1<<62 + 3, 1 << 32, math.MaxInt32, math.MaxInt32 + 1} {
			for _, op := range []string{"next", "peek", "skip"} {
				for _, consumed := range []int{0, 1, 4} {
					cs := RdCase{Fl: fl, S: 5, Cap: 8, Fk: "EOF", Seed: seed}
					seed++
					if consumed > 0 {
						cs.Ops = append(cs.Ops, RdOp{"next", consumed})
					}
					cs.Ops = append(cs.Ops, RdOp{"next", 6}, RdOp{op, huge}, RdOp{"peek", 1}, RdOp{"release", 0}, RdOp{op, huge}, RdOp{"next", 5 - consumed})
					add(cs)
				}
			}
		}
	}
	return out
}

// tlcHistories runs a Gen_* module (a model whose constraint prints a history of inputs for every generated
// transition) and returns the distinct printed histories as nested integer tuples.
func tlcHistories(c *Ctx, module, cfg string) [][]interface{} {
	res := c.MC(module, cfg, 8)
	seen := map[string]bool{}
	var out [][]interface{}
	for _, p := range res.Prints {
		if !strings.HasPrefix(p, "<<") || seen[p] {
			continue
		}
		seen[p] = true
		var v []interface{}
		js := strings.NewReplacer("<<", "[", ">>", "]").Replace(p)
		if err := json.Unmarshal([]byte(js), &v); err != nil {
			c.Infra("cannot parse a history printed by %s: %v: %s", module, err, p)
			return nil
		}
		out = append(out, v)
	}
	return out
}

func tupInts(v interface{}) []int {
	a, _ := v.([]interface{})
	out := make([]int, 0, len(a))
	for _, x := range a {
		f, _ := x.(float64)
		out = append(out, int(f))
	}
	return out
}

// tlcRdCases: the maximal histories of Gen_BufReader (those no other printed history extends) as cases.
func tlcRdCases(c *Ctx) []json.RawMessage {
	hs := tlcHistories(c, "Gen_BufReader.tla", "Gen_BufReader_"+c.Tier+".cfg")
	type key struct{ init, ops, chunks string }
	ks := map[key][]interface{}{}
	str := func(v interface{}) string { b, _ := json.Marshal(v); return string(b) }
	for _, h := range hs {
		if len(h) != 3 {
			continue
		}
		ks[key{str(h[0]), str(h[1]), str(h[2])}] = h
	}
	ext := map[key]bool{}
	for _, h := range ks {
		ops, _ := h[1].([]interface{})
		ch, _ := h[2].([]interface{})
		if len(ops) > 0 {
			ext[key{str(h[0]), str(ops[:len(ops)-1]), str(h[2])}] = true
		}
		if len(ch) > 0 {
			ext[key{str(h[0]), str(h[1]), str(ch[:len(ch)-1])}] = true
		}
	}
	var out []json.RawMessage
	opn := []string{"", "next", "peek", "skip", "readbinary", "release"}
	seed := 7000
	for k, h := range ks {
		if ext[k] {
			continue
		}
		in := tupInts(h[0])
		if len(in) != 5 {
			continue
		}
		seed++
		cs := RdCase{Fl: "io", S: in[1], Fk: "EOF", Wd: in[3] == 1, Seed: seed, Chunks: tupInts(h[2])}
		if in[0] == 1 {
			cs.Fl, cs.Cap = "bytes", in[4]
		}
		if in[2] == 2 {
			cs.Fk = "ERR"
		}
		if len(cs.Chunks) == 0 {
			cs.Chunks = []int{-1}
		}
		for _, o := range h[1].([]interface{}) {
			t := tupInts(o)
			if len(t) != 2 || t[0] < 1 || t[0] > 5 {
				continue
			}
			cs.Ops = append(cs.Ops, RdOp{opn[t[0]], t[1]})
		}
		out = append(out, mustJSON(cs))
	}
	sort.Slice(out, func(i, j int) bool { return string(out[i]) < string(out[j]) })
	return out
}

func checkC04(c *Ctx) {
	c.rule = "MC: every behaviour of ReaderImpl (real constants) within the cfg bounds is accepted by ReaderAbs and is a behaviour of the integer core (RefinesCore). APALACHE: the core's invariants (no loss / duplication inside the buffer, cursor = base + ri, ReadLen, room while reading, the C04 contract on every completed call) are inductive for operands, streams, chunkings and capacities of any size. GEN: every transition of the bounded model is replayed on the real reader (Gen_BufReader). TRACE: one case = (reader flavour, stream, source fault/fragmentation policy, operation history); bounded-exhaustive histories over a boundary-valued alphabet x source behaviours (incl. the well-known error values of real connections: EINTR, EAGAIN, deadline, closed, cancelled, bare and wrapped, with and without data) plus seeded random histories; every case is executed on the real bufiox reader and every event is judged by TLC against ReaderAbs (violations) and ReaderImpl (drift). Also: sources whose dynamic type is a net.Conn with Len / Buffered / Available (readable right now) / ReadByte; counts near MaxInt64 / 2^62 / 2^32 once the source error is latched (described to TLC clamped to 2^30). Single frames of 65 and 130 MiB released with the next frames buffered behind them."
	if c.Thorough() {
		c.MC("MC_BufReader.tla", "MC_BufReader_thorough.cfg", 12)
	} else {
		c.MC("MC_BufReader.tla", "MC_BufReader_quick.cfg", 8)
	}
	// liveness on the model: under weak fairness of the source every operation terminates (productive chunks,
	// empty reads forever, failure)
	c.MC("MC_BufReader.tla", "MC_BufReader_live.cfg", 4)
	// unbounded sizes: the integer core of the reader (Ind_BufReader.tla; MC_BufReader checks RefinesCore = every step of the
	// detailed model is a step of the core) keeps the C04 invariants and the contract for operands, streams, chunkings
	// and capacities of ANY size, any buffer size >= 1 and any patience >= 2 empty reads (Apalache, inductive invariant)
	c.Apalache("Ind_BufReader.tla", "base: Init => IndInv (any DefaultBufSize >= 1, MaxEmpty >= 2)", false, "--cinit=ConstInitAny", "--init=Init", "--next=Next", "--inv=IndInv", "--length=0")
	c.Apalache("Ind_BufReader.tla", "step: IndInv /\\ Next => IndInv'", false, "--cinit=ConstInitAny", "--init=IndInit", "--next=Next", "--inv=IndInv", "--length=1")
	c.Apalache("Ind_BufReader.tla", "negative control: growth sized for n instead of ri + n breaks the step", true, "--cinit=ConstInitNeg", "--init=IndInit", "--next=Next", "--inv=IndInv", "--length=1")
	if c.Thorough() {
		for _, pr := range []string{"ProbeNeverReading", "ProbeNeverNoProg", "ProbeNeverShort"} {
			c.Apalache("Ind_BufReader.tla", "non-vacuity probe "+pr, true, "--cinit=ConstInit", "--init=IndInit", "--next=Next", "--inv="+pr, "--length=0")
		}
	}
	cases := genRdCases(c)
	// TLC as generator: every transition of the bounded ReaderImpl + source model becomes a scripted case for the real
	// reader (spec/Gen_BufReader.tla); the recorded executions are validated with the others
	gen := tlcRdCases(c)
	c.Extra("tlc_generated_cases", len(gen))
	cases = append(cases, gen...)
	c.TraceCheck(famRd, cases)
	c.Assume("the scripted source and the pattern recogniser (harness/pat.go, c04.go) are correct; TLC evaluates the contract")
}

func init() { checks["C04"] = checkC04 }
