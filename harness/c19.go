package main

import (
	"bytes"
	"context"
	"encoding/json"
	"errors"
	"fmt"
	"io"
	"math/rand"
	"runtime"
	"strings"
	"sync"
	"sync/atomic"
	"time"

	"github.com/cloudwego/gopkg/bufiox"
	"github.com/cloudwego/gopkg/protocol/thrift/apache"
)

// ---------------------------------------------------------------------------
// C19 — Apache bridge (ApacheBridge.tla).

type ApOp struct {
	H   string `json:"h"` // T | B
	Op  string `json:"op"`
	Arg []int  `json:"arg,omitempty"`
	N   int    `json:"n,omitempty"`
}
type ApCase struct {
	Mode     string `json:"mode"` // buffer | generic | registry
	Init     []int  `json:"init,omitempty"`
	Ops      []ApOp `json:"ops,omitempty"`
	Via      string `json:"via,omitempty"`      // buffer mode: NewBufferTransport | NewDefaultTransport
	Readable int    `json:"readable,omitempty"` // generic: what ReadableLen of the wrapped object returns
	NoLen    bool   `json:"nolen,omitempty"`    // generic: the wrapped object has no ReadableLen method
	Live     []int  `json:"live,omitempty"`     // generic: the wrapped object's answers change from call to call (cyclic script)
	Fn       string `json:"fn,omitempty"`       // registry: read | write | check
	Reg      bool   `json:"reg,omitempty"`
	CbErr    bool   `json:"cberr,omitempty"`
	N        int    `json:"n,omitempty"` // registry / concurrent: rounds
}

type rwOnly struct{ bytes.Buffer }
type rwReadable struct {
	rwOnly
	n int
}

func (r *rwReadable) ReadableLen() int { return r.n }

// rwLive: a live connection: every call of ReadableLen gets the next answer of the script; the answers given are recorded
type rwLive struct {
	rwOnly
	script []int
	given  []int
}

func (r *rwLive) ReadableLen() int {
	v := r.script[len(r.given)%len(r.script)]
	r.given = append(r.given, v)
	return v
}

func toBytes(v []int) []byte {
	b := make([]byte, len(v))
	for i, x := range v {
		b[i] = byte(x)
	}
	return b
}

func runApCase(raw json.RawMessage, w *TraceWriter) {
	var c ApCase
	if err := json.Unmarshal(raw, &c); err != nil {
		panic(err)
	}
	switch c.Mode {
	case "generic":
		if len(c.Live) > 0 {
			for round := 0; round < 3; round++ { // the script started at each of its first phases
				k := round % len(c.Live)
				lv := &rwLive{script: append(append([]int(nil), c.Live[k:]...), c.Live[:k]...)}
				t := apache.NewDefaultTransport(lv)
				rem := t.RemainingBytes()
				r := -1
				if rem != ^uint64(0) {
					r = int(rem)
					if rem > 1<<62 {
						r = -2 // a "length" beyond any int: neither an exposed value nor unknown
					}
				}
				w.Ev("dtlive", "answers", intsJSON(lv.given), "rem", r)
			}
			return
		}
		var rw io.ReadWriter
		if c.NoLen {
			rw = &rwOnly{}
		} else {
			rw = &rwReadable{n: c.Readable}
		}
		t := apache.NewDefaultTransport(rw)
		rem := t.RemainingBytes()
		r := -1
		if rem != ^uint64(0) {
			r = int(rem)
		}
		rd := c.Readable
		if c.NoLen {
			rd = -1
		}
		w.Ev("dt", "readable", rd, "rem", r)
		// the generic transport has no life cycle of its own: always open, Open / Flush / Close do nothing and succeed
		e1, e2, e3 := t.Open(), t.Flush(context.Background()), t.Close()
		rem2 := t.RemainingBytes()
		w.Ev("dtlife", "isopen", t.IsOpen(), "allnil", e1 == nil && e2 == nil && e3 == nil, "remsame", rem2 == rem)
		return
	case "registry":
		runRegistry(&c, w)
		return
	}
	b := bytes.NewBuffer(append([]byte(nil), toBytes(c.Init)...))
	var t apache.TTransport
	if c.Via == "NewDefaultTransport" {
		t = apache.NewDefaultTransport(b) // must recognise the *bytes.Buffer
	} else {
		t = apache.NewBufferTransport(b)
	}
	w.Ev("reset", "init", bytesJSON(toBytes(c.Init)))
	for _, op := range c.Ops {
		ret, errs := 0, "nil"
		var data []byte
		cls := func(err error) string {
			if err == nil {
				return "nil"
			}
			if errors.Is(err, io.EOF) {
				return "EOF"
			}
			return "OTHER"
		}
		func() {
			defer func() {
				if p := recover(); p != nil {
					errs = "PANIC"
				}
			}()
			switch op.Op {
			case "write":
				var n int
				var err error
				wb := toBytes(op.Arg)
				if op.H == "T" {
					n, err = t.Write(wb)
				} else {
					n, err = b.Write(wb)
				}
				// an io.Writer must not keep the caller's slice: the caller reuses it at once
				for i := range wb {
					wb[i] = 0xEE
				}
				ret, errs = n, cls(err)
			case "read":
				p := make([]byte, op.N)
				var n int
				var err error
				if op.H == "T" {
					n, err = t.Read(p)
				} else {
					n, err = b.Read(p)
				}
				ret, errs, data = n, cls(err), p[:n]
			case "reset":
				if op.H == "T" {
					t.(interface{ Reset() }).Reset()
				} else {
					b.Reset()
				}
			case "close":
				errs = cls(t.Close())
				// Close is not terminal for this transport (it empties the buffer); other transports over other buffers
				// come and go meanwhile and must stay strangers
				for k := 0; k < 3; k++ {
					other := &bytes.Buffer{}
					other.WriteString("decoy")
					var dt interface {
						Write([]byte) (int, error)
						Close() error
					}
					if k%2 == 0 {
						dt = apache.NewBufferTransport(other)
					} else if x, ok := apache.NewDefaultTransport(other).(interface {
						Write([]byte) (int, error)
						Close() error
					}); ok {
						dt = x
					}
					if dt != nil {
						dt.Write([]byte("other transport"))
						if k == 2 {
							dt.Close()
						}
					}
				}
			case "remaining":
				ret = int(t.RemainingBytes())
			case "flush":
				errs = cls(t.Flush(context.Background()))
			case "open":
				errs = cls(t.Open())
			case "isopen":
				if t.IsOpen() {
					ret = 1
				}
			}
		}()
		arg := op.Arg
		if arg == nil {
			arg = []int{}
		}
		w.Ev("ap", "h", op.H, "op", op.Op, "arg", arg, "n", op.N, "ret", ret, "err", errs, "data", bytesJSON(data),
			"vt", Raw(fmt.Sprintf(`{"rem":%d}`, t.RemainingBytes())), "vb", Raw(fmt.Sprintf(`{"len":%d,"bytes":%s}`, b.Len(), bytesJSON(b.Bytes()))))
	}
}

var errCb = errors.New("verif: callback result")

// runRegistryConcurrent: the three hooks are registered by three components of a process at the same time (package
// initialisers, plug-ins): each registration that has returned is in force afterwards, whatever the others did meanwhile
func runRegistryConcurrent(c *ApCase, w *TraceWriter) {
	defer func() {
		apache.RegisterCheckTStruct(nil)
		apache.RegisterThriftRead(nil)
		apache.RegisterThriftWrite(nil)
	}()
	v := &struct{ X int }{42}
	rd := bufiox.NewBytesReader([]byte{1, 2, 3})
	var sinkBuf []byte
	wr := bufiox.NewBytesWriter(&sinkBuf)
	lost, rounds := 0, c.N
	for r := 0; r < rounds && lost == 0; r++ {
		apache.RegisterCheckTStruct(nil)
		apache.RegisterThriftRead(nil)
		apache.RegisterThriftWrite(nil)
		var hitC, hitR, hitW int32
		var start, done sync.WaitGroup
		start.Add(1)
		done.Add(3)
		var gate int32
		spin := func() {
			atomic.AddInt32(&gate, 1)
			for atomic.LoadInt32(&gate) < 3 {
				runtime.Gosched()
			}
		}
		go func() {
			defer done.Done()
			start.Wait()
			spin()
			apache.RegisterCheckTStruct(func(x interface{}) error { atomic.AddInt32(&hitC, 1); return nil })
		}()
		go func() {
			defer done.Done()
			start.Wait()
			spin()
			apache.RegisterThriftRead(func(r bufiox.Reader, x interface{}) error { atomic.AddInt32(&hitR, 1); return nil })
		}()
		go func() {
			defer done.Done()
			start.Wait()
			spin()
			apache.RegisterThriftWrite(func(wx bufiox.Writer, x interface{}) error { atomic.AddInt32(&hitW, 1); return nil })
		}()
		start.Done()
		done.Wait()
		e1, e2, e3 := apache.CheckTStruct(v), apache.ThriftRead(rd, v), apache.ThriftWrite(wr, v)
		if e1 != nil || e2 != nil || e3 != nil || hitC != 1 || hitR != 1 || hitW != 1 {
			lost++
		}
	}
	w.Ev("regconc", "rounds", rounds, "lost", lost)
}

// runRegistryReentrant: a registered callback uses the registry itself - it installs the struct checker lazily, validates
// through CheckTStruct, re-registers itself - while another goroutine keeps registering the write hook.  Every dispatch
// returns, with the callback's result.
func runRegistryReentrant(c *ApCase, w *TraceWriter) {
	defer func() {
		apache.RegisterCheckTStruct(nil)
		apache.RegisterThriftRead(nil)
		apache.RegisterThriftWrite(nil)
	}()
	apache.RegisterCheckTStruct(nil)
	apache.RegisterThriftRead(nil)
	apache.RegisterThriftWrite(nil)
	v := &struct{ X int }{42}
	rd := bufiox.NewBytesReader([]byte{1, 2, 3})
	stop := make(chan struct{})
	var bg sync.WaitGroup
	bg.Add(1)
	go func() { // a component that (re-)registers another hook all the time
		defer bg.Done()
		for {
			select {
			case <-stop:
				return
			default:
				apache.RegisterThriftWrite(func(wx bufiox.Writer, x interface{}) error { return nil })
				runtime.Gosched()
			}
		}
	}()
	checked := int32(0)
	var readCb func(r bufiox.Reader, x interface{}) error
	readCb = func(r bufiox.Reader, x interface{}) error {
		apache.RegisterCheckTStruct(func(y interface{}) error { atomic.AddInt32(&checked, 1); return nil }) // lazy installation
		if err := apache.CheckTStruct(x); err != nil {
			return err
		}
		apache.RegisterThriftRead(readCb) // re-registers itself
		return errCb
	}
	apache.RegisterThriftRead(readCb)
	done, okRounds := true, 0
	for r := 0; r < c.N && done; r++ {
		res := make(chan error, 1)
		go func() { res <- apache.ThriftRead(rd, v) }()
		select {
		case err := <-res:
			if err == errCb {
				okRounds++
			}
		case <-time.After(5 * time.Second):
			done = false
		}
	}
	close(stop)
	if done {
		bg.Wait()
	}
	w.Ev("regre", "rounds", c.N, "done", done, "ok", okRounds, "checked", int(atomic.LoadInt32(&checked)))
}

// runRegistryRepeat: ONE registration, many calls: values of the same dynamic type and of different types, a callback
// whose verdict depends on the value (nil, nil, error, nil, error ...): every call reaches the callback with its own
// argument and gets that call's verdict
func runRegistryRepeat(c *ApCase, w *TraceWriter) {
	defer func() {
		apache.RegisterCheckTStruct(nil)
		apache.RegisterThriftRead(nil)
		apache.RegisterThriftWrite(nil)
	}()
	type msgA struct{ bad bool }
	type msgB struct{ bad bool }
	vals := []interface{}{&msgA{false}, &msgA{false}, &msgA{true}, &msgB{false}, &msgA{false}, &msgB{true}, &msgA{true}, msgA{true}, msgA{false}}
	verdict := func(x interface{}) error {
		switch m := x.(type) {
		case *msgA:
			if m.bad {
				return errCb
			}
		case *msgB:
			if m.bad {
				return errCb
			}
		case msgA:
			if m.bad {
				return errCb
			}
		}
		return nil
	}
	calls, idok, resok := 0, true, true
	var last interface{}
	apache.RegisterCheckTStruct(func(x interface{}) error { calls++; last = x; return verdict(x) })
	rd := bufiox.NewBytesReader([]byte{1})
	var sb []byte
	wr := bufiox.NewBytesWriter(&sb)
	rcalls, wcalls := 0, 0
	apache.RegisterThriftRead(func(r bufiox.Reader, x interface{}) error { rcalls++; last = x; return verdict(x) })
	apache.RegisterThriftWrite(func(wx bufiox.Writer, x interface{}) error { wcalls++; last = x; return verdict(x) })
	for _, v := range vals {
		for k, f := range []func() error{func() error { return apache.CheckTStruct(v) }, func() error { return apache.ThriftRead(rd, v) }, func() error { return apache.ThriftWrite(wr, v) }} {
			last = nil
			err := f()
			if err != verdict(v) {
				resok = false
			}
			if _, isPtr := v.(*msgA); isPtr && last != v {
				idok = false
			}
			_ = k
		}
	}
	w.Ev("regrep", "n", len(vals), "calls", calls, "rcalls", rcalls, "wcalls", wcalls, "idok", idok, "resok", resok)
}

func runRegistry(c *ApCase, w *TraceWriter) {
	if c.Fn == "repeat" {
		runRegistryRepeat(c, w)
		return
	}
	if c.Fn == "concurrent" {
		runRegistryConcurrent(c, w)
		return
	}
	if c.Fn == "reentrant" {
		runRegistryReentrant(c, w)
		return
	}
	// registry globals are process-wide: set, use, and always restore to "unregistered"
	defer func() {
		apache.RegisterCheckTStruct(nil)
		apache.RegisterThriftRead(nil)
		apache.RegisterThriftWrite(nil)
	}()
	apache.RegisterCheckTStruct(nil)
	apache.RegisterThriftRead(nil)
	apache.RegisterThriftWrite(nil)
	var want error
	if c.CbErr {
		want = errCb
	}
	argok := false
	v := &struct{ X int }{42}
	rd := bufiox.NewBytesReader([]byte{1, 2, 3})
	var sinkBuf []byte
	wr := bufiox.NewBytesWriter(&sinkBuf)
	if c.Reg {
		switch c.Fn {
		case "check":
			apache.RegisterCheckTStruct(func(x interface{}) error { argok = x == interface{}(v); return want })
		case "read":
			apache.RegisterThriftRead(func(r bufiox.Reader, x interface{}) error {
				argok = r == bufiox.Reader(rd) && x == interface{}(v)
				return want
			})
		case "write":
			apache.RegisterThriftWrite(func(wx bufiox.Writer, x interface{}) error {
				argok = wx == bufiox.Writer(wr) && x == interface{}(v)
				return want
			})
		}
	}
	var err error
	panicked := false
	func() {
		defer func() {
			if p := recover(); p != nil {
				panicked = true
			}
		}()
		switch c.Fn {
		case "check":
			err = apache.CheckTStruct(v)
		case "read":
			err = apache.ThriftRead(rd, v)
		case "write":
			err = apache.ThriftWrite(wr, v)
		}
	}()
	ret := "nil"
	switch {
	case panicked:
		ret = "panic"
	case err == nil:
		ret = "nil"
	case err == errCb:
		ret = "cberr"
	case strings.Contains(err.Error(), "not called"):
		ret = "notregistered"
	default:
		ret = "other"
	}
	cbret := "nil"
	if c.CbErr {
		cbret = "cberr"
	}
	w.Ev("reg", "fn", c.Fn, "registered", c.Reg, "cbret", cbret, "ret", ret, "argok", argok, "panic", panicked)
}

func sigAp(raw json.RawMessage, line string) string {
	why := ""
	if i := strings.Index(line, " // "); i >= 0 {
		why = line[i+4:]
	}
	var c ApCase
	json.Unmarshal(raw, &c)
	return "apache/" + c.Mode + "/" + why
}

var famAp = Register(&Family{Name: "apache", Spec: "Trace_ApacheBridge", Cfg: "Trace_ApacheBridge.cfg", Run: runApCase, Sig: sigAp})

func genApCases(c *Ctx) []json.RawMessage {
	var out []json.RawMessage
	var alpha []ApOp
	for _, h := range []string{"T", "B"} {
		alpha = append(alpha, ApOp{H: h, Op: "write", Arg: []int{}}, ApOp{H: h, Op: "write", Arg: []int{7}}, ApOp{H: h, Op: "write", Arg: []int{8, 9}},
			ApOp{H: h, Op: "read", N: 0}, ApOp{H: h, Op: "read", N: 1}, ApOp{H: h, Op: "read", N: 2}, ApOp{H: h, Op: "reset"})
	}
	alpha = append(alpha, ApOp{H: "T", Op: "close"}, ApOp{H: "T", Op: "remaining"}, ApOp{H: "T", Op: "flush"})
	maxLen := c.Pick(3, 4)
	var rec func(prefix []ApOp)
	rec = func(prefix []ApOp) {
		if len(prefix) > 0 {
			for _, init := range [][]int{nil, {1, 2, 3}} {
				via := "NewBufferTransport"
				if len(prefix)%2 == 0 {
					via = "NewDefaultTransport"
				}
				out = append(out, mustJSON(ApCase{Mode: "buffer", Init: init, Via: via, Ops: append([]ApOp(nil), prefix...)}))
			}
		}
		if len(prefix) == maxLen {
			return
		}
		for _, a := range alpha {
			rec(append(prefix, a))
		}
	}
	rec(nil)
	rng := rand.New(rand.NewSource(c.Seed + 19))
	for i := 0; i < c.Pick(200, 3000); i++ {
		cs := ApCase{Mode: "buffer", Via: []string{"NewBufferTransport", "NewDefaultTransport"}[i%2]}
		n := 5 + rng.Intn(30)
		for j := 0; j < n; j++ {
			op := alpha[rng.Intn(len(alpha))]
			if op.Op == "write" {
				op.Arg = make([]int, []int{rng.Intn(300), rng.Intn(300), rng.Intn(9000)}[rng.Intn(3)])
				for k := range op.Arg {
					op.Arg[k] = rng.Intn(256)
				}
			} else if op.Op == "read" {
				op.N = rng.Intn(200)
			}
			cs.Ops = append(cs.Ops, op)
		}
		out = append(out, mustJSON(cs))
	}
	// large contents: the buffer reallocates / grows past typical pool and page sizes before Close / Reset / reuse
	big := func(n, seed int) []int {
		v := make([]int, n)
		for i := range v {
			v[i] = int(PatByte(seed, i))
		}
		return v
	}
	for _, n := range []int{511, 512, 513, 4095, 4096, 4097, 5000, 70000} {
		for _, h1 := range []string{"T", "B"} {
			for _, h2 := range []string{"T", "B"} {
				for _, end := range []string{"close", "reset"} {
					ops := []ApOp{{H: h1, Op: "write", Arg: big(n, 3)}, {H: h2, Op: "read", N: 100}, {H: "T", Op: "remaining"}}
					if end == "close" {
						ops = append(ops, ApOp{H: "T", Op: "close"})
					} else {
						ops = append(ops, ApOp{H: h2, Op: "reset"})
					}
					ops = append(ops, ApOp{H: "T", Op: "remaining"}, ApOp{H: h1, Op: "write", Arg: []int{104, 105}}, ApOp{H: h2, Op: "read", N: 5},
						ApOp{H: h2, Op: "write", Arg: big(n/2, 5)}, ApOp{H: "T", Op: "isopen"}, ApOp{H: "T", Op: "open"}, ApOp{H: "T", Op: "flush"},
						ApOp{H: "T", Op: "close"}, ApOp{H: "T", Op: "isopen"}, ApOp{H: "B", Op: "read", N: 1})
					out = append(out, mustJSON(ApCase{Mode: "buffer", Via: []string{"NewBufferTransport", "NewDefaultTransport"}[n%2], Ops: ops}))
				}
			}
		}
	}
	for _, r := range []int{-1, 0, 1, 2, 3, 4096, 1 << 30, 1<<31 - 1, 1 << 31, 1 << 40, 1<<63 - 1, -2, -5, -7, -4096, -1 << 31, -1<<31 - 1, -1 << 62, -1 << 63} {
		out = append(out, mustJSON(ApCase{Mode: "generic", Readable: r}))
	}
	out = append(out, mustJSON(ApCase{Mode: "generic", NoLen: true}))
	// a live object whose readable length changes between two calls (bytes arrive / are consumed by another party)
	for _, lv := range [][]int{{5, 0}, {5, -3}, {70000, -70000}, {0, 5}, {-1, 7}, {3, 9}, {9, 3, 0}, {1, 2, 3, 4}, {0, 0, 8}, {-2, -2}, {4, -1}, {1 << 20, 1}} {
		out = append(out, mustJSON(ApCase{Mode: "generic", Live: lv}))
	}
	for _, fn := range []string{"read", "write", "check"} {
		for _, reg := range []bool{false, true} {
			for _, ce := range []bool{false, true} {
				out = append(out, mustJSON(ApCase{Mode: "registry", Fn: fn, Reg: reg, CbErr: ce}))
				if fn == "read" && reg && ce { // (once)
					out = append(out, mustJSON(ApCase{Mode: "registry", Fn: "concurrent", N: 3000}))
					out = append(out, mustJSON(ApCase{Mode: "registry", Fn: "reentrant", N: 300}))
					out = append(out, mustJSON(ApCase{Mode: "registry", Fn: "repeat"}))
				}
			}
		}
	}
	return out
}

func checkC19(c *Ctx) {
	c.rule = "MC: all operation sequences <= 5 over both handles keep FIFO order and Remaining = unread length in the single-buffer model. TRACE: every sequence of <= 3 (thorough 4) operations from {Write 0/1/2 bytes, Read 0/1/2, Reset on either handle, Close, RemainingBytes} over empty and pre-filled buffers, through NewBufferTransport and NewDefaultTransport(*bytes.Buffer), plus random longer sequences; after every step both handles (buffer Len/Bytes, transport RemainingBytes) must show the model state; generic transport over objects with/without ReadableLen (every boundary of int: negative values incl. -2, MinInt32, MinInt64; 0; positives up to MaxInt64); registered / unregistered read, write and check callbacks (argument identity, result pass-through, specific error). Registry under concurrent registration: 3000 rounds of three goroutines registering the three hooks at the same instant; afterwards all three dispatchers reach their callbacks. Re-entrant callbacks (lazy installation of the struct checker, validation through CheckTStruct, self re-registration) while another goroutine keeps registering: every dispatch returns the callback result within 5 s. One registration, many calls: values of the same and of different dynamic types, value-dependent verdicts, call counts and argument identity."
	c.MC("MC_ApacheBridge.tla", "MC_ApacheBridge.cfg", 4)
	c.TraceCheck(famAp, genApCases(c))
	c.Assume("registry globals are saved/restored by the driver; cases run sequentially")
}

func init() { checks["C19"] = checkC19 }
