package main

import (
	"bytes"
	"context"
	"encoding/binary"
	"encoding/json"
	"fmt"
	"strings"
	"time"
	"unsafe"

	"github.com/cloudwego/gopkg/bufiox"
	"github.com/cloudwego/gopkg/protocol/thrift"
	"github.com/cloudwego/gopkg/protocol/thrift/base"
	"github.com/cloudwego/gopkg/protocol/thrift/unknownfields"
	"github.com/cloudwego/gopkg/protocol/ttheader"
)

// ---------------------------------------------------------------------------
// Collections of thousands to hundreds of thousands of entries (Go monitors).
// TLC judges maps of up to a few hundred entries per event in reasonable time (SamePairs is quadratic); a decoder
// that treats "many" entries differently (a capped pre-allocation reused as loop bound, an index kept in 16 bits, a
// sort keyed on a narrow field) needs cardinalities far beyond that.  Here the expectation is computed in Go from the
// very data that was encoded: round trip, consumed length = produced length = advertised length, entry by entry.

type BigCase struct {
	What string `json:"what"`
	N    int    `json:"n"`
}

// cardinalities around every power of two from 2^8 to 2^17 (quick: a thinned list)
func bigCounts(c *Ctx, max int) []int {
	var out []int
	for p := 8; p <= 17; p++ {
		for _, d := range []int{-1, 0, 1} {
			n := 1<<p + d
			if n <= max && (c.Thorough() || p%2 == 0 || p >= 14 || d == 1) {
				out = append(out, n)
			}
		}
	}
	for _, n := range []int{1000, 3000, 50000, 70000} {
		if n <= max {
			out = append(out, n)
		}
	}
	if max >= 1<<21 { // containers beyond a million slots
		out = append(out, 1<<19-1, 1<<19, 1<<19+1, 1<<20-1, 1<<20, 1<<20+1, 1<<21+3)
	}
	return out
}

func bigKV(n int) map[string]string {
	m := make(map[string]string, n)
	for i := 0; i < n; i++ {
		m[fmt.Sprintf("k%06d", i)] = fmt.Sprintf("v%d", i%977)
	}
	return m
}

func sameStrMap(a, b map[string]string) bool {
	if len(a) != len(b) {
		return false
	}
	for k, v := range a {
		if w, ok := b[k]; !ok || w != v {
			return false
		}
	}
	return true
}

func guarded(f func() string) (res string) {
	defer func() {
		if p := recover(); p != nil {
			res = fmt.Sprint("panic: ", p)
		}
	}()
	return f()
}

// C11: Base / BaseResp with Extra maps of many entries
func bigStructOne(c *Ctx, bc BigCase) {
	extra := bigKV(bc.N)
	bad := guarded(func() string {
		b := &base.Base{LogID: "log", Caller: "caller", Addr: "addr", Extra: extra}
		buf := make([]byte, b.BLength())
		if n := b.FastWriteNocopy(buf, nil); n != len(buf) {
			return fmt.Sprintf("Base: BLength %d, FastWriteNocopy wrote %d", len(buf), n)
		}
		if alt := thrift.FastMarshal(b); len(alt) != len(buf) {
			return fmt.Sprintf("Base: FastMarshal produced %d bytes, BLength is %d", len(alt), len(buf))
		}
		nb := base.NewBase()
		n, err := nb.FastRead(append(buf, 0x7f))
		if err != nil || n != len(buf) {
			return fmt.Sprintf("Base: FastRead consumed %d of %d bytes, err=%v", n, len(buf), err)
		}
		if nb.LogID != "log" || nb.Caller != "caller" || nb.Addr != "addr" || !sameStrMap(nb.Extra, extra) {
			return fmt.Sprintf("Base: read back %d of %d entries (or other fields differ)", len(nb.Extra), len(extra))
		}
		r := &base.BaseResp{StatusMessage: "st", StatusCode: 7, Extra: extra}
		rbuf := make([]byte, r.BLength())
		if n := r.FastWriteNocopy(rbuf, nil); n != len(rbuf) {
			return fmt.Sprintf("BaseResp: BLength %d, FastWriteNocopy wrote %d", len(rbuf), n)
		}
		nr := base.NewBaseResp()
		n, err = nr.FastRead(append(rbuf, 0x7f))
		if err != nil || n != len(rbuf) {
			return fmt.Sprintf("BaseResp: FastRead consumed %d of %d bytes, err=%v", n, len(rbuf), err)
		}
		if nr.StatusMessage != "st" || nr.StatusCode != 7 || !sameStrMap(nr.Extra, extra) {
			return fmt.Sprintf("BaseResp: read back %d of %d entries (or other fields differ)", len(nr.Extra), len(extra))
		}
		return ""
	})
	c.AddEvals(int64(2 * bc.N))
	if bad != "" {
		c.GoViolation("big-C11", "struct/big-map", bc, bad)
	}
}

// C13: unknown-field containers and structs of many entries
func bigUnknownOne(c *Ctx, bc BigCase) {
	n := bc.N
	bad := guarded(func() string {
		var in []byte
		switch bc.What {
		case "map":
			in = thrift.Binary.AppendFieldBegin(in, thrift.MAP, 5)
			in = thrift.Binary.AppendMapBegin(in, thrift.I32, thrift.I32, n)
			for i := 0; i < n; i++ {
				in = thrift.Binary.AppendI32(in, int32(i))
				in = thrift.Binary.AppendI32(in, int32(i*3+1))
			}
		case "list", "set":
			t := thrift.TType(thrift.LIST)
			if bc.What == "set" {
				t = thrift.SET
			}
			in = thrift.Binary.AppendFieldBegin(in, t, 5)
			in = thrift.Binary.AppendListBegin(in, thrift.I16, n)
			for i := 0; i < n; i++ {
				in = thrift.Binary.AppendI16(in, int16(i))
			}
		case "strmap":
			in = thrift.Binary.AppendFieldBegin(in, thrift.MAP, 5)
			in = thrift.Binary.AppendMapBegin(in, thrift.STRING, thrift.STRING, n)
			for i := 0; i < n; i++ {
				in = thrift.Binary.AppendString(in, fmt.Sprintf("k%d", i))
				in = thrift.Binary.AppendString(in, fmt.Sprintf("v%d", i%7))
			}
		case "struct": // one nested struct with n fields (ids 1..n, n <= 32767)
			in = thrift.Binary.AppendFieldBegin(in, thrift.STRUCT, 5)
			for i := 1; i <= n; i++ {
				in = thrift.Binary.AppendFieldBegin(in, thrift.BYTE, int16(i))
				in = thrift.Binary.AppendByte(in, int8(i))
			}
			in = thrift.Binary.AppendFieldStop(in)
		case "fields": // n top-level fields
			for i := 1; i <= n; i++ {
				in = thrift.Binary.AppendFieldBegin(in, thrift.I16, int16(i))
				in = thrift.Binary.AppendI16(in, int16(i*5))
			}
		}
		keep := append([]byte(nil), in...)
		fs, err := unknownfields.ConvertUnknownFields(in)
		if err != nil {
			return fmt.Sprintf("ConvertUnknownFields refused a well-formed %s of %d entries: %v", bc.What, n, err)
		}
		switch bc.What {
		case "map", "strmap":
			kv, ok := fs[0].Value.([]unknownfields.UnknownField)
			if len(fs) != 1 || !ok || len(kv) != 2*n {
				return fmt.Sprintf("%s of %d entries converted to %d key/value nodes", bc.What, n, len(kv))
			}
			for i := 0; i < n; i++ {
				if bc.What == "map" {
					k, _ := kv[2*i].Value.(int32)
					v, _ := kv[2*i+1].Value.(int32)
					if k != int32(i) || v != int32(i*3+1) {
						return fmt.Sprintf("map entry %d converted to (%v, %v)", i, kv[2*i].Value, kv[2*i+1].Value)
					}
				} else {
					k, _ := kv[2*i].Value.(string)
					v, _ := kv[2*i+1].Value.(string)
					if k != fmt.Sprintf("k%d", i) || v != fmt.Sprintf("v%d", i%7) {
						return fmt.Sprintf("map entry %d converted to (%q, %q)", i, k, v)
					}
				}
			}
		case "list", "set":
			el, ok := fs[0].Value.([]unknownfields.UnknownField)
			if len(fs) != 1 || !ok || len(el) != n {
				return fmt.Sprintf("%s of %d elements converted to %d nodes", bc.What, n, len(el))
			}
			for i := 0; i < n; i++ {
				if v, _ := el[i].Value.(int16); v != int16(i) {
					return fmt.Sprintf("element %d converted to %v", i, el[i].Value)
				}
			}
		case "struct":
			el, ok := fs[0].Value.([]unknownfields.UnknownField)
			if len(fs) != 1 || !ok || len(el) != n {
				return fmt.Sprintf("struct of %d fields converted to %d nodes", n, len(el))
			}
			for i := 0; i < n; i++ {
				if v, _ := el[i].Value.(int8); el[i].ID != int16(i+1) || v != int8(i+1) {
					return fmt.Sprintf("field %d converted to id %d value %v", i+1, el[i].ID, el[i].Value)
				}
			}
		case "fields":
			if len(fs) != n {
				return fmt.Sprintf("%d fields converted to %d nodes", n, len(fs))
			}
			for i := 0; i < n; i++ {
				if v, _ := fs[i].Value.(int16); fs[i].ID != int16(i+1) || v != int16((i+1)*5) {
					return fmt.Sprintf("field %d converted to id %d value %v", i+1, fs[i].ID, fs[i].Value)
				}
			}
		}
		l, err := unknownfields.UnknownFieldsLength(fs)
		if err != nil || l != len(keep) {
			return fmt.Sprintf("UnknownFieldsLength = %d (err %v), the input has %d bytes", l, err, len(keep))
		}
		out := make([]byte, l+3)
		m, err := unknownfields.WriteUnknownFields(out, fs)
		if err != nil || m != l || !bytes.Equal(out[:m], keep) {
			return fmt.Sprintf("WriteUnknownFields wrote %d bytes (err %v), equal to the input: %v", m, err, bytes.Equal(out[:m], keep))
		}
		return ""
	})
	c.AddEvals(int64(bc.N))
	if bad != "" {
		c.GoViolation("big-C13", "uf/big-"+bc.What, bc, bad)
	}
}

// C06 / C10: header sections of many entries (as many as fit the 64 KiB header)
func bigHeaderOne(c *Ctx, fam string, bc BigCase) {
	n := bc.N
	bad := guarded(func() string {
		p := ttheader.EncodeParam{SeqID: int32(n), Flags: 3}
		switch bc.What {
		case "int":
			p.IntInfo = map[uint16]string{}
			for i := 0; i < n; i++ {
				p.IntInfo[uint16(i)] = fmt.Sprint(i % 10)
			}
		case "str":
			p.StrInfo = map[string]string{}
			for i := 0; i < n; i++ {
				p.StrInfo[fmt.Sprintf("%x", i)] = fmt.Sprint(i % 10)
			}
		default: // both + ACL token
			p.IntInfo, p.StrInfo = map[uint16]string{}, map[string]string{ttheader.GDPRToken: "tok"}
			for i := 0; i < n/2; i++ {
				p.IntInfo[uint16(i+7)] = fmt.Sprint(i % 10)
				p.StrInfo[fmt.Sprintf("%x", i)] = ""
			}
		}
		buf, err := ttheader.EncodeToBytes(context.Background(), p)
		if err != nil {
			return "" // does not fit the header: refusing is right (the size rule itself is judged by TLC on smaller maps)
		}
		payload := []byte("payload-bytes")
		frame := append(append([]byte(nil), buf...), payload...)
		binary.BigEndian.PutUint32(frame, uint32(len(frame)-4))
		check := func(how string, d ttheader.DecodeParam, err error, readLen int) string {
			if err != nil {
				return fmt.Sprintf("%s refused a frame the encoder produced (%d %s entries): %v", how, n, bc.What, err)
			}
			if d.SeqID != p.SeqID || d.Flags != p.Flags || d.HeaderLen != len(buf) || d.PayloadLen != len(payload) || readLen != len(buf) {
				return fmt.Sprintf("%s: seq %d flags %d HeaderLen %d PayloadLen %d ReadLen %d (want %d %d %d %d %d)", how, d.SeqID, d.Flags, d.HeaderLen, d.PayloadLen, readLen,
					p.SeqID, p.Flags, len(buf), len(payload), len(buf))
			}
			if len(d.IntInfo) != len(p.IntInfo) || !sameStrMap(d.StrInfo, p.StrInfo) && !(len(p.StrInfo) == 0 && len(d.StrInfo) == 0) {
				return fmt.Sprintf("%s: %d int and %d str entries came back for %d and %d", how, len(d.IntInfo), len(d.StrInfo), len(p.IntInfo), len(p.StrInfo))
			}
			for k, v := range p.IntInfo {
				if d.IntInfo[k] != v {
					return fmt.Sprintf("%s: int entry %d came back as %q, want %q", how, k, d.IntInfo[k], v)
				}
			}
			return ""
		}
		d1, err := ttheader.DecodeFromBytes(context.Background(), frame)
		if s := check("DecodeFromBytes", d1, err, len(buf)); s != "" {
			return s
		}
		rd := bufiox.NewDefaultReader(&dataSource{data: frame, chunks: []int{1000, 7, 4096}})
		d2, err := ttheader.Decode(context.Background(), rd)
		s := check("Decode", d2, err, rd.ReadLen())
		rd.Release(nil)
		return s
	})
	c.AddEvals(int64(bc.N))
	if bad != "" {
		c.GoViolation(fam, "tth/big-"+bc.What, bc, bad)
	}
}

func bigStructMonitor(c *Ctx) {
	t0 := time.Now()
	ns := bigCounts(c, c.Pick(140000, 140000))
	for _, n := range ns {
		bigStructOne(c, BigCase{What: "extra", N: n})
	}
	mx := 0
	for _, n := range ns {
		if n > mx {
			mx = n
		}
	}
	fmt.Printf("MONITOR big maps in Base/BaseResp (%d cardinalities up to %d): %.1fs\n", len(ns), mx, time.Since(t0).Seconds())
}

func bigUnknownMonitor(c *Ctx) {
	t0 := time.Now()
	k := 0
	for _, what := range []string{"map", "strmap", "list", "set", "struct", "fields"} {
		max := 140000
		if what == "struct" || what == "fields" {
			max = 32767
		}
		if what == "map" || what == "list" {
			max = 1<<21 + 3
		}
		for _, n := range bigCounts(c, max) {
			bigUnknownOne(c, BigCase{What: what, N: n})
			k++
		}
	}
	fmt.Printf("MONITOR big unknown-field containers (%d cases): %.1fs\n", k, time.Since(t0).Seconds())
}

// hand-built sections whose entries repeat one key (4 bytes per pair with empty keys and values: the most pairs a 64 KiB
// header can hold); later entries win, so the maps hold the last value
func bigDupHeaderOne(c *Ctx, fam string, bc BigCase) {
	n := bc.N
	bad := guarded(func() string {
		info := []byte{0, 0} // protocol id, no transforms
		if bc.What == "dupstr" {
			info = append(info, 0x01, byte(n>>8), byte(n))
			for i := 0; i < n-1; i++ {
				info = append(info, 0, 0, 0, 0) // "" -> ""
			}
			info = append(info, 0, 0, 0, 4, 'L', 'A', 'S', 'T')
		} else {
			info = append(info, 0x10, byte(n>>8), byte(n))
			for i := 0; i < n-1; i++ {
				info = append(info, 0, 9, 0, 0) // 9 -> ""
			}
			info = append(info, 0, 9, 0, 4, 'L', 'A', 'S', 'T')
		}
		for len(info)%4 != 0 {
			info = append(info, 0)
		}
		if len(info) > 65536 {
			return ""
		}
		frame := make([]byte, 14, 14+len(info)+5)
		binary.BigEndian.PutUint16(frame[4:], 0x1000)
		binary.BigEndian.PutUint32(frame[8:], 77)
		binary.BigEndian.PutUint16(frame[12:], uint16(len(info)/4))
		frame = append(frame, info...)
		frame = append(frame, "hello"...)
		binary.BigEndian.PutUint32(frame, uint32(len(frame)-4))
		for _, how := range []string{"DecodeFromBytes", "Decode"} {
			var d ttheader.DecodeParam
			var err error
			if how == "Decode" {
				rd := bufiox.NewDefaultReader(&dataSource{data: frame, chunks: []int{4096, 13}})
				d, err = ttheader.Decode(context.Background(), rd)
				rd.Release(nil)
			} else {
				d, err = ttheader.DecodeFromBytes(context.Background(), frame)
			}
			if err != nil {
				return fmt.Sprintf("%s refused a well-formed frame with %d repeated %s entries: %v", how, n, bc.What[3:], err)
			}
			if d.HeaderLen != 14+len(info) || d.PayloadLen != 5 || d.SeqID != 77 {
				return fmt.Sprintf("%s: HeaderLen %d PayloadLen %d SeqID %d, want %d 5 77", how, d.HeaderLen, d.PayloadLen, d.SeqID, 14+len(info))
			}
			if bc.What == "dupstr" && !(len(d.StrInfo) == 1 && d.StrInfo[""] == "LAST" && len(d.IntInfo) == 0) {
				return fmt.Sprintf("%s: %d repeated str entries decoded to str %d entries (\"\" -> %q), int %d entries", how, n, len(d.StrInfo), d.StrInfo[""], len(d.IntInfo))
			}
			if bc.What == "dupint" && !(len(d.IntInfo) == 1 && d.IntInfo[9] == "LAST" && len(d.StrInfo) == 0) {
				return fmt.Sprintf("%s: %d repeated int entries decoded to int %d entries (9 -> %q), str %d entries", how, n, len(d.IntInfo), d.IntInfo[9], len(d.StrInfo))
			}
		}
		return ""
	})
	c.AddEvals(int64(bc.N))
	if bad != "" {
		c.GoViolation(fam, "tth/big-"+bc.What, bc, bad)
	}
}

// discardWriter: a foreign bufiox.Writer that counts and drops what it is given (a 4 GiB value need not be copied)
type discardWriter struct{ n int }

func (d *discardWriter) Malloc(n int) ([]byte, error)      { d.n += n; return make([]byte, n), nil }
func (d *discardWriter) WriteBinary(b []byte) (int, error) { d.n += len(b); return len(b), nil }
func (d *discardWriter) WrittenLen() int                   { return d.n }
func (d *discardWriter) Flush() error                      { return nil }

// giantHeaderValues: keys / values / tokens of 64 KiB .. beyond 4 GiB cannot be encoded (2-byte lengths, 64 KiB header):
// the encoder has to say so, whatever the size (Go monitor; the buffer is mapped lazily and never touched)
func giantHeaderValues(c *Ctx, fam string) {
	var buf []byte
	func() {
		defer func() { recover() }()
		buf = make([]byte, 1<<33+16)
	}()
	if buf == nil {
		c.Assume("giant header values skipped: the address space could not be reserved")
		return
	}
	for _, n := range []int{65536, 70000, 1 << 20, 1 << 31, 1<<32 - 30, 1 << 32, 1<<32 + 5, 1<<32 + 65000, 1<<32 + 70000, 1<<33 + 7} {
		s := unsafe.String(&buf[0], n)
		for _, where := range []string{"intvalue", "strkey", "strvalue", "acl"} {
			p := ttheader.EncodeParam{SeqID: 5}
			switch where {
			case "intvalue":
				p.IntInfo = map[uint16]string{1: s}
			case "strkey":
				p.StrInfo = map[string]string{s: "v"}
			case "strvalue":
				p.StrInfo = map[string]string{"k": s}
			default:
				p.StrInfo = map[string]string{ttheader.GDPRToken: s}
			}
			bad := guarded(func() string {
				w := &discardWriter{}
				if _, err := ttheader.Encode(context.Background(), p, w); err == nil {
					return fmt.Sprintf("Encode accepted a %s of %d bytes (%d bytes written): no error, and no frame that could decode back", where, n, w.n)
				}
				return ""
			})
			c.AddEvals(1)
			if bad != "" {
				c.GoViolation(fam, "tth/giant-"+where, BigCase{What: "giant-" + where, N: n}, bad)
			}
		}
	}
}

func bigHeaderMonitor(c *Ctx, fam string) {
	t0 := time.Now()
	k := 0
	if fam == "big-C06" {
		giantHeaderValues(c, fam)
	}
	for _, what := range []string{"dupstr", "dupint"} {
		ns := append(bigCounts(c, 16380), 9999, 13106, 13107, 13108, 13109, 16000, 16379, 16380)
		for _, n := range ns {
			bigDupHeaderOne(c, fam, BigCase{What: what, N: n})
			k++
		}
	}
	for _, what := range []string{"int", "str", "both"} {
		for _, n := range bigCounts(c, 9000) {
			bigHeaderOne(c, fam, BigCase{What: what, N: n})
			k++
		}
	}
	fmt.Printf("MONITOR big header sections (%d cases): %.1fs\n", k, time.Since(t0).Seconds())
}

func init() {
	goReplays["big-C11"] = func(c *Ctx, raw json.RawMessage) {
		var bc BigCase
		if json.Unmarshal(raw, &bc) == nil {
			bigStructOne(c, bc)
		}
	}
	goReplays["big-C13"] = func(c *Ctx, raw json.RawMessage) {
		var bc BigCase
		if json.Unmarshal(raw, &bc) == nil {
			bigUnknownOne(c, bc)
		}
	}
	for _, fam := range []string{"big-C06", "big-C10"} {
		fam := fam
		goReplays[fam] = func(c *Ctx, raw json.RawMessage) {
			var bc BigCase
			if json.Unmarshal(raw, &bc) == nil {
				if strings.HasPrefix(bc.What, "giant-") {
					giantHeaderValues(c, fam)
				} else if strings.HasPrefix(bc.What, "dup") {
					bigDupHeaderOne(c, fam, bc)
				} else {
					bigHeaderOne(c, fam, bc)
				}
			}
		}
	}
}
