package main

import (
	"encoding/hex"
	"encoding/json"
	"fmt"
	"github.com/cloudwego/gopkg/unsafex"
	"math/rand"
	"sort"
	"strconv"
	"strings"

	"github.com/cloudwego/gopkg/container/strmap"
)

// ---------------------------------------------------------------------------
// C07 — read-only string maps answer exactly like a Go map (StrMap.tla).

type SMLoad struct {
	Via   string   `json:"via"`  // map | slice | badslice (mismatched lengths) | none
	Keys  []string `json:"keys"` // hex
	Probe []string `json:"probe,omitempty"`
	// Flood > 0: at run time, Flood of the keys are replaced by keys that all hash to ONE slot of this instance's table
	// (found through the slot hook on the table of the previous load of the same size): an adversarial collision chain
	Flood int `json:"flood,omitempty"`
}

type SMCase struct {
	VT    string   `json:"vt"` // int | struct | str2str
	Loads []SMLoad `json:"loads"`
	Fresh bool     `json:"fresh,omitempty"` // probe before any load (never-loaded instance)
	Ctor  string   `json:"ctor,omitempty"`  // "ctor": the first load goes through NewFromMap / NewFromSlice / NewStr2StrFrom*; "zero": a zero-value Str2Str
}

type smStruct struct {
	A int32
	B int64
}

type smDriver interface {
	load(via string, keys []string, vals []int) error
	get(k string) (string, bool)
	val(v int) string
	length() int
	enum() [][2]string
	table() ([]uint32, []int32)
	slot(k string) (uint32, bool)
	itemKeys() []string
}

type smInt struct{ m *strmap.StrMap[int] }

func (d *smInt) load(via string, keys []string, vals []int) (err error) {
	if d.m == nil { // first load through the constructors (they panic on error)
		defer func() {
			if p := recover(); p != nil {
				d.m, err = strmap.New[int](), fmt.Errorf("constructor panicked: %v", p)
			}
		}()
		if via == "map" {
			mm := map[string]int{}
			for i, k := range keys {
				mm[k] = vals[i]
			}
			d.m = strmap.NewFromMap(mm)
		} else {
			d.m = strmap.NewFromSlice(keys, vals)
		}
		return nil
	}
	if via == "map" {
		mm := map[string]int{}
		for i, k := range keys {
			mm[k] = vals[i]
		}
		err = d.m.LoadFromMap(mm)
		for k := range mm { // the caller goes on using its map
			delete(mm, k)
		}
		return err
	}
	kk, vv := append([]string(nil), keys...), append([]int(nil), vals...)
	err = d.m.LoadFromSlice(kk, vv)
	for i := range kk { // ... and its slices
		kk[i] = "\x00overwritten"
	}
	for i := range vv {
		vv[i] = -7
	}
	return err
}
func (d *smInt) get(k string) (string, bool) {
	v, ok := d.m.Get(k)
	return fmt.Sprint(v), ok
}
func (d *smInt) val(v int) string { return fmt.Sprint(v) }
func (d *smInt) length() int      { return d.m.Len() }
func (d *smInt) enum() (out [][2]string) {
	for i := 0; i < d.m.Len(); i++ {
		k, v := d.m.Item(i)
		out = append(out, [2]string{k, fmt.Sprint(v)})
	}
	return
}
func (d *smInt) table() ([]uint32, []int32)   { return d.m.VerifTable() }
func (d *smInt) slot(k string) (uint32, bool) { return d.m.VerifSlot(k) }
func (d *smInt) itemKeys() (ks []string) {
	for i := 0; i < d.m.Len(); i++ {
		k, _ := d.m.Item(i)
		ks = append(ks, string(append([]byte(nil), k...)))
	}
	return
}

type smSt struct{ m *strmap.StrMap[smStruct] }

func (d *smSt) load(via string, keys []string, vals []int) (err error) {
	vv := make([]smStruct, len(vals))
	for i, v := range vals {
		vv[i] = smStruct{A: int32(v), B: int64(v) * 3}
	}
	if d.m == nil {
		defer func() {
			if p := recover(); p != nil {
				d.m, err = strmap.New[smStruct](), fmt.Errorf("constructor panicked: %v", p)
			}
		}()
		if via == "map" {
			mm := map[string]smStruct{}
			for i, k := range keys {
				mm[k] = vv[i]
			}
			d.m = strmap.NewFromMap(mm)
		} else {
			d.m = strmap.NewFromSlice(keys, vv)
		}
		return nil
	}
	if via == "map" {
		mm := map[string]smStruct{}
		for i, k := range keys {
			mm[k] = vv[i]
		}
		err = d.m.LoadFromMap(mm)
		for k := range mm {
			delete(mm, k)
		}
		return err
	}
	kk := append([]string(nil), keys...)
	err = d.m.LoadFromSlice(kk, vv)
	for i := range kk {
		kk[i] = "\x00overwritten"
	}
	for i := range vv {
		vv[i] = smStruct{A: -7, B: -7}
	}
	return err
}
func (d *smSt) get(k string) (string, bool) {
	v, ok := d.m.Get(k)
	return fmt.Sprintf("%d/%d", v.A, v.B), ok
}
func (d *smSt) val(v int) string { return fmt.Sprintf("%d/%d", int32(v), int64(v)*3) }
func (d *smSt) length() int      { return d.m.Len() }
func (d *smSt) enum() (out [][2]string) {
	for i := 0; i < d.m.Len(); i++ {
		k, v := d.m.Item(i)
		out = append(out, [2]string{k, fmt.Sprintf("%d/%d", v.A, v.B)})
	}
	return
}
func (d *smSt) table() ([]uint32, []int32)   { return d.m.VerifTable() }
func (d *smSt) slot(k string) (uint32, bool) { return d.m.VerifSlot(k) }
func (d *smSt) itemKeys() (ks []string) {
	for i := 0; i < d.m.Len(); i++ {
		k, _ := d.m.Item(i)
		ks = append(ks, string(append([]byte(nil), k...)))
	}
	return
}

// Str2Str: values are strings derived from the int value ("v<id>" padded), decoded back for the event
type smS2S struct{ m *strmap.Str2Str }

// Str2Str values: empty, short, long and binary strings (several ids share the empty value)
func s2sVal(v int) string {
	switch v % 9 {
	case 0:
		return ""
	case 1:
		return fmt.Sprintf("%d", v)
	case 2:
		return string(PatBytes(v%250, 0, 300+v%5000))
	case 3:
		return "\x00" + fmt.Sprint(v) + "\xff"
	case 5, 6:
		// prefixes of ONE buffer (values cut from a shared configuration blob): neighbours in the value slice start at the
		// same address and differ only in length
		if v < 400 { // (values travel hex-encoded in the events: keep them short)
			return s2sMaster[:5+v]
		}
	}
	return fmt.Sprintf("v%d-%s", v, strings.Repeat("x", v%7))
}

var s2sMaster = string(PatBytes(201, 0, 512))

func (d *smS2S) load(via string, keys []string, vals []int) (err error) {
	vv := make([]string, len(vals))
	for i, v := range vals {
		vv[i] = s2sVal(v)
	}
	if d.m == nil {
		defer func() {
			if p := recover(); p != nil {
				d.m, err = strmap.NewStr2Str(), fmt.Errorf("constructor panicked: %v", p)
			}
		}()
		if via == "map" {
			mm := map[string]string{}
			for i, k := range keys {
				mm[k] = vv[i]
			}
			d.m = strmap.NewStr2StrFromMap(mm)
		} else {
			d.m = strmap.NewStr2StrFromSlice(keys, vv)
		}
		return nil
	}
	if via == "map" {
		mm := map[string]string{}
		for i, k := range keys {
			mm[k] = vv[i]
		}
		err = d.m.LoadFromMap(mm)
		for k := range mm {
			delete(mm, k)
		}
		return err
	}
	kk := append([]string(nil), keys...)
	err = d.m.LoadFromSlice(kk, vv)
	for i := range kk {
		kk[i] = "\x00overwritten"
	}
	for i := range vv {
		vv[i] = "\x00overwritten value"
	}
	return err
}
func (d *smS2S) get(k string) (string, bool) {
	v, ok := d.m.Get(k)
	return hx(v), ok
}
func (d *smS2S) val(v int) string { return hx(s2sVal(v)) }
func (d *smS2S) length() int      { return d.m.Len() }
func (d *smS2S) enum() (out [][2]string) {
	im := d.m.VerifMap()
	for i := 0; i < im.Len(); i++ {
		k, _ := im.Item(i)
		k = string(append([]byte(nil), k...))
		v, _ := d.get(k)
		out = append(out, [2]string{k, v})
	}
	return
}
func (d *smS2S) table() ([]uint32, []int32)   { return d.m.VerifMap().VerifTable() }
func (d *smS2S) slot(k string) (uint32, bool) { return d.m.VerifMap().VerifSlot(k) }
func (d *smS2S) itemKeys() (ks []string) {
	im := d.m.VerifMap()
	for i := 0; i < im.Len(); i++ {
		k, _ := im.Item(i)
		ks = append(ks, string(append([]byte(nil), k...)))
	}
	return
}

func hx(s string) string { return hex.EncodeToString([]byte(s)) }

func runSMCase(raw json.RawMessage, w *TraceWriter) {
	var c SMCase
	if err := json.Unmarshal(raw, &c); err != nil {
		panic(err)
	}
	w.Ev("reset", "vt", c.VT)
	var d smDriver
	switch c.VT {
	case "struct":
		d = &smSt{strmap.New[smStruct]()}
	case "str2str":
		d = &smS2S{strmap.NewStr2Str()}
	default:
		d = &smInt{strmap.New[int]()}
	}
	if c.Ctor == "ctor" && len(c.Loads) > 0 && !c.Fresh {
		switch c.VT {
		case "struct":
			d = &smSt{}
		case "str2str":
			d = &smS2S{}
		default:
			d = &smInt{}
		}
	} else if c.Ctor == "zero" && c.VT == "str2str" {
		d = &smS2S{&strmap.Str2Str{}}
	}
	probe := func(keys []string) {
		for _, kh := range keys {
			kb, _ := hex.DecodeString(kh)
			k := string(kb)
			slot, has := d.slot(k)
			v, ok, panicked := "", false, false
			func() {
				defer func() {
					if p := recover(); p != nil {
						panicked = true
					}
				}()
				v, ok = d.get(k)
			}()
			if !ok {
				v = ""
			}
			w.Ev("get", "key", kh, "slot", int(slot), "hasslot", has, "ok", ok, "val", v, "panic", panicked)
		}
	}
	if c.Fresh {
		probe([]string{"", "61", "00"})
	}
	valBase := 0
	for li, ld := range c.Loads {
		keys := make([]string, len(ld.Keys))
		for i, kh := range ld.Keys {
			kb, _ := hex.DecodeString(kh)
			keys[i] = string(kb)
		}
		var floodProbes []string
		if ld.Flood > 0 && li > 0 && len(keys) >= ld.Flood {
			bySlot := map[uint32][]string{}
			best := uint32(0)
			for i := 0; len(bySlot[best]) < ld.Flood+4 && i < 3000000; i++ {
				k := fmt.Sprintf("flood-%d-%d", li, i)
				sl, ok := d.slot(k)
				if !ok {
					break
				}
				bySlot[sl] = append(bySlot[sl], k)
				if len(bySlot[sl]) > len(bySlot[best]) {
					best = sl
				}
			}
			if coll := bySlot[best]; len(coll) >= ld.Flood {
				members := coll[:ld.Flood]
				copy(keys, members) // the table size depends on the key count only: it stays what the hook saw
				for _, k := range coll {
					floodProbes = append(floodProbes, hx(k)) // members and same-slot strangers
				}
			}
		}
		vals := make([]int, len(keys))
		for i := range vals {
			valBase++
			vals[i] = li*100000 + valBase
		}
		via := ld.Via
		var err error
		if via == "badslice" {
			err = d.load("slice", keys, vals[:len(vals)/2])
		} else {
			err = d.load(via, keys, vals)
		}
		slots, ht := d.table()
		ik := d.itemKeys()
		var kv, items, enum []string
		for i, k := range keys {
			kv = append(kv, fmt.Sprintf(`["%s","%s"]`, hx(k), d.val(vals[i])))
		}
		for i, k := range ik {
			items = append(items, fmt.Sprintf(`["%s",%d]`, hx(k), slots[i]))
		}
		for _, e := range d.enum() {
			enum = append(enum, fmt.Sprintf(`["%s","%s"]`, hx(e[0]), e[1]))
		}
		hts := make([]int, len(ht))
		for i, x := range ht {
			hts[i] = int(x)
		}
		w.Ev("load", "via", via, "ok", err == nil, "len", d.length(), "kv", Raw("["+strings.Join(kv, ",")+"]"),
			"items", Raw("["+strings.Join(items, ",")+"]"), "ht", intsJSON(hts), "enum", Raw("["+strings.Join(enum, ",")+"]"))
		probe(ld.Probe)
		probe(floodProbes)
	}
}

func sigSM(raw json.RawMessage, line string) string {
	why := ""
	if i := strings.Index(line, " // "); i >= 0 {
		why = line[i+4:]
	}
	var c SMCase
	json.Unmarshal(raw, &c)
	var ev struct {
		Ok      bool `json:"ok"`
		Panic   bool `json:"panic"`
		HasSlot bool `json:"hasslot"`
	}
	if i := strings.Index(line, " // "); i >= 0 {
		json.Unmarshal([]byte(line[:i]), &ev)
	}
	shape := ""
	if ev.Panic {
		shape = "panic"
		if !ev.HasSlot {
			shape = "panic-never-loaded"
		}
	}
	return fmt.Sprintf("strmap/%s/%s/%s", c.VT, why, shape)
}

var famSM = Register(&Family{Name: "strmap", Spec: "Trace_StrMap", Cfg: "Trace_StrMap.cfg", Run: runSMCase, Sig: sigSM, Retries: 300, ParallelGC: true})

// key set generators: lengths 0..long, shared prefixes/suffixes, binary content, near-duplicates
func smKeys(rng *rand.Rand, n int) []string {
	set := map[string]bool{}
	var out []string
	add := func(k string) {
		if !set[k] && len(out) < n {
			set[k] = true
			out = append(out, k)
		}
	}
	if rng.Intn(3) == 0 {
		add("")
	}
	base := make([]byte, 8+rng.Intn(40))
	rng.Read(base)
	for len(out) < n {
		switch rng.Intn(7) {
		case 0: // prefixes of one another
			l := rng.Intn(len(base) + 1)
			add(string(base[:l]))
		case 1: // shared suffix
			b := append([]byte{byte(rng.Intn(256)), byte(rng.Intn(256))}, base[len(base)/2:]...)
			add(string(b))
		case 2: // near duplicate: flip one byte
			b := append([]byte(nil), base...)
			b[rng.Intn(len(b))] ^= byte(1 << uint(rng.Intn(8)))
			add(string(b))
		case 3: // short binary
			b := make([]byte, rng.Intn(4))
			rng.Read(b)
			add(string(b))
		case 4: // long
			b := make([]byte, 200+rng.Intn(800))
			rng.Read(b)
			add(string(b))
		default:
			add(fmt.Sprintf("key-%d-%d", rng.Intn(100000), len(out)))
		}
	}
	return out
}

func smProbes(rng *rand.Rand, keys []string, n int) []string {
	var out []string
	for i := 0; i < n; i++ {
		if len(keys) > 0 && rng.Intn(3) > 0 {
			k := []byte(keys[rng.Intn(len(keys))])
			switch rng.Intn(6) {
			case 0: // drop last byte
				if len(k) > 0 {
					k = k[:len(k)-1]
				}
			case 1: // extend
				k = append(k, byte(rng.Intn(256)))
			case 2: // flip
				if len(k) > 0 {
					k[rng.Intn(len(k))] ^= 1
				}
			case 3:
				k = append([]byte{0}, k...)
			}
			out = append(out, hx(string(k)))
		} else {
			b := make([]byte, rng.Intn(6))
			rng.Read(b)
			out = append(out, hx(string(b)))
		}
	}
	return out
}

func genSMCases(c *Ctx) []json.RawMessage {
	var out []json.RawMessage
	rng := rand.New(rand.NewSource(c.Seed*982451653 + 7))
	vts := []string{"int", "struct", "str2str"}
	mk := func(n int, nprobe int) SMLoad {
		keys := smKeys(rng, n)
		ld := SMLoad{Via: []string{"map", "slice"}[rng.Intn(2)]}
		for _, k := range keys {
			ld.Keys = append(ld.Keys, hx(k))
		}
		all := append([]string(nil), ld.Keys...)
		sort.Strings(all)
		if len(all) > 400 {
			rng.Shuffle(len(all), func(i, j int) { all[i], all[j] = all[j], all[i] })
			all = all[:400]
		}
		ld.Probe = append(all, smProbes(rng, keys, nprobe)...)
		return ld
	}
	// never-loaded and empty instances
	for _, vt := range vts {
		out = append(out, mustJSON(SMCase{VT: vt, Fresh: true}))
		out = append(out, mustJSON(SMCase{VT: vt, Fresh: true, Loads: []SMLoad{{Via: "slice", Probe: []string{"", "61"}}, {Via: "map", Probe: []string{"", "6162"}}}}))
	}
	// many fresh instances per small size class: random seeds produce many collision-chain shapes
	// (small tables have 1, 7 or 17 slots, collisions are the norm)
	// key counts on both sides of every step of the prime table (4n/3 crossing a power of two)
	for _, n := range []int{11, 12, 23, 24, 47, 48, 95, 96, 191, 192, 383, 384, 767, 768, 1535, 1536} {
		for i := 0; i < c.Pick(2, 12); i++ {
			out = append(out, mustJSON(SMCase{VT: vts[(n+i)%3], Loads: []SMLoad{mk(n, 40), mk(n-1, 10), mk(n+1, 10)}}))
		}
	}
	for _, n := range []int{1, 2, 3, 4, 5, 6, 8, 12, 13, 20} {
		for i := 0; i < c.Pick(60, 400); i++ {
			out = append(out, mustJSON(SMCase{VT: vts[i%3], Fresh: i%9 == 0, Loads: []SMLoad{mk(n, 12)}}))
		}
	}
	// adversarial collision chains (hash flooding): the second load of the same size puts 9..40 keys into one slot
	for i := 0; i < c.Pick(24, 240); i++ {
		n := []int{40, 100, 100, 300, 1000}[i%5]
		chain := []int{9, 10, 12, 17, 33, 40}[i%6]
		l2 := mk(n, 20)
		l2.Flood, l2.Via = chain, "slice"
		out = append(out, mustJSON(SMCase{VT: vts[i%3], Loads: []SMLoad{mk(n, 5), l2, mk(n/2, 10)}}))
	}
	// the constructors (NewFromMap / NewFromSlice / NewStr2StrFromMap / NewStr2StrFromSlice; a bad slice pair makes
	// them panic = a failed first load) and a zero-value Str2Str, followed by reloads
	for i := 0; i < c.Pick(90, 900); i++ {
		n := []int{0, 1, 2, 5, 12, 13, 100}[rng.Intn(7)]
		first := mk(n, 12)
		if i%10 == 9 && n >= 2 {
			first.Via = "badslice"
		}
		cs := SMCase{VT: vts[i%3], Ctor: "ctor", Loads: []SMLoad{first, mk([]int{0, 1, 7, 50}[rng.Intn(4)], 8)}}
		if i%6 == 5 {
			// (never probed before its first load: Get on a Str2Str{} literal dereferences its nil index; only
			// instances made by the package's constructors are "never-loaded maps" in the sense of the property)
			cs.VT, cs.Ctor = "str2str", "zero"
			if cs.Loads[0].Via == "badslice" {
				cs.Loads[0].Via = "slice"
			}
		}
		out = append(out, mustJSON(cs))
	}
	// reload histories: growing, shrinking, failed loads in between
	for i := 0; i < c.Pick(200, 3000); i++ {
		cs := SMCase{VT: vts[i%3]}
		nl := 2 + rng.Intn(3)
		for j := 0; j < nl; j++ {
			n := []int{0, 1, 3, 7, 30, 100, 400}[rng.Intn(7)]
			ld := mk(n, 10)
			if rng.Intn(5) == 0 && n >= 2 {
				ld.Via = "badslice"
			}
			cs.Loads = append(cs.Loads, ld)
		}
		out = append(out, mustJSON(cs))
	}
	// larger maps
	for _, n := range []int{1000, 3000, c.Pick(3000, 5000)} {
		for _, vt := range vts {
			out = append(out, mustJSON(SMCase{VT: vt, Loads: []SMLoad{mk(n, 300), mk(n/10, 100)}}))
		}
	}
	return out
}

// bigMapMonitor: 10^5-key maps are compared with a Go map directly (structural counts; TLC judges the sampled cases above).
func bigMapMonitor(c *Ctx) {
	rng := rand.New(rand.NewSource(c.Seed + 99))
	n := c.Pick(20000, 100000)
	keys := smKeys(rng, n)
	vals := make([]int, len(keys))
	ref := map[string]int{}
	for i, k := range keys {
		vals[i] = i + 1
		ref[k] = i + 1
	}
	m := strmap.New[int]()
	if err := m.LoadFromSlice(keys, vals); err != nil || m.Len() != len(ref) {
		c.GoViolation("strmap-big", "strmap/big/load", map[string]int{"n": n}, "big load failed or wrong Len")
		return
	}
	for k, v := range ref {
		if got, ok := m.Get(k); !ok || got != v {
			c.GoViolation("strmap-big", "strmap/big/get", map[string]int{"n": n}, "loaded key not found in a big map")
			return
		}
	}
	for _, ph := range smProbes(rng, keys[:1000], 20000) {
		kb, _ := hex.DecodeString(ph)
		v, ok := m.Get(string(kb))
		rv, rok := ref[string(kb)]
		if ok != rok || (ok && v != rv) {
			c.GoViolation("strmap-big", "strmap/big/probe", map[string]int{"n": n}, "probe disagrees with the Go map in a big map")
			return
		}
	}
	c.AddExtraCount("big_map_keys_compared_in_go", int64(n))
	// sizes around every step of the table (load factor 0.75 of each power of two from 2^13 to 2^18) and around
	// 2^16 items, through the constructors in turn: a loader may choose its algorithm by size
	var sizes []int
	for p2 := 13; p2 <= c.Pick(17, 18); p2++ {
		t := 3 << (p2 - 2)
		sizes = append(sizes, t-1, t, t+1)
	}
	sizes = append(sizes, 50000, 65534, 65535, 65536, 65537)
	for si, sz := range sizes {
		ks := smKeys(rand.New(rand.NewSource(c.Seed+int64(sz))), sz)
		want := map[string]int{}
		for i, k := range ks {
			want[k] = i + 1
		}
		for ctor := 0; ctor < 3; ctor++ {
			if !c.Thorough() && ctor != si%3 {
				continue
			}
			var get func(string) (int, bool)
			var ln int
			switch ctor {
			case 0:
				vs := make([]int, len(ks))
				for i := range vs {
					vs[i] = i + 1
				}
				mm := strmap.NewFromSlice(ks, vs)
				get, ln = mm.Get, mm.Len()
			case 1:
				mm := strmap.NewFromMap(want)
				get, ln = mm.Get, mm.Len()
			default:
				sv := make([]string, len(ks))
				for i := range sv {
					sv[i] = strconv.Itoa(i + 1)
				}
				mm := strmap.NewStr2StrFromSlice(ks, sv)
				get, ln = func(k string) (int, bool) { v, ok := mm.Get(k); x, _ := strconv.Atoi(v); return x, ok }, mm.Len()
			}
			if ln != len(want) {
				c.GoViolation("strmap-big", "strmap/big/len", map[string]int{"n": sz, "ctor": ctor}, fmt.Sprintf("Len %d, Go map %d", ln, len(want)))
				return
			}
			missing := 0
			for k, v := range want {
				if got, ok := get(k); !ok || got != v {
					missing++
				}
			}
			if _, ok := get("certainly-not-a-key"); ok {
				missing++
			}
			if missing > 0 {
				c.GoViolation("strmap-big", "strmap/big/get", map[string]int{"n": sz, "ctor": ctor}, fmt.Sprintf("%d of %d loaded keys answered unlike the Go map", missing, len(want)))
				return
			}
			c.AddExtraCount("big_map_keys_compared_in_go", int64(sz))
		}
	}
	// giant keys and values (up to 16 MiB + 5 and, thorough, 64 MiB): lengths beyond any narrow size field
	lens := []int{65535, 65536, 65537, 1 << 20, 1<<24 - 1, 1 << 24, 1<<24 + 5}
	if c.Thorough() {
		lens = append(lens, 1<<26+1)
	}
	var gk []string
	var gv []int
	gref := map[string]int{}
	for i, l := range lens {
		k := string(PatBytes(60+i, i, l))
		gk, gv = append(gk, k), append(gv, i+1)
		gref[k] = i + 1
	}
	gk, gv = append(gk, "small", ""), append(gv, 100, 101)
	gref["small"], gref[""] = 100, 101
	gm := strmap.New[int]()
	bad := ""
	func() {
		defer func() {
			if p := recover(); p != nil {
				bad = fmt.Sprint("panic: ", p)
			}
		}()
		if err := gm.LoadFromSlice(gk, gv); err != nil || gm.Len() != len(gref) {
			bad = "load failed or wrong Len"
			return
		}
		for k, v := range gref {
			if got, ok := gm.Get(k); !ok || got != v {
				bad = fmt.Sprintf("key of %d bytes not found", len(k))
				return
			}
			if len(k) > 10 {
				if _, ok := gm.Get(k[:len(k)-1]); ok {
					bad = fmt.Sprintf("prefix of a key of %d bytes found", len(k))
					return
				}
			}
		}
		seen := map[string]bool{}
		for i := 0; i < gm.Len(); i++ {
			k, v := gm.Item(i)
			if gref[k] != v || seen[k] {
				bad = fmt.Sprintf("Item(%d) returns a key of %d bytes that was not loaded (or twice)", i, len(k))
				return
			}
			seen[k] = true
		}
		s2 := strmap.NewStr2Str()
		vals := make([]string, len(gk))
		for i := range gk {
			vals[i] = gk[len(gk)-1-i]
		}
		if err := s2.LoadFromSlice(gk, vals); err != nil {
			bad = "Str2Str load of giant keys failed"
			return
		}
		for i, k := range gk {
			if v, ok := s2.Get(k); !ok || v != vals[i] {
				bad = fmt.Sprintf("Str2Str: key of %d bytes lost or wrong value", len(k))
				return
			}
		}
	}()
	if bad != "" {
		c.GoViolation("strmap-big", "strmap/giant-keys", map[string]int{"n": len(gk)}, bad)
	}
	c.AddExtraCount("giant_keys_compared_in_go", int64(len(gk)))
	// more than 4 GiB of key bytes in ONE map (257 distinct keys of 16 MiB: overlapping windows of one buffer, so only the
	// map's own copy costs memory): offsets into the key store beyond 2^32
	func() {
		const kl = 16 << 20
		const nk = 257
		buf := make([]byte, kl+nk)
		for i := range buf {
			buf[i] = byte(i*131 + i>>11)
		}
		ks, vs := make([]string, nk), make([]int, nk)
		for i := range ks {
			ks[i] = unsafex.BinaryToString(buf[i : i+kl])
			vs[i] = i + 1
		}
		bad := guarded(func() string {
			m := strmap.NewFromSlice(ks, vs)
			if m.Len() != nk {
				return fmt.Sprintf("Len %d for %d keys", m.Len(), nk)
			}
			for i, k := range ks {
				if v, ok := m.Get(k); !ok || v != vs[i] {
					return fmt.Sprintf("key #%d (offset %d in the key store) answers (%d, %v)", i, i*kl, v, ok)
				}
			}
			seen := map[int]bool{}
			for i := 0; i < m.Len(); i++ {
				k, v := m.Item(i)
				if v < 1 || v > nk || seen[v] || len(k) != kl || k[:64] != ks[v-1][:64] || k[kl-64:] != ks[v-1][kl-64:] {
					return fmt.Sprintf("Item(%d) = (key of %d bytes, %d): not the loaded pair, or twice", i, len(k), v)
				}
				seen[v] = true
			}
			return ""
		})
		if bad != "" {
			c.GoViolation("strmap-big", "strmap/4gib-of-keys", map[string]int{"n": nk}, bad)
		}
		c.AddExtraCount("giant_keys_compared_in_go", nk)
	}()
}

func checkC07(c *Ctx) {
	c.rule = "MC: every subset of a key universe with the empty key and prefixes ({\"\",a,ab[,b]}) x every assignment of keys to slots (the hash is an arbitrary function chosen at load) x every slot-sorted item order x histories of 2 loads/failed loads/never loaded: Get = Go-map semantics for every probe and every slot the probe may hash to. TRACE: fresh instances of StrMap[int], StrMap[struct], Str2Str per size class (random maphash seeds => many chain shapes), reload histories (grow, shrink, failed load), never-loaded and empty instances, instances made by the four constructors and a zero-value Str2Str, adversarial collision chains of 9..40 keys in one slot (keys chosen against the instance's seed through the slot hook), maps up to 5000 keys; every load must be an enabled Load action on the REAL table read through the hook (slot-sorted, first-index table, prime slot count, Item enumeration), every Get must agree with MapAbs and with ImplGet on the real table. Maps of 10^5 keys and maps with giant keys / values (2^16 +-1, 2^20, 2^24 +-1 bytes) are compared with a Go map in Go (monitor). The Go-compared big maps sweep the sizes around every table step (0.75 x 2^13..2^18) and around 2^16 items through the three constructors. One map holds 257 distinct keys of 16 MiB (more than 4 GiB of key bytes). Str2Str values include prefixes of one buffer (same start address, different lengths)."
	if c.Thorough() {
		c.MC("MC_StrMap.tla", "MC_StrMap_thorough.cfg", 12)
	} else {
		c.MC("MC_StrMap.tla", "MC_StrMap_quick.cfg", 8)
	}
	cases := genSMCases(c)
	c.TraceCheck(famSM, cases)
	bigMapMonitor(c)
	c.Assume("keys are logged hex-encoded; values as integers (struct and string values are mapped to/from integers injectively by the harness)")
}

func init() { checks["C07"] = checkC07 }

func init() {
	goReplays["strmap-big"] = func(c *Ctx, raw json.RawMessage) { bigMapMonitor(c) }
}
