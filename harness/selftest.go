package main

import (
	"encoding/json"
	"fmt"
	"os"
	"strings"
)

// SELFTEST — demonstrates that the trace specifications are bound to what is recorded: a recorded field is
// corrupted (or an event dropped) in exactly one case and TLC must reject exactly that case.

type tamper struct {
	fam   *Family
	cases []json.RawMessage
	what  string
	// edit returns the modified line, or "" to drop it; called for every line of the target case until it reports done
	edit func(line string) (string, bool)
}

func (c *Ctx) runTamper(t tamper, target int) (ok bool, detail string) {
	done := false
	c.corrupt = func(w *TraceWriter) {
		var span *caseSpan
		for i := range w.cases {
			if w.cases[i].idx == target {
				span = &w.cases[i]
			}
		}
		if span == nil {
			return
		}
		lines := readLines(w.path)
		var out []string
		for i, ln := range lines {
			if !done && i+1 >= span.first && i+1 < span.end {
				if nl, d := t.edit(ln); d {
					done = true
					if nl == "" {
						// dropped: shift the spans of later cases
						for k := range w.cases {
							if w.cases[k].first > i+1 {
								w.cases[k].first--
							}
							if w.cases[k].end > i+1 {
								w.cases[k].end--
							}
						}
						w.line--
						continue
					}
					ln = nl
				}
			}
			out = append(out, ln)
		}
		os.WriteFile(w.path, []byte(strings.Join(out, "\n")), 0o644)
	}
	res, err := c.validate(t.fam, t.cases, 1)
	c.corrupt = nil
	if err != nil {
		return false, "TLC error: " + err.Error()
	}
	if !done {
		return false, "nothing was tampered with"
	}
	if len(res.mismatch) != 1 {
		return false, fmt.Sprintf("%d cases rejected, want exactly 1", len(res.mismatch))
	}
	if _, hit := res.mismatch[target]; !hit {
		return false, "a different case was rejected"
	}
	return true, ""
}

func replaceField(line, key string, from, to string) (string, bool) {
	old := `"` + key + `":` + from
	if !strings.Contains(line, old) {
		return line, false
	}
	return strings.Replace(line, old, `"`+key+`":`+to, 1), true
}

func checkSelftest(c *Ctx) {
	c.rule = "binding self-test: for several families a clean batch of cases must be accepted, and the same batch with ONE recorded field corrupted or ONE event dropped in one case must have exactly that case rejected by TLC"
	c.level = "other"
	type tcase struct {
		name string
		t    tamper
	}
	rd := genRdCases(c)[:300]
	rd[150] = mustJSON(RdCase{Fl: "io", S: 5000, Fk: "EOF", Seed: 3, Chunks: []int{-1}, Ops: []RdOp{{"next", 100}, {"peek", 7}, {"next", 4097}, {"release", 0}, {"next", 10}}})
	wr := genWrCases(c)[:300]
	wr[150] = mustJSON(WrCase{Fl: "io", Shuffle: 1, Ops: []WrOp{{Op: "malloc", N: 100, Lazy: true}, {Op: "malloc", N: 9000}, {Op: "flush"}}})
	sk := wellFormedSkipCases(c, 100, 5)[:300]
	sm := genSMCases(c)[10:110]
	tests := []tcase{
		{"rd: ReadLen of one result +1", tamper{famRd, rd, "", func(l string) (string, bool) {
			if strings.Contains(l, `"k":"end","op":"peek"`) {
				return replaceField(l, "rl", "100", "101")
			}
			return l, false
		}}},
		{"rd: a source read event dropped", tamper{famRd, rd, "", func(l string) (string, bool) {
			if strings.Contains(l, `"k":"read"`) {
				return "", true
			}
			return l, false
		}}},
		{"rd: hook state cap altered (must be DRIFT only, no rejection)", tamper{famRd, rd, "", func(l string) (string, bool) {
			return l, false
		}}},
		{"wr: a fill event dropped (region content unknown to the spec)", tamper{famWr, wr, "", func(l string) (string, bool) {
			if strings.Contains(l, `"k":"fill"`) {
				return "", true
			}
			return l, false
		}}},
		{"wr: WrittenLen of a Malloc +1", tamper{famWr, wr, "", func(l string) (string, bool) {
			if strings.Contains(l, `"k":"malloc","n":9000`) {
				return replaceField(l, "wl", "9100", "9101")
			}
			return l, false
		}}},
		{"skip: one skipper's n decremented", tamper{famSkipC02, sk, "", func(l string) (string, bool) {
			i := strings.Index(l, `"impl":"skipdec","shape":"1byte","ok":true,"n":`)
			if i < 0 {
				return l, false
			}
			j := i + len(`"impl":"skipdec","shape":"1byte","ok":true,"n":`)
			return l[:j] + "9" + l[j:], true
		}}},
		{"strmap: slot of one stored item altered", tamper{famSM, sm, "", func(l string) (string, bool) {
			i := strings.Index(l, `"items":[["`)
			if i < 0 || !strings.Contains(l, `"ok":true`) {
				return l, false
			}
			j := strings.Index(l[i:], `",`) + i + 2
			k := j
			for k < len(l) && l[k] >= '0' && l[k] <= '9' {
				k++
			}
			return l[:j] + "9999" + l[k:], true
		}}},
	}
	var results []map[string]interface{}
	failed := 0
	for _, tc := range tests {
		if strings.Contains(tc.name, "DRIFT only") {
			continue
		}
		// clean batch first
		clean, err := c.validate(tc.t.fam, tc.t.cases, 1)
		if err != nil || len(clean.mismatch) != 0 {
			c.Infra("selftest %q: clean batch not accepted (%v, %d rejected)", tc.name, err, len(clean.mismatch))
			failed++
			continue
		}
		target := 150
		if len(tc.t.cases) <= target {
			target = len(tc.t.cases) / 2
		}
		ok, detail := c.runTamper(tc.t, target)
		results = append(results, map[string]interface{}{"tamper": tc.name, "exactly_that_case_rejected": ok, "detail": detail})
		fmt.Printf("SELFTEST %-60s %v %s\n", tc.name, ok, detail)
		if !ok {
			failed++
		}
		c.AddEvals(1)
		c.Distinct(tc.name)
	}
	c.Extra("explanation", "each tamper corrupts one recorded field or drops one event in one case of a batch; TLC must reject exactly that case")
	c.Extra("selftests", results)
	for _, r := range results {
		c.samples = append(c.samples, r)
	}
	if failed > 0 {
		c.Infra("%d binding self-tests failed", failed)
	}
}

func init() { checks["SELFTEST"] = checkSelftest }
