package main

import (
	"bytes"
	"encoding/binary"
	"encoding/json"
	"fmt"
	"github.com/cloudwego/gopkg/protocol/thrift/base"
	"os"
	"os/exec"
	"strconv"
	"strings"
	"time"

	"github.com/cloudwego/gopkg/bufiox"
	"github.com/cloudwego/gopkg/protocol/thrift"
)

// ---------------------------------------------------------------------------
// C03 — "never panics" for nesting that is millions of levels deep (Go monitor; C03Rule is the whole expectation).
// A decoder whose recursion is not bounded along SOME path of the grammar (a container used as map key, as map value,
// as list / set element, as struct field) does not fail on 70 levels: it dies with an unrecoverable stack overflow on
// a few million.  Such a death cannot be caught in-process, so every chain runs in a child process; the parent judges
// the child's exit status and the (n, err) pairs it printed.

type DeepCase struct {
	Kind   string `json:"kind"` // mapkey | mapval | list | set | struct | alternating
	Levels int    `json:"levels"`
}

func deepChain(kind string, levels int) ([]byte, int8) {
	var head, tail []byte
	top := int8(thrift.MAP)
	for i := 0; i < levels; i++ {
		k := kind
		if kind == "alternating" {
			k = []string{"mapkey", "list", "struct", "mapval", "set"}[i%5]
		}
		// what the NEXT level is (the element / key / value / field type announced by this level)
		next := k
		if kind == "alternating" {
			next = []string{"mapkey", "list", "struct", "mapval", "set"}[(i+1)%5]
		}
		nt := map[string]byte{"mapkey": 13, "mapval": 13, "list": 15, "set": 14, "struct": 12}[next]
		if i == levels-1 {
			nt = 3 // innermost: bytes
		}
		switch k {
		case "mapkey":
			head = append(head, nt, 3, 0, 0, 0, 1)
			tail = append(tail, 7) // the value byte after the nested key
		case "mapval":
			head = append(head, 3, nt, 0, 0, 0, 1, 7)
		case "list", "set":
			head = append(head, nt, 0, 0, 0, 1)
		case "struct":
			head = append(head, nt, 0, 1)
			tail = append(tail, 0) // STOP after the nested field
		}
		if i == 0 {
			top = int8(map[string]byte{"mapkey": 13, "mapval": 13, "list": 15, "set": 14, "struct": 12}[k])
		}
	}
	head = append(head, 9) // the innermost byte value
	// tails unwind innermost first
	for i, j := 0, len(tail)-1; i < j; i, j = i+1, j-1 {
		tail[i], tail[j] = tail[j], tail[i]
	}
	return append(head, tail...), top
}

// deepChainChild: run by the child process; prints one line per skipper and DONE.
func deepChainChild(kind string, levels int) {
	in, t := deepChain(kind, levels)
	show := func(impl string, n int, err error) {
		fmt.Printf("impl=%s n=%d len=%d err=%v\n", impl, n, len(in), err != nil)
	}
	n, err := thrift.Binary.Skip(in, thrift.TType(t))
	show("binary", n, err)
	d := thrift.NewBytesSkipDecoder(in)
	x, err := d.Next(thrift.TType(t))
	show("bytesdec", len(x), err)
	d.Release()
	rd := bufiox.NewBytesReader(in)
	sd := thrift.NewSkipDecoder(rd)
	y, err := sd.Next(thrift.TType(t))
	show("skipdec", len(y), err)
	sd.Release()
	rd.Release(nil)
	rsd := thrift.NewReaderSkipDecoder(bytes.NewReader(in))
	z, err := rsd.Next(thrift.TType(t))
	show("readerdec", len(z), err)
	rsd.Release()
	br := thrift.NewBufferReader(bufiox.NewBytesReader(in))
	err = br.Skip(thrift.TType(t))
	show("bufferreader", int(br.Readn()), err)
	fmt.Println("DONE")
	os.Exit(0)
}

func deepOne(c *Ctx, dc DeepCase) {
	cmd := exec.Command(os.Args[0], "C03", "--deepchain-child", dc.Kind, strconv.Itoa(dc.Levels))
	var out bytes.Buffer
	cmd.Stdout, cmd.Stderr = &out, &out
	done := make(chan error, 1)
	if err := cmd.Start(); err != nil {
		c.Infra("deep-chain child: %v", err)
		return
	}
	go func() { done <- cmd.Wait() }()
	select {
	case err := <-done:
		o := out.String()
		if err != nil || !strings.Contains(o, "DONE") {
			what := "the process died"
			if i := strings.Index(o, "fatal error:"); i >= 0 {
				what = strings.SplitN(o[i:], "\n", 2)[0]
			} else if i := strings.Index(o, "panic:"); i >= 0 {
				what = strings.SplitN(o[i:], "\n", 2)[0]
			} else if err != nil && strings.Contains(err.Error(), "killed") {
				c.Infra("deep-chain child killed (%v): not enough memory for the probe?", err)
				return
			}
			last := ""
			for _, ln := range strings.Split(o, "\n") {
				if strings.HasPrefix(ln, "impl=") {
					last = ln
				}
			}
			c.GoViolation("deep-C03", "deep/"+dc.Kind+"/process-died", dc, fmt.Sprintf("%d levels of %s nesting: %s (last completed: %q)", dc.Levels, dc.Kind, what, last))
			return
		}
		for _, ln := range strings.Split(o, "\n") {
			var impl string
			var n, l int
			var failed bool
			if k, _ := fmt.Sscanf(ln, "impl=%s n=%d len=%d err=%t", &impl, &n, &l, &failed); k == 4 {
				c.AddEvals(1)
				if !failed && (n < 0 || n > l) {
					c.GoViolation("deep-C03", "deep/"+dc.Kind+"/over-report", dc, ln)
				}
			}
		}
	case <-time.After(5 * time.Minute):
		cmd.Process.Kill()
		c.GoViolation("deep-C03", "deep/"+dc.Kind+"/no-termination", dc, "no result within 5 minutes")
	}
}

// giantFieldMonitor: the shipped structs meet an unknown STRING field of almost 2 GiB whose bytes are really there (a
// lazily mapped buffer; nothing is allocated for it): FastRead skips it and reports the whole input, no panic, nothing
// negative (Go monitor: TLC cannot hold a 2 GiB input)
func giantFieldMonitor(c *Ctx) {
	var buf []byte
	func() {
		defer func() { recover() }()
		buf = make([]byte, 1<<31+64)
	}()
	if buf == nil {
		c.Assume("giant unknown fields skipped: the address space could not be reserved")
		return
	}
	for _, sl := range []uint32{1<<31 - 1, 1<<31 - 3, 1<<31 - 4, 1<<31 - 5, 1<<30 + 7} {
		for i := range buf[:16] {
			buf[i] = 0
		}
		buf[0], buf[1], buf[2] = 11, 0, 99 // STRING, field id 99: unknown to all three structs
		binary.BigEndian.PutUint32(buf[3:], sl)
		in := buf[:7+int(sl)+1] // ... the string's bytes, STOP
		for _, name := range []string{"AppEx", "Base", "BaseResp", "skip", "uf"} {
			bad := guarded(func() string {
				var n int
				var err error
				switch name {
				case "AppEx":
					n, err = thrift.NewApplicationException(0, "").FastRead(in)
				case "Base":
					n, err = base.NewBase().FastRead(in)
				case "BaseResp":
					n, err = base.NewBaseResp().FastRead(in)
				case "skip":
					n, err = thrift.Binary.Skip(in, thrift.STRUCT)
				default:
					return "" // (ConvertUnknownFields copies the value: 2 GiB of real memory; left out)
				}
				if err != nil || n != len(in) {
					return fmt.Sprintf("%s over an unknown string field of %d bytes: n=%d (input %d) err=%v", name, sl, n, len(in), err)
				}
				return ""
			})
			c.AddEvals(1)
			if bad != "" {
				c.GoViolation("giantfield-C03", "struct/giant-unknown-field/"+name, map[string]interface{}{"len": sl, "entry": name}, bad)
			}
		}
	}
}

func deepChainMonitor(c *Ctx) {
	t0 := time.Now()
	levels := c.Pick(6<<20, 12<<20)
	for _, k := range []string{"mapkey", "mapval", "list", "set", "struct", "alternating"} {
		deepOne(c, DeepCase{Kind: k, Levels: levels})
	}
	c.Extra("deep_chain_levels", levels)
	fmt.Printf("MONITOR deep chains (%d levels x 6 shapes x 5 skippers, child processes): %.1fs\n", levels, time.Since(t0).Seconds())
}

func init() {
	goReplays["giantfield-C03"] = func(c *Ctx, raw json.RawMessage) { giantFieldMonitor(c) }
	goReplays["deep-C03"] = func(c *Ctx, raw json.RawMessage) {
		var dc DeepCase
		if json.Unmarshal(raw, &dc) == nil && dc.Levels > 0 {
			deepOne(c, dc)
		}
	}
}
