package main

import (
	"bytes"
	"context"
	"encoding/binary"
	"encoding/hex"
	"encoding/json"
	"errors"
	"fmt"
	"hash/adler32"
	"hash/crc32"
	"hash/fnv"
	"math/rand"
	"runtime/debug"
	"sort"
	"strings"

	"github.com/cloudwego/gopkg/bufiox"
	"github.com/cloudwego/gopkg/protocol/thrift"
	"github.com/cloudwego/gopkg/protocol/ttheader"
)

// ---------------------------------------------------------------------------
// C06 / C10 — TTHeader encode/decode against TTHeader.tla.

type IntKV struct {
	K int     `json:"k"`
	V StrSpec `json:"v"`
}
type StrKV struct {
	K StrSpec `json:"k"`
	V StrSpec `json:"v"`
}

type TTHCase struct {
	Mode    string   `json:"mode"` // enc | dec
	Flags   int      `json:"flags"`
	Seq     int      `json:"seq"`
	Proto   int      `json:"proto"`
	Int     []IntKV  `json:"int,omitempty"`
	Str     []StrKV  `json:"str,omitempty"`
	ACL     *StrSpec `json:"acl,omitempty"`
	Payload int      `json:"payload,omitempty"`
	// dec mode: a frame built from parts
	F     int    `json:"f,omitempty"`     // size field
	Body  string `json:"body,omitempty"`  // hex of the body start (rest zero-filled up to BodyLen)
	BLen  int    `json:"blen,omitempty"`  // body length present in the input
	Total int    `json:"total,omitempty"` // total-length field
	Magic int    `json:"magic,omitempty"` // 16-bit magic (default 0x1000)
	Hex   string `json:"hex,omitempty"`   // or a raw frame
	Mut   string `json:"mut,omitempty"`   // enc mode: mutate the encoded frame before decoding (hostile)
	Prior string `json:"prior,omitempty"` // dec mode: a frame (hex) that the same process decodes just before (history)
}

const gdprKey = ttheader.GDPRToken

func (c *TTHCase) seeds() []int {
	m := map[int]bool{}
	add := func(s StrSpec) {
		if s.Lit == nil && s.Len > litMax {
			m[s.Seed] = true
		}
	}
	for _, kv := range c.Int {
		add(kv.V)
	}
	for _, kv := range c.Str {
		add(kv.K)
		add(kv.V)
	}
	if c.ACL != nil {
		add(*c.ACL)
	}
	var out []int
	for k := range m {
		out = append(out, k)
	}
	sort.Ints(out)
	return out
}

func tthParamJSON(flags, seq, proto int, ints map[uint16]string, strs map[string]string, seeds []int) Raw {
	var ik []int
	for k := range ints {
		ik = append(ik, int(k))
	}
	sort.Ints(ik)
	var sk []string
	for k := range strs {
		sk = append(sk, k)
	}
	sort.Strings(sk)
	var sb strings.Builder
	fmt.Fprintf(&sb, `{"flags":%d,"seq":%d,"proto":%d,"int":[`, flags, seq, proto)
	for i, k := range ik {
		if i > 0 {
			sb.WriteByte(',')
		}
		fmt.Fprintf(&sb, `[%d,%s]`, k, projectBytes([]byte(ints[uint16(k)]), seeds))
	}
	sb.WriteString(`],"str":[`)
	for i, k := range sk {
		if i > 0 {
			sb.WriteByte(',')
		}
		fmt.Fprintf(&sb, `[%s,%s]`, projectBytes([]byte(k), seeds), projectBytes([]byte(strs[k]), seeds))
	}
	sb.WriteString(`]}`)
	return Raw(sb.String())
}

func tthDecode(w *TraceWriter, in []byte, seeds []int, shapes int) {
	ctx := context.Background()
	emit := func(api, frag string, p ttheader.DecodeParam, err error, readlen int, panicked bool, extra ...interface{}) {
		total := []int{0, 0, 0, 0}
		tl := 0
		if len(in) >= 4 {
			total = lanes32(binary.BigEndian.Uint32(in))
			tl = int(binary.BigEndian.Uint32(in))
		}
		isth, isstr := false, false
		func() {
			defer func() { recover() }()
			if len(in) >= 8 {
				isth = ttheader.IsTTHeader(in)
			}
			isstr = ttheader.IsStreaming(in)
		}()
		kv := []interface{}{"api", api, "frag", frag, "in", projectBytes(in, seeds), "ok", err == nil && !panicked, "panic", panicked,
			"param", tthParamJSON(int(p.Flags), int(p.SeqID), int(p.ProtocolID), p.IntInfo, p.StrInfo, seeds),
			"hlen", p.HeaderLen, "plendelta", p.PayloadLen - tl, "total", Raw(intsJSON(total)), "readlen", readlen, "isth", isth, "isstreaming", isstr}
		w.Ev("tth_dec", append(kv, extra...)...)
	}
	func() {
		var p ttheader.DecodeParam
		var err error
		panicked := false
		rd := bufiox.NewBytesReader(in)
		func() {
			defer func() {
				if r := recover(); r != nil {
					panicked = true
				}
			}()
			p, err = ttheader.Decode(ctx, rd)
		}()
		emit("bytes", "slice", p, err, rd.ReadLen(), panicked)
		// DecodeFromBytes is Decode over a bytes reader + Release
		var p2 ttheader.DecodeParam
		var err2 error
		pan2 := false
		gin := guardCopy(in) // exact capacity, flush against a PROT_NONE page
		if gin == nil {
			gin = in
		}
		func() {
			old := debug.SetPanicOnFault(true)
			defer debug.SetPanicOnFault(old)
			defer func() {
				if r := recover(); r != nil {
					pan2 = true
				}
			}()
			p2, err2 = ttheader.DecodeFromBytes(ctx, gin)
		}()
		rl := p2.HeaderLen
		if err2 != nil || pan2 {
			rl = 0
		}
		emit("frombytes", "slice", p2, err2, rl, pan2)
	}()
	for si := 0; si < shapes && si < len(skipChunkShapes); si++ {
		sh := skipChunkShapes[si]
		src := &dataSource{data: in, chunks: sh.chunks, wd: sh.wd, fail: sh.fail}
		rd := bufiox.NewDefaultReader(src)
		var p ttheader.DecodeParam
		var err error
		panicked := false
		func() {
			defer func() {
				if r := recover(); r != nil {
					panicked = true
				}
			}()
			p, err = ttheader.Decode(ctx, rd)
		}()
		emit("stream", sh.name, p, err, rd.ReadLen(), panicked)
		rd.Release(nil)
		// a live connection: the header has arrived, the payload has not; a decoder asking for more than the header would
		// block until it does (here the request is refused and counted)
		if si == 0 && err == nil && !panicked && p.HeaderLen > 0 && p.HeaderLen <= len(in) {
			src2 := &exactSource{dataSource: dataSource{data: in[:p.HeaderLen], chunks: []int{7, 4096}}}
			rd2 := bufiox.NewDefaultReader(src2)
			var p2 ttheader.DecodeParam
			var err2 error
			pan2 := false
			func() {
				defer func() {
					if r := recover(); r != nil {
						pan2 = true
					}
				}()
				p2, err2 = ttheader.Decode(ctx, rd2)
			}()
			emit("stream", "7-4096+payload-has-not-arrived", p2, err2, rd2.ReadLen(), pan2, "over", src2.extra > 0)
			rd2.Release(nil)
		}
	}
}

func runTTHCase(raw json.RawMessage, w *TraceWriter) {
	var c TTHCase
	if err := json.Unmarshal(raw, &c); err != nil {
		panic(err)
	}
	seeds := c.seeds()
	ctx := context.Background()
	if c.Mode == "util" {
		runTTHUtil(&c, w, seeds)
		return
	}
	if c.Mode == "dec" {
		if c.Prior != "" {
			func() {
				defer func() { recover() }()
				ttheader.DecodeFromBytes(ctx, hexToBytes(c.Prior))
			}()
		}
		var in []byte
		if c.Hex != "" {
			in = hexToBytes(c.Hex)
		} else {
			magic := c.Magic
			if magic == 0 {
				magic = 0x1000
			}
			in = make([]byte, 14+c.BLen)
			binary.BigEndian.PutUint32(in, uint32(c.Total))
			binary.BigEndian.PutUint16(in[4:], uint16(magic))
			binary.BigEndian.PutUint16(in[6:], uint16(c.Flags))
			binary.BigEndian.PutUint32(in[8:], uint32(int32(c.Seq)))
			binary.BigEndian.PutUint16(in[12:], uint16(c.F))
			copy(in[14:], hexToBytes(c.Body))
		}
		shapes := 3
		if len(in) > 2000 {
			shapes = 1
		}
		tthDecode(w, in, seeds, shapes)
		return
	}
	param := ttheader.EncodeParam{Flags: ttheader.HeaderFlags(c.Flags), SeqID: int32(c.Seq), ProtocolID: ttheader.ProtocolID(c.Proto)}
	if c.Int != nil {
		param.IntInfo = map[uint16]string{}
		for _, kv := range c.Int {
			param.IntInfo[uint16(kv.K)] = string(kv.V.Bytes())
		}
	}
	if c.Str != nil || c.ACL != nil {
		param.StrInfo = map[string]string{}
		for _, kv := range c.Str {
			param.StrInfo[string(kv.K.Bytes())] = string(kv.V.Bytes())
		}
		if c.ACL != nil {
			param.StrInfo[gdprKey] = string(c.ACL.Bytes())
		}
	}
	pj := tthParamJSON(c.Flags, c.Seq, c.Proto, param.IntInfo, param.StrInfo, seeds)
	var frame []byte
	// EncodeToBytes
	func() {
		panicked := false
		var buf []byte
		var err error
		func() {
			defer func() {
				if r := recover(); r != nil {
					panicked = true
				}
			}()
			buf, err = ttheader.EncodeToBytes(ctx, param)
		}()
		ok := err == nil && !panicked
		if ok {
			frame = buf
		}
		fj := Raw("[]")
		if ok {
			fj = projectBytes(buf, seeds)
		}
		w.Ev("tth_enc", "api", "bytes", "param", pj, "ok", ok, "panic", panicked, "frame", fj, "written", len(buf))
	}()
	// Encode over a stream-backed writer that is empty / already holds unflushed bytes of an earlier message (the frame
	// must not depend on what is in front of it); the returned total-length slice must be the frame's first 4 bytes
	for _, prefill := range []int{0, 1 + int(uint32(c.Seq)%7), 4093} {
		panicked := false
		sink := &recSink{}
		bw := bufiox.NewDefaultWriter(sink)
		var err error
		wl := 0
		var tlf []byte
		func() {
			defer func() {
				if r := recover(); r != nil {
					panicked = true
				}
			}()
			if prefill > 0 {
				pb, _ := bw.Malloc(prefill)
				for i := range pb {
					pb[i] = 0xD7
				}
			}
			tlf, err = ttheader.Encode(ctx, param, bw)
			wl = bw.WrittenLen() - prefill
			if err == nil && len(tlf) == 4 {
				binary.BigEndian.PutUint32(tlf, 0xDEADBEEF)
			}
			if err == nil {
				err = bw.Flush()
			}
		}()
		ok := err == nil && !panicked
		var all []byte
		for _, p := range sink.payloads {
			all = append(all, p...)
		}
		fj := Raw("[]")
		tlfok := true
		if ok {
			tlfok = len(tlf) == 4 && len(all) >= prefill+4 && binary.BigEndian.Uint32(all[prefill:]) == 0xDEADBEEF && bytes.Equal(all[:prefill], bytes.Repeat([]byte{0xD7}, prefill))
			if tlfok {
				fr := append([]byte(nil), all[prefill:]...)
				binary.BigEndian.PutUint32(fr, 0) // as EncodeToBytes leaves it
				fj = projectBytes(fr, seeds)
			}
		}
		w.Ev("tth_enc", "api", "stream", "param", pj, "ok", ok, "panic", panicked, "frame", fj, "written", wl, "tlfok", tlfok, "prefill", prefill)
	}
	// Encode over a zero-copy writer that reads what WriteBinary gave it only at Flush (a scratch buffer reused between
	// two WriteBinary calls would show up as a wrong frame)
	func() {
		panicked := false
		rw := &refWriter{}
		var err error
		wl := 0
		func() {
			defer func() {
				if r := recover(); r != nil {
					panicked = true
				}
			}()
			_, err = ttheader.Encode(ctx, param, rw)
			wl = rw.WrittenLen()
			if err == nil {
				err = rw.Flush()
			}
		}()
		ok := err == nil && !panicked
		fj := Raw("[]")
		if ok {
			fj = projectBytes(rw.out, seeds)
		}
		w.Ev("tth_enc", "api", "stream-ref", "param", pj, "ok", ok, "panic", panicked, "frame", fj, "written", wl)
	}()
	if frame == nil {
		return
	}
	// Encode over a writer that runs out of room after `budget` bytes: success exactly when the frame fits,
	// otherwise the writer's own error
	seenB := map[int]bool{}
	for _, budget := range []int{0, 13, 14, 15, len(frame) / 2, len(frame) - 3, len(frame) - 1, len(frame), len(frame) + 3} {
		if budget < 0 || seenB[budget] {
			continue
		}
		seenB[budget] = true
		bwr := &budgetWriter{budget: budget, fail: errBudget}
		var err error
		panicked := false
		func() {
			defer func() {
				if r := recover(); r != nil {
					panicked = true
				}
			}()
			_, err = ttheader.Encode(ctx, param, bwr)
		}()
		w.Ev("tth_encb", "budget", budget, "flen", len(frame), "ok", err == nil && !panicked, "panic", panicked,
			"errsrc", err != nil && errors.Is(err, errBudget), "wrote", bwr.used)
	}
	// delimit a payload: total length = header + payload - 4
	full := append([]byte(nil), frame...)
	binary.BigEndian.PutUint32(full, uint32(len(frame)+c.Payload-4))
	full = append(full, PatBytes(249, 0, c.Payload)...)
	if c.Mut != "" {
		parts := strings.Split(c.Mut, ":")
		if parts[0] == "cut" {
			if k := atoi(parts[1]); k < len(full) {
				full = full[:k]
			}
		} else if parts[0] == "set" {
			if pos := atoi(parts[1]); pos < len(full) {
				full[pos] = byte(atoi(parts[2]))
			}
		}
	}
	shapes := len(skipChunkShapes)
	if len(full) > 3000 {
		shapes = 2
	}
	tthDecode(w, full, append(seeds, 249), shapes)
}

func sigTTH(raw json.RawMessage, line string) string {
	why := ""
	if i := strings.Index(line, " // "); i >= 0 {
		why = line[i+4:]
	}
	var c TTHCase
	json.Unmarshal(raw, &c)
	m, _, _ := strings.Cut(c.Mut, ":")
	return fmt.Sprintf("tth/%s/%s/%s", why, c.Mode, m)
}

func tthFamily(prop string) *Family {
	return Register(&Family{Name: "tth-" + prop, Spec: "Trace_TTHeader", Cfg: "Trace_TTHeader.cfg",
		Run: runTTHCase, Sig: sigTTH, Env: []string{"VPROP=" + prop}})
}

var (
	famTTHC06 = tthFamily("C06")
	famTTHC10 = tthFamily("C10")
	famTTHC03 = tthFamily("C03")
)

func randTTH(rng *rand.Rand, big bool) TTHCase {
	ctr := rng.Intn(200)
	c := TTHCase{Mode: "enc", Flags: rng.Intn(65536), Seq: int(int32(rng.Uint32())), Proto: []int{0, 3, 4, 16, 17}[rng.Intn(5)]}
	if rng.Intn(8) == 0 {
		c.Flags = []int{0, 1, 2, 8, 16, 0xffff, 0x8000}[rng.Intn(7)]
	}
	ni := []int{0, 0, 1, 2, 5}[rng.Intn(5)]
	for i := 0; i < ni; i++ {
		c.Int = append(c.Int, IntKV{K: []int{0, 1, 2, 26, 27, 255, 256, 65535}[rng.Intn(8)] + i*300, V: randStr(rng, &ctr, false)})
	}
	if ni == 0 && rng.Intn(2) == 0 {
		c.Int = []IntKV{}
	}
	ns := []int{0, 0, 1, 2, 5}[rng.Intn(5)]
	for i := 0; i < ns; i++ {
		k := randStr(rng, &ctr, false)
		if k.Lit == nil {
			k.Len = 1 + i + rng.Intn(3)*7
		} else {
			k.Lit = append(k.Lit, i)
		}
		c.Str = append(c.Str, StrKV{K: k, V: randStr(rng, &ctr, false)})
	}
	if rng.Intn(4) == 0 {
		a := randStr(rng, &ctr, false)
		c.ACL = &a
	}
	if big && rng.Intn(2) == 0 {
		v := StrSpec{Len: []int{4096, 20000, 65535, 30000}[rng.Intn(4)], Seed: 200 + rng.Intn(40)}
		c.Int = append(c.Int, IntKV{K: 9999, V: v})
	}
	c.Payload = []int{0, 0, 1, 5, 100, 4096, 10000}[rng.Intn(7)]
	return c
}

// tthUtilCases: the exported byte helpers on their own (value lengths across 0..70000, numbers across the ranges)
func tthUtilCases(c *Ctx) []json.RawMessage {
	var out []json.RawMessage
	nums := []int{0, 1, 127, 128, 255, 256, 32767, 32768, 65535, 65536, 2147483647, -1, -2147483648, 16909060}
	for i, n := range []int{0, 1, 2, 3, 100, 255, 256, 257, 4095, 4096, 4097, 65534, 65535, 65536, 70000} {
		s := StrSpec{Len: n, Seed: 30 + i}
		out = append(out, mustJSON(TTHCase{Mode: "util", ACL: &s, Seq: nums[i%len(nums)]}))
	}
	for _, x := range nums {
		s := StrSpec{Lit: []int{'a', 0, 255}}
		out = append(out, mustJSON(TTHCase{Mode: "util", ACL: &s, Seq: x}))
	}
	return out
}

// dictKeys: a dictionary made of the package's own string constants and their fragments (split at '_' and '-', prefixes
// and suffixes at those points): keys an implementation may special-case.
func dictKeys() []string {
	consts := []string{ttheader.GDPRToken, ttheader.HeaderIDLServiceName, ttheader.HeaderTransRemoteAddr, ttheader.HeaderTransToCluster,
		ttheader.HeaderTransToIDC, ttheader.HeaderTransPerfTConnStart, ttheader.HeaderTransPerfTConnEnd, ttheader.HeaderTransPerfTSendStart,
		ttheader.HeaderTransPerfTRecvStart, ttheader.HeaderTransPerfTRecvEnd, ttheader.HeaderConnectionReadyToReset, ttheader.HeaderProcessAtTime}
	seen := map[string]bool{}
	var out []string
	add := func(k string) {
		if !seen[k] {
			seen[k] = true
			out = append(out, k)
		}
	}
	for _, k := range consts {
		add(k)
		add(strings.ToLower(k))
		add(strings.ToUpper(k))
		for i := 0; i < len(k); i++ {
			if k[i] == '_' || k[i] == '-' {
				add(k[:i])
				add(k[:i+1])
				add(k[i+1:])
				add(k[i:])
			}
		}
		for _, part := range strings.FieldsFunc(k, func(r rune) bool { return r == '_' || r == '-' }) {
			add(part)
		}
		add(k + "x")
		add("x" + k)
	}
	return out
}

func tthEncCases(c *Ctx) []json.RawMessage {
	var out []json.RawMessage
	add := func(t TTHCase) { out = append(out, mustJSON(t)) }
	rng := rand.New(rand.NewSource(c.Seed*32452843 + 6))
	add(TTHCase{Mode: "enc"})
	add(TTHCase{Mode: "enc", Int: []IntKV{}, Str: []StrKV{}})
	// every dictionary key alone, next to an ordinary key, and next to the ACL token
	litS := func(t string) StrSpec {
		sp := StrSpec{Lit: []int{}}
		for _, b := range []byte(t) {
			sp.Lit = append(sp.Lit, int(b))
		}
		return sp
	}
	for i, k := range dictKeys() {
		if k == ttheader.GDPRToken {
			continue
		}
		add(TTHCase{Mode: "enc", Seq: i, Str: []StrKV{{K: litS(k), V: litS("v")}}})
		add(TTHCase{Mode: "enc", Seq: i, Str: []StrKV{{K: litS("a"), V: litS("1")}, {K: litS(k), V: StrSpec{Len: 3, Seed: 5}}}, Int: []IntKV{{K: 1, V: litS("i")}}})
		tok := litS("token")
		add(TTHCase{Mode: "enc", Seq: i, ACL: &tok, Str: []StrKV{{K: litS(k), V: litS("w")}}})
	}
	// near-doubles of the dictionary keys (NUL / space / 0xff before or after, a doubled first byte): keys of their own,
	// alone and side by side with the key they resemble
	for i, k := range dictKeys() {
		if len(k) > 12 && i%3 != 0 {
			continue
		}
		for j, nk := range []string{"\x00" + k, "\x00\x00" + k, k + "\x00", " " + k, k + " ", "\xff" + k, k[:1] + k} {
			add(TTHCase{Mode: "enc", Seq: i, Str: []StrKV{{K: litS(nk), V: litS("v")}}})
			if j < 3 {
				add(TTHCase{Mode: "enc", Seq: i, Str: []StrKV{{K: litS(k), V: litS("real")}, {K: litS(nk), V: litS("near")}}})
			}
		}
	}
	// every padding residue: one int value of length 0..7, with/without ACL / str entries
	for n := 0; n < 8; n++ {
		add(TTHCase{Mode: "enc", Seq: n, Int: []IntKV{{K: 1, V: StrSpec{Len: n, Seed: 3}}}})
		add(TTHCase{Mode: "enc", Seq: n, Str: []StrKV{{K: StrSpec{Lit: []int{'k'}}, V: StrSpec{Len: n, Seed: 4}}}})
		a := StrSpec{Len: n, Seed: 5}
		add(TTHCase{Mode: "enc", Seq: n, ACL: &a, Proto: 4})
		add(TTHCase{Mode: "enc", Seq: n, ACL: &a, Str: []StrKV{{K: StrSpec{Lit: []int{'x', 'y'}}, V: StrSpec{Len: 1, Seed: 4}}}, Int: []IntKV{{K: 7, V: StrSpec{Len: n, Seed: 9}}}})
	}
	// header-info sizes up to and just past the 65536 limit, stepping by 1:  2 + 3 + (4 + L) (+ padding)
	for L := 65515; L <= 65535; L++ {
		add(TTHCase{Mode: "enc", Int: []IntKV{{K: 1, V: StrSpec{Len: L, Seed: 21}}}})
	}
	for extra := 0; extra <= 12; extra++ { // two values: 2 + 3 + (4+65000) + (4+L2)
		add(TTHCase{Mode: "enc", Int: []IntKV{{K: 1, V: StrSpec{Len: 65000, Seed: 21}}, {K: 2, V: StrSpec{Len: 515 + extra, Seed: 22}}}})
	}
	add(TTHCase{Mode: "enc", Str: []StrKV{{K: StrSpec{Len: 65535, Seed: 30}, V: StrSpec{Len: 0}}}})
	add(TTHCase{Mode: "enc", Int: []IntKV{{K: 1, V: StrSpec{Len: 65536, Seed: 31}}}}) // length does not fit 16 bits: must fail
	add(TTHCase{Mode: "enc", Int: []IntKV{{K: 1, V: StrSpec{Len: 70000, Seed: 32}}}})
	// far past the limit: word counts that wrap around 16 bits (4x, 8x, 16x the limit) must still be refused
	for _, k := range []int{2, 3, 4, 5, 6, 9, 13, 18} {
		var kv []IntKV
		for i := 0; i < k; i++ {
			kv = append(kv, IntKV{K: 256 + i, V: StrSpec{Len: 60000, Seed: 100 + i}})
		}
		add(TTHCase{Mode: "enc", Int: kv})
		var sk []StrKV
		for i := 0; i < k; i++ {
			sk = append(sk, StrKV{K: StrSpec{Lit: []int{'k', 48 + i}}, V: StrSpec{Len: 65535 - i, Seed: 120 + i}})
		}
		add(TTHCase{Mode: "enc", Str: sk, Seq: k})
	}
	// every int key the package knows (0 .. 40) x the values its constants use ("", "0" .. "5", ...): one entry each
	for k := 0; k <= 40; k++ {
		for _, v := range []string{"", "0", "1", "2", "3", "4", "5", "9", "00", "01", "10", "a", "\x00", "true"} {
			add(TTHCase{Mode: "enc", Seq: k, Int: []IntKV{{K: k, V: litS(v)}}})
		}
		add(TTHCase{Mode: "enc", Seq: k, Int: []IntKV{{K: k, V: litS("0")}, {K: (k + 1) % 41, V: litS("1")}}, Str: []StrKV{{K: litS("k"), V: litS("0")}}})
	}
	// entries at their minimum encoded size (an empty key is legal; empty values; one-byte keys): whatever a decoder
	// assumes about the least number of bytes per pair, these maps sit exactly on it; with and without other sections
	for _, n := range c.PickInts([]int{1, 2, 3, 4, 5, 7, 8, 12, 16, 32, 64}, []int{1, 2, 3, 4, 5, 6, 7, 8, 9, 12, 16, 20, 32, 64, 128, 200, 256}) {
		for _, emptyKey := range []bool{true, false} {
			var sk []StrKV
			for i := 0; i < n; i++ {
				k := StrSpec{Lit: []int{1 + i%255}}
				if i == 0 && emptyKey {
					k = StrSpec{Lit: []int{}}
				}
				sk = append(sk, StrKV{K: k, V: StrSpec{Lit: []int{}}})
			}
			add(TTHCase{Mode: "enc", Seq: n, Str: sk})
			add(TTHCase{Mode: "enc", Seq: n, Str: sk, Int: []IntKV{{K: 1, V: StrSpec{Lit: []int{}}}}})
			tok := StrSpec{Lit: []int{}}
			add(TTHCase{Mode: "enc", Seq: n, Str: sk, ACL: &tok})
		}
		var ik []IntKV
		for i := 0; i < n; i++ {
			ik = append(ik, IntKV{K: i, V: StrSpec{Lit: []int{}}})
		}
		add(TTHCase{Mode: "enc", Seq: n, Int: ik})
	}
	// many entries per section (tables, inline arrays and batch paths of a decoder have sizes: walk across them)
	for _, n := range []int{17, 65, 129, 130} {
		var sk []StrKV
		var ik []IntKV
		for i := 0; i < n; i++ {
			sk = append(sk, StrKV{K: StrSpec{Lit: []int{'k', 'a' + i%26, 'a' + (i/26)%26, 'a' + i/676}}, V: StrSpec{Lit: []int{'v', 48 + i%10}}})
			ik = append(ik, IntKV{K: 300 + i, V: StrSpec{Lit: []int{'w', 48 + i%10}}})
		}
		add(TTHCase{Mode: "enc", Seq: n, Str: sk})
		add(TTHCase{Mode: "enc", Seq: n, Int: ik})
		if n <= 130 {
			tok := litS("tk")
			add(TTHCase{Mode: "enc", Seq: n, Str: sk, Int: ik, ACL: &tok})
		}
	}
	for _, p := range []int{0, 2, 3, 4, 16, 17, 1, 5, 255} { // unsupported protocol ids: encoder accepts, decoder must reject
		add(TTHCase{Mode: "enc", Proto: p, Seq: 77})
	}
	fstep := c.Pick(97, 1)
	for fl := 0; fl <= 65535; fl += fstep {
		add(TTHCase{Mode: "enc", Flags: fl, Seq: fl, Payload: fl % 3})
	}
	for i := 0; i < c.Pick(800, 20000); i++ {
		add(randTTH(rng, i%10 == 0))
	}
	return out
}

func tthHostileCases(c *Ctx) []json.RawMessage {
	var out []json.RawMessage
	add := func(t TTHCase) { t.Mode = "dec"; out = append(out, mustJSON(t)) }
	rng := rand.New(rand.NewSource(c.Seed*49979687 + 10))
	// all values of the header-size field x {body present, one byte short, absent}
	fstep := c.Pick(13, 1)
	for f := 0; f <= 65535; f += fstep {
		add(TTHCase{F: f, BLen: 4 * f, Total: 4*f + 10})
		if f > 0 {
			add(TTHCase{F: f, BLen: 4*f - 1, Total: 100})
			add(TTHCase{F: f, BLen: 0, Total: 100})
		}
	}
	for _, f := range []int{0, 1, 2, 16383, 16384, 16385, 0x4000, 0x4001, 0x7fff, 0x8000, 0xffff} {
		add(TTHCase{F: f, BLen: 4 * f, Total: 4 * f})
		add(TTHCase{F: f, BLen: 4 * (f % 16384), Total: 9})
	}
	// all flags, all protocol ids, all info ids at the first section position, transform counts
	flstep := c.Pick(31, 1)
	for fl := 0; fl <= 65535; fl += flstep {
		add(TTHCase{F: 1, BLen: 4, Flags: fl, Total: 14})
	}
	for id := 0; id < 256; id++ {
		add(TTHCase{F: 1, BLen: 4, Body: fmt.Sprintf("%02x00", id), Total: 14})
		add(TTHCase{F: 2, BLen: 8, Body: fmt.Sprintf("0000%02x0000000000", id), Total: 14})
		add(TTHCase{F: 2, BLen: 8, Body: fmt.Sprintf("0000%02x000100", id), Total: 14})
		for _, words := range []int{1, 2, 64} {
			add(TTHCase{F: words, BLen: 4 * words, Body: fmt.Sprintf("00%02x", id), Total: 14})
		}
	}
	for _, m := range []int{0x1000, 0x1001, 0x0000, 0x1100, 0x2000, 0xffaf, 0x8001} {
		add(TTHCase{F: 1, BLen: 4, Magic: m + 1<<20, Total: 14}) // (+1<<20 so that magic 0 is expressible; masked to 16 bits)
	}
	// section orders, repeated sections (later entries win), interleaved padding, count 0
	sec := map[string]string{
		"s1": "01" + "0001" + "0001" + "61" + "0001" + "41",   // str {a:A}
		"s2": "01" + "0001" + "0001" + "61" + "0002" + "4242", // str {a:BB}
		"s0": "01" + "0000",
		"i1": "10" + "0001" + "0007" + "0001" + "31",
		"i2": "10" + "0002" + "0007" + "0000" + "0008" + "0001" + "38",
		"i0": "10" + "0000",
		"a1": "11" + "0002" + "7478",
		"a0": "11" + "0000",
		// a str section that carries the key the ACL token is stored under: sections apply in header order, the later one wins
		"sg": "01" + "0001" + "0016" + hex.EncodeToString([]byte(gdprKey)) + "0001" + "47",
		"sG": "01" + "0002" + "0001" + "62" + "0001" + "42" + "0016" + hex.EncodeToString([]byte(gdprKey)) + "0000",
		"p":  "00",
		"pp": "0000",
	}
	names := []string{"s1", "s2", "s0", "i1", "i2", "i0", "a1", "a0", "p", "pp", "sg", "sG", "a1", "sg"}
	for i := 0; i < c.Pick(600, 8000); i++ {
		body := "0000"
		n := 1 + rng.Intn(5)
		for j := 0; j < n; j++ {
			body += sec[names[rng.Intn(len(names))]]
		}
		bl := len(body) / 2
		pad := (4 - bl%4) % 4
		add(TTHCase{F: (bl + pad) / 4, BLen: bl + pad, Body: body, Total: 50})
		if rng.Intn(3) == 0 { // the same sections but the size field cuts into them
			add(TTHCase{F: (bl+pad)/4 - 1, BLen: bl + pad, Body: body, Total: 50})
		}
	}
	// padding runs of every length 0..40 in front of, between and behind sections (a decoder may skip padding in words)
	for k := 0; k <= 40; k++ {
		pad := strings.Repeat("00", k)
		for _, body := range []string{"0000" + pad + sec["s1"], "0000" + pad + sec["i1"], "0000" + pad + sec["a1"] + sec["i2"], "0000" + sec["i1"] + pad + sec["s2"], "0000" + sec["a1"] + pad + sec["i1"] + pad, "0000" + sec["s1"] + pad + "11" + "0010" + "10000100030001" + "41646d696e526573657421"} {
			bl := len(body) / 2
			p4 := (4 - bl%4) % 4
			add(TTHCase{F: (bl + p4) / 4, BLen: bl + p4, Body: body, Total: bl + p4 + 30})
		}
	}
	// keys that differ from a well-known key only by bytes a fast comparison may drop (NUL / space / 0xff before or
	// after): keys of their own, alone and side by side with the key they resemble
	for i, k := range dictKeys() {
		if len(k) > 12 && i%3 != 0 {
			continue
		}
		pair := func(a, b string) string {
			return fmt.Sprintf("%04x", len(a)) + hex.EncodeToString([]byte(a)) + fmt.Sprintf("%04x", len(b)) + hex.EncodeToString([]byte(b))
		}
		for _, nk := range []string{"\x00" + k, "\x00\x00" + k, k + "\x00", " " + k, "\xff" + k} {
			for _, body := range []string{"0000" + "01" + "0001" + pair(nk, "near"), "0000" + "01" + "0002" + pair(k, "real") + pair(nk, "near"), "0000" + "01" + "0002" + pair(nk, "near") + pair(k, "real")} {
				bl := len(body) / 2
				pad := (4 - bl%4) % 4
				add(TTHCase{F: (bl + pad) / 4, BLen: bl + pad, Body: body, Total: bl + pad + 20})
			}
		}
	}
	// sections with many well-formed entries (honest count, count one too many, count one too few), str and int
	for _, n := range c.PickInts([]int{17, 33, 64, 65, 100, 128, 129, 130}, []int{16, 17, 32, 33, 64, 65, 66, 100, 127, 128, 129, 130, 256, 257, 300}) {
		for _, kind := range []string{"01", "10"} {
			for _, dc := range []int{0, 1, -1} {
				body := "0000" + kind + fmt.Sprintf("%04x", n+dc)
				for i := 0; i < n; i++ {
					if kind == "01" {
						body += "0003" + fmt.Sprintf("%02x%02x%02x", 'a'+i%26, 'a'+(i/26)%26, 'a'+i/676) + "0001" + fmt.Sprintf("%02x", 48+i%10)
					} else {
						body += fmt.Sprintf("%04x", 100+i) + "0001" + fmt.Sprintf("%02x", 48+i%10)
					}
				}
				bl := len(body) / 2
				pad := (4 - bl%4) % 4
				add(TTHCase{F: (bl + pad) / 4, BLen: bl + pad, Body: body, Total: bl + pad + 20})
			}
		}
	}
	for _, x := range []string{"a1", "a0", "sg", "sG", "s1"} {
		for _, y := range []string{"a1", "a0", "sg", "sG", "s1"} {
			for _, z := range []string{"", "a1", "sg", "i1"} {
				body := "0000" + sec[x] + sec[y]
				if z != "" {
					body += sec[z]
				}
				bl := len(body) / 2
				pad := (4 - bl%4) % 4
				add(TTHCase{F: (bl + pad) / 4, BLen: bl + pad, Body: body, Total: 50})
			}
		}
	}
	// history: a frame whose str key K1 was decoded just before one whose key K2 has the same length and the same
	// checksum under a common cheap hash (FNV-1a/FNV-1 32, CRC-32, Adler-32) - what a cache keyed by hash would confuse
	for _, pr := range collidingKeyPairs() {
		mkf := func(k string) []byte {
			fb, _ := ttheader.EncodeToBytes(context.Background(), ttheader.EncodeParam{SeqID: 5, StrInfo: map[string]string{k: "v-" + k[len(k)-3:]}})
			return fb
		}
		f1, f2 := mkf(pr[0]), mkf(pr[1])
		add(TTHCase{Hex: hexOf(&SegBuf{b: f2}), Prior: hexOf(&SegBuf{b: f1})})
		add(TTHCase{Hex: hexOf(&SegBuf{b: f1}), Prior: hexOf(&SegBuf{b: f2})})
	}
	// inner string lengths that overrun the header by 1, 2, 3 bytes (the header ends the input exactly:
	// nothing behind it but the end of the slice / a guard page), for the last string of every section kind
	type lenAt struct{ off int }
	build := func(parts [][]byte) (body []byte, lens []int) {
		body = []byte{0, 0}
		for _, p := range parts {
			body = append(body, p...)
		}
		return
	}
	str2 := func(b []byte) []byte { return append([]byte{byte(len(b) >> 8), byte(len(b))}, b...) }
	for n := 0; n < 9; n++ {
		val := PatBytes(7, 0, n)
		key := []byte("ky")
		var bodies [][]byte
		var lastLenOff []int
		b1, _ := build([][]byte{{0x11}, str2(val)})
		bodies, lastLenOff = append(bodies, b1), append(lastLenOff, 3)
		b2, _ := build([][]byte{{0x01, 0, 1}, str2(key), str2(val)})
		bodies, lastLenOff = append(bodies, b2), append(lastLenOff, 2+3+2+len(key))
		b3, _ := build([][]byte{{0x10, 0, 1}, {0, 9}, str2(val)})
		bodies, lastLenOff = append(bodies, b3), append(lastLenOff, 2+3+2)
		b4, _ := build([][]byte{{0x01, 0, 1}, str2(val), str2(nil)}) // key is the overrunning string; empty value
		bodies, lastLenOff = append(bodies, b4), append(lastLenOff, 2+3)
		for bi, body := range bodies {
			if len(body)%4 != 0 {
				continue // only bodies that end exactly at a word boundary: no padding behind the string
			}
			for _, d := range []int{1, 2, 3, 4} {
				m := append([]byte(nil), body...)
				o := lastLenOff[bi]
				l := int(m[o])<<8 | int(m[o+1])
				if bi == 3 {
					continue
				}
				l += d
				m[o], m[o+1] = byte(l>>8), byte(l)
				add(TTHCase{F: len(m) / 4, BLen: len(m), Body: hexOf(&SegBuf{b: m}), Total: 14 + len(m) - 4})
				// and with a payload behind the header (bytes that must not leak into the maps)
				fr := make([]byte, 14+len(m)+8)
				binary.BigEndian.PutUint32(fr, uint32(len(fr)-4))
				binary.BigEndian.PutUint16(fr[4:], 0x1000)
				binary.BigEndian.PutUint16(fr[12:], uint16(len(m)/4))
				copy(fr[14:], m)
				copy(fr[14+len(m):], "PAYLOAD!")
				add(TTHCase{Hex: hexOf(&SegBuf{b: fr})})
			}
		}
	}
	// truncation / perturbation of valid frames
	for i := 0; i < c.Pick(60, 1500); i++ {
		base := randTTH(rng, false)
		base.Payload = 0
		var fr []byte
		func() {
			defer func() { recover() }()
			tw := newNullTrace()
			_ = tw
			p := ttheader.EncodeParam{Flags: ttheader.HeaderFlags(base.Flags), SeqID: int32(base.Seq), ProtocolID: ttheader.ProtocolID(base.Proto)}
			p.IntInfo = map[uint16]string{}
			for _, kv := range base.Int {
				p.IntInfo[uint16(kv.K)] = string(kv.V.Bytes())
			}
			p.StrInfo = map[string]string{}
			for _, kv := range base.Str {
				p.StrInfo[string(kv.K.Bytes())] = string(kv.V.Bytes())
			}
			fr, _ = ttheader.EncodeToBytes(context.Background(), p)
		}()
		if fr == nil {
			continue
		}
		for k := 0; k < len(fr); k++ {
			if len(fr) > 60 && k%7 != 0 && k > 16 {
				continue
			}
			t := TTHCase{Hex: hexOf(&SegBuf{b: fr[:k]})}
			add(t)
		}
		for j := 0; j < 20; j++ {
			m := append([]byte(nil), fr...)
			pos := rng.Intn(len(m))
			if rng.Intn(2) == 0 && len(m) > 16 {
				pos = 12 + rng.Intn(6)
			}
			m[pos] = []byte{0, 1, 0x7f, 0x80, 0xff, 0x10, 0x11}[rng.Intn(7)]
			add(TTHCase{Hex: hexOf(&SegBuf{b: m})})
		}
	}
	return out
}

func checkC06(c *Ctx) {
	c.rule = "MC: every admissible frame of a bounded parameter domain (entry orders, ACL token, every padding residue) parses back to its parameters and has the computed info size; all 65536 flags. TRACE: parameter sets (all flags (quick: stride 97), every padding residue, info sizes 65515..65540 stepping by 1 around the 65536 limit, 64KiB-scale values, unsupported protocol ids, random maps with arbitrary bytes and the ACL key) through EncodeToBytes and Encode over a stream-backed writer (tth_enc: error iff InfoSize > 65536, layout, size field, written = header length, Parse(frame) = param) and then DecodeFromBytes / Decode over bytes- and stream-backed readers under every fragmentation with a pattern payload behind the header (tth_dec: params, HeaderLen, PayloadLen arithmetic, ReadLen, IsTTHeader/IsStreaming). BIG COLLECTIONS (Go monitor; the expectation is computed in Go from the data that was encoded, because TLC's map comparison is quadratic): header sections of 255..9000 entries (int, str, both + ACL token), both decoders. Near-double dictionary keys (a NUL / space / 0xff before or after a well-known key), alone and next to the key they resemble; entries at their minimum encoded size (empty key, one-byte keys, empty values) in 1..256 entries; GIANT VALUES (Go monitor): keys / values / tokens of 64 KiB .. 8 GiB over a discarding writer must be refused. Every int meta key 0..40 x the constant values of the package."
	c.MC("MC_TTHeader.tla", "MC_TTHeader.cfg", 4)
	c.TraceCheck(famTTHC06, append(tthEncCases(c), tthUtilCases(c)...))
	bigHeaderMonitor(c, "big-C06")
	// streams of 1..5 framed messages (header + message envelope + Base/BaseResp) read back from a fragmenting
	// reader: every payload must be delimited exactly by total + 4 - header length
	c.TraceCheck(famFraming, framingCases(c))
	c.Assume("nil and empty decoded maps are identified (the encoder writes no section for an empty map)")
}

func checkC10(c *Ctx) {
	c.rule = "MC: all 65536 header-size fields x {body present, one byte short, absent}; all 65536 flags; all 256 protocol ids and info ids; transform counts 0..255 x sizes; all 65536 magic words (MC_TTHeader). TRACE: the same families replayed on the real decoders (quick: size field stride 13, flags stride 31) plus random section orders, repeated sections, interleaved padding, count 0, size fields cutting into sections, every truncation point and perturbed structural bytes of valid frames; DecodeFromBytes, Decode over a bytes reader and Decode over fragmenting stream readers must succeed exactly when Parse does, with the same maps, HeaderLen = 14 + declared, PayloadLen - total = 4 - HeaderLen, ReadLen <= min(14 + declared, len); streams of several framed messages read back to back from one reader, with and without Release in between. BIG COLLECTIONS (Go monitor; the expectation is computed in Go from the data that was encoded, because TLC's map comparison is quadratic): well-formed header sections of 255..9000 entries, both decoders. Also hand-built sections repeating one key (4 bytes per pair, up to 16380 pairs): the maps hold the last value. Near-double dictionary keys in hand-built sections. Padding runs of every length 0..40 in front of, between and behind sections."
	c.MC("MC_TTHeader.tla", "MC_TTHeader.cfg", 4)
	c.TraceCheck(famTTHC10, tthHostileCases(c))
	bigHeaderMonitor(c, "big-C10")
	// frames read back to back from one reader, with and without Release between them: the framing arithmetic of every
	// frame is about that frame alone
	c.TraceCheck(famFraming, framingCases(c))
}

func init() {
	checks["C06"] = checkC06
	checks["C10"] = checkC10
}

// ---- a stream of framed messages (TTHeader o message envelope o struct) --------------------------------

type FramingCase struct {
	Seed   int64 `json:"seed"`
	N      int   `json:"n"`
	Chunks []int `json:"chunks"`
	Wd     bool  `json:"wd"`
	// NoRelease: the frames are read back to back without Release in between (Release is only needed when the caller is
	// done with the slices): HeaderLen / PayloadLen are about THIS frame, whatever the reader has handed out before
	NoRelease bool `json:"norelease,omitempty"`
}

func runFramingCase(raw json.RawMessage, w *TraceWriter) {
	var c FramingCase
	if err := json.Unmarshal(raw, &c); err != nil {
		panic(err)
	}
	rng := rand.New(rand.NewSource(c.Seed))
	ctx := context.Background()
	var stream []byte
	var structs []StructCase
	seedSet := map[int]bool{249: true}
	for i := 0; i < c.N; i++ {
		t := randTTH(rng, false)
		p := ttheader.EncodeParam{Flags: ttheader.HeaderFlags(t.Flags), SeqID: int32(t.Seq), ProtocolID: ttheader.ProtocolID(t.Proto)}
		if len(t.Int) > 0 {
			p.IntInfo = map[uint16]string{}
			for _, kv := range t.Int {
				p.IntInfo[uint16(kv.K)] = string(kv.V.Bytes())
			}
		}
		if len(t.Str) > 0 {
			p.StrInfo = map[string]string{}
			for _, kv := range t.Str {
				p.StrInfo[string(kv.K.Bytes())] = string(kv.V.Bytes())
			}
		}
		for _, sd := range t.seeds() {
			seedSet[sd] = true
		}
		hdr, err := ttheader.EncodeToBytes(ctx, p)
		if err != nil {
			continue
		}
		sc := randStruct(rng, []string{"Base", "BaseResp"}[i%2], i%3 == 0)
		ctr := rng.Intn(100)
		sc.Method = randStr(rng, &ctr, false)
		if len(sc.Method.Bytes()) == 0 {
			sc.Method = StrSpec{Lit: []int{'m'}}
		}
		sc.Seq = int(int32(rng.Uint32()))
		for _, sd := range sc.seeds() {
			seedSet[sd] = true
		}
		payload, err := thrift.MarshalFastMsg(string(sc.Method.Bytes()), thrift.CALL, int32(sc.Seq), sc.build())
		if err != nil {
			continue
		}
		binary.BigEndian.PutUint32(hdr, uint32(len(hdr)+len(payload)-4))
		stream = append(stream, hdr...)
		stream = append(stream, payload...)
		structs = append(structs, sc)
	}
	var seeds []int
	for s := range seedSet {
		seeds = append(seeds, s)
	}
	sort.Ints(seeds)
	// read the frames back from a fragmenting stream: Decode, then exactly PayloadLen bytes, then Release
	rd := bufiox.NewDefaultReader(&dataSource{data: stream, chunks: c.Chunks, wd: c.Wd})
	var frames []string
	for i := range structs {
		fr := `{"ok":false,"hlen":0,"plen":0,"seq":0,"method":[],"schema":"Base","val":{}}`
		func() {
			defer func() { recover() }()
			dp, err := ttheader.Decode(ctx, rd)
			if err != nil {
				return
			}
			pay, err := rd.Next(dp.PayloadLen)
			if err != nil {
				return
			}
			dst := fresh(structs[i].Schema)
			m, seq, err := thrift.UnmarshalFastMsg(pay, dst)
			if err != nil {
				return
			}
			fr = fmt.Sprintf(`{"ok":true,"hlen":%d,"plen":%d,"seq":%d,"method":%s,"schema":%q,"val":%s}`, tlcInt(dp.HeaderLen), tlcInt(dp.PayloadLen), seq,
				projectBytes([]byte(m), seeds), structs[i].Schema, readValJSON(dst, seeds))
			if !c.NoRelease {
				rd.Release(nil)
			}
		}()
		frames = append(frames, fr)
	}
	w.Ev("tth_stream", "in", projectBytes(stream, seeds), "frames", Raw("["+strings.Join(frames, ",")+"]"))
}

var famFraming = Register(&Family{Name: "tth-stream", Spec: "Trace_TTHeader", Cfg: "Trace_TTHeader.cfg", Run: runFramingCase,
	Sig: func(raw json.RawMessage, line string) string { return "tth/stream" }, Env: []string{"VPROP=C06"}})

func framingCases(c *Ctx) []json.RawMessage {
	var out []json.RawMessage
	rng := rand.New(rand.NewSource(c.Seed*86028121 + 66))
	for i := 0; i < c.Pick(300, 6000); i++ {
		fc := FramingCase{Seed: rng.Int63(), N: 1 + rng.Intn(5), Wd: rng.Intn(2) == 0, NoRelease: i%2 == 1}
		switch rng.Intn(4) {
		case 0:
			fc.Chunks = []int{-1}
		case 1:
			fc.Chunks = []int{1 + rng.Intn(40)}
		case 2:
			fc.Chunks = []int{4096, 0, 1 + rng.Intn(300)}
		default:
			fc.Chunks = []int{1 + rng.Intn(9000)}
		}
		out = append(out, mustJSON(fc))
	}
	return out
}

// runTTHUtil: the exported byte helpers of protocol/ttheader/utils.go (WriteString, WriteString2BLen, WriteByte /
// WriteUint16 / WriteUint32, ReadString2BLen, Bytes2Uint8 / Bytes2Uint16) on their own.
func runTTHUtil(c *TTHCase, w *TraceWriter, seeds []int) {
	val := []byte{}
	if c.ACL != nil {
		val = c.ACL.Bytes()
	}
	wr := func(fn string, f func(out bufiox.Writer) (int, error)) {
		sink := &recSink{}
		bw := bufiox.NewDefaultWriter(sink)
		n, err := f(bw)
		if err == nil {
			err = bw.Flush()
		}
		var all []byte
		for _, p := range sink.payloads {
			all = append(all, p...)
		}
		w.Ev("tth_util", "fn", fn, "val", projectBytes(val, seeds), "num", c.Seq, "off", 0, "out", projectBytes(all, seeds), "ret", n, "ok", err == nil)
		// and over a writer that has room for all but the last byte
		if len(all) > 0 {
			bwr := &budgetWriter{budget: len(all) - 1, fail: errBudget}
			_, err2 := f(bwr)
			w.Ev("tth_util", "fn", fn+"-short", "val", projectBytes(val, seeds), "num", c.Seq, "off", 0, "out", Raw("[]"), "ret", 0, "ok", err2 == nil)
		}
	}
	if len(val) < 65536 {
		wr("ws2", func(o bufiox.Writer) (int, error) { return ttheader.WriteString2BLen(string(val), o) })
	}
	wr("ws4", func(o bufiox.Writer) (int, error) { return ttheader.WriteString(string(val), o) })
	wr("wb", func(o bufiox.Writer) (int, error) { return 1, ttheader.WriteByte(byte(c.Seq), o) })
	wr("w16", func(o bufiox.Writer) (int, error) { return 2, ttheader.WriteUint16(uint16(c.Seq), o) })
	wr("w32", func(o bufiox.Writer) (int, error) { return 4, ttheader.WriteUint32(uint32(c.Seq), o) })
	// readers at every offset of (prefix ++ 2-byte length ++ val ++ suffix), with honest, short and long inputs
	if len(val) < 65536 {
		full := append([]byte{0xEE, 0xEF}, byte(len(val)>>8), byte(len(val)))
		full = append(full, val...)
		full = append(full, 0x11, 0x22, 0x33)
		for _, in := range [][]byte{full, full[:len(full)-3], full[:len(full)-4], full[:3], full[:2], {}} {
			for _, off := range []int{0, 1, 2, 3, len(in) - 2, len(in) - 1, len(in)} {
				if off < 0 || off > len(in) {
					continue
				}
				var str string
				var n int
				var err error
				var u8 uint8
				var u16 uint16
				var e8, e16 error
				panicked := false
				func() {
					defer func() {
						if p := recover(); p != nil {
							panicked = true
						}
					}()
					str, n, err = ttheader.ReadString2BLen(in, off)
					u8, e8 = ttheader.Bytes2Uint8(in, off)
					u16, e16 = ttheader.Bytes2Uint16(in, off)
				}()
				w.Ev("tth_rutil", "in", projectBytes(in, seeds), "off", off, "panic", panicked, "sok", err == nil, "s", projectBytes([]byte(str), seeds), "n", n,
					"u8ok", e8 == nil, "u8", int(u8), "u16ok", e16 == nil, "u16", int(u16))
			}
		}
	}
}

// collidingKeyPairs: pairs of distinct equal-length keys with equal checksums under common cheap hashes (birthday search).
var collidingPairsMemo [][2]string

func collidingKeyPairs() [][2]string {
	if collidingPairsMemo != nil {
		return collidingPairsMemo
	}
	hashes := []func([]byte) uint32{
		func(b []byte) uint32 { h := fnv.New32a(); h.Write(b); return h.Sum32() },
		func(b []byte) uint32 { h := fnv.New32(); h.Write(b); return h.Sum32() },
		crc32.ChecksumIEEE,
		adler32.Checksum,
	}
	var out [][2]string
	for hi, hf := range hashes {
		for _, prefix := range []string{"rpc-transit-", "k"} {
			seen := map[uint32]string{}
			found := 0
			for i := 0; i < 600000 && found < 2; i++ {
				k := fmt.Sprintf("%s%08x", prefix, uint32(i)*2654435761+uint32(hi))
				h := hf([]byte(k))
				if o, ok := seen[h]; ok && o != k {
					out = append(out, [2]string{o, k})
					found++
					continue
				}
				seen[h] = k
			}
		}
	}
	collidingPairsMemo = out
	return out
}
