package main

import (
	"context"
	"math/rand"

	"github.com/cloudwego/gopkg/protocol/thrift"
	"github.com/cloudwego/gopkg/protocol/thrift/base"
	"github.com/cloudwego/gopkg/protocol/ttheader"
)

// hostile32: the values substituted into every 4-byte window of valid encodings (size/count/length fields wherever
// they are): the neighbourhood of MaxInt32 (4 + size wraps in 32 bits), the sign boundary, small negatives, and
// sizes just above / far above what is left.
var hostile32 = []uint32{0x7ffffffc, 0x7ffffffd, 0x7ffffffe, 0x7fffffff, 0x7ffffffb, 0x7ffffff0, 0x80000000, 0x80000001,
	0xffffffff, 0xfffffffc, 0xfffffffb, 0xfffffff0, 0x3fffffff, 0x40000000, 0x1fffffff, 0x20000000, 0x0fffffff, 0x10000000,
	0x00100001, 0x0000ffff, 0x00010000, 0x00000100}
var hostile16 = []uint16{0x0000, 0x0001, 0x7fff, 0x8000, 0xffff, 0xfffe, 0x0100}
var hostile8 = []byte{0, 1, 2, 0x7f, 0x80, 0xff, 11, 12, 13, 14, 15, 16}

// rawCorpus: valid encodings of everything the buffer-based entry points decode.
func rawCorpus(seed int64) [][]byte {
	bp := thrift.Binary
	var out [][]byte
	out = append(out, bp.AppendString(nil, "hello"))
	out = append(out, bp.AppendString(nil, ""))
	out = append(out, bp.AppendMessageBegin(nil, "method", 1, 7))
	out = append(out, bp.AppendMessageBegin(nil, "", 3, -1))
	out = append(out, bp.AppendFieldBegin(nil, 11, 1))
	out = append(out, bp.AppendMapBegin(nil, 11, 11, 2))
	out = append(out, bp.AppendListBegin(nil, 8, 3))
	b := base.NewBase()
	b.LogID, b.Caller, b.Addr = "log", "caller", "addr"
	b.Extra = map[string]string{"k": "v", "key2": "value2"}
	bb := make([]byte, b.BLength())
	bb = bb[:b.FastWrite(bb)]
	out = append(out, bb)
	r := base.NewBaseResp()
	r.StatusMessage, r.StatusCode = "status", 7
	r.Extra = map[string]string{"a": "b"}
	rb := make([]byte, r.BLength())
	rb = rb[:r.FastWrite(rb)]
	out = append(out, rb)
	out = append(out, append(bp.AppendMessageBegin(nil, "m", 2, 1), rb...))
	ex := thrift.NewApplicationException(6, "boom")
	eb := make([]byte, ex.BLength())
	eb = eb[:ex.FastWrite(eb)]
	out = append(out, eb)
	out = append(out, append(bp.AppendMessageBegin(nil, "m", 3, 1), eb...))
	// a struct with one field of every type, containers of strings/structs/containers (unknown fields, skippers)
	s := &SegBuf{}
	s.Struct(2, 0, 1)
	s.Lit(1)
	s.Struct(3, 0, 2)
	s.Lit(9)
	s.Struct(4, 0, 3)
	s.Lit(1, 2, 3, 4, 5, 6, 7, 8)
	s.Struct(6, 0, 4)
	s.Lit(1, 2)
	s.Struct(8, 0, 5)
	s.Lit(1, 2, 3, 4)
	s.Struct(10, 0, 6)
	s.Lit(1, 2, 3, 4, 5, 6, 7, 8)
	s.Struct(11, 0, 7)
	s.Size4(2)
	s.Lit('h', 'i')
	s.Struct(15, 0, 8)
	s.Lit(11)
	s.Size4(2)
	s.Size4(1)
	s.Lit('a')
	s.Size4(0)
	s.Struct(14, 0, 9)
	s.Lit(8)
	s.Size4(2)
	s.Lit(0, 0, 0, 1, 0, 0, 0, 2)
	s.Struct(13, 0, 10)
	s.Lit(11, 12)
	s.Size4(1)
	s.Size4(1)
	s.Lit('k')
	s.Struct(8, 0, 1)
	s.Lit(0, 0, 0, 5)
	s.Struct(0)
	s.Struct(13, 0, 11)
	s.Lit(8, 15)
	s.Size4(1)
	s.Lit(0, 0, 0, 1, 6)
	s.Size4(2)
	s.Lit(0, 1, 0, 2)
	s.Struct(12, 0, 12)
	s.Struct(11, 0, 1)
	s.Size4(1)
	s.Lit('z')
	s.Struct(0)
	s.Struct(0)
	out = append(out, append([]byte(nil), s.b...))
	// random typed values
	rng := rand.New(rand.NewSource(seed*7919 + 3))
	for i := 0; i < 6; i++ {
		vs := &SegBuf{}
		vg := &valGen{rng: rng, budget: 10}
		vg.Value(vs, 12, 3)
		if bs := vs.b; len(bs) <= 160 {
			out = append(out, append([]byte(nil), bs...))
		}
	}
	// ttheader frames: both info kinds, none, acl-free
	for _, p := range []ttheader.EncodeParam{
		{SeqID: 7, IntInfo: map[uint16]string{1: "a", 2: "bc"}, StrInfo: map[string]string{"k": "v"}},
		{SeqID: -1},
		{SeqID: 1, ProtocolID: ttheader.ProtocolIDThriftCompact, StrInfo: map[string]string{"key": "value", "": ""}},
	} {
		if fb, err := ttheader.EncodeToBytes(context.Background(), p); err == nil {
			out = append(out, append([]byte(nil), fb...))
		}
	}
	// ttheader frames whose info sections end at every distance (0..3 padding bytes) from the end of the header, with
	// one and two entries: counts that announce more than is there then run into / exactly up to the end
	for n := 0; n <= 12; n++ {
		v := string(PatBytes(40+n, 0, n))
		for _, p := range []ttheader.EncodeParam{
			{SeqID: 1, IntInfo: map[uint16]string{1: v}},
			{SeqID: 1, IntInfo: map[uint16]string{1: v, 2: "x"}},
			{SeqID: 1, StrInfo: map[string]string{"k": v}},
			{SeqID: 1, StrInfo: map[string]string{ttheader.GDPRToken: v}},
		} {
			if fb, err := ttheader.EncodeToBytes(context.Background(), p); err == nil {
				out = append(out, append([]byte(nil), fb...))
			}
		}
	}
	// values that are valid for one entry point and land at another: a map of any key / value types (valid for Skip and
	// for a sibling struct) sitting under the field id where Base / BaseResp expect their map<string,string>; a string
	// where they expect the map; a struct where ApplicationException expects its message
	mrng := rand.New(rand.NewSource(seed + 77))
	for _, kt := range []int8{2, 8, 11, 12} {
		for _, vt := range []int8{2, 11} {
			for _, cnt := range []int{1} {
				m := comboContainer(mrng, 13, kt, vt, cnt)
				body := m.b[:len(m.b)-1] // (comboContainer appends one trailing byte)
				for _, id := range []byte{6, 3} {
					out = append(out, append(append([]byte{13, 0, id}, body...), 0))
				}
			}
		}
	}
	out = append(out, []byte{11, 0, 6, 0, 0, 0, 2, 'h', 'i', 0}, []byte{12, 0, 1, 8, 0, 1, 0, 0, 0, 5, 0, 0}, []byte{13, 0, 6, 2, 2, 0, 0, 0, 1, 1, 1, 0})
	return out
}

// rawMutSweep: every 4-, 2- and 1-byte window of every corpus encoding x the hostile values, each also cut right after
// the window and one byte later, into every entry point and the skippers (Go monitor; C03Rule is the whole expectation).
func rawMutSweep(c *Ctx) {
	entries := rawEntries()
	someTypes := []int{12, 11, 13, 14, 15, 8, 2, 10, 0, 16, -1}
	var n int64
	shieldExtra = 64
	defer func() { shieldExtra = allocCap }()
	maxOff := 100000
	check := func(b []byte) bool {
		gb := guardCopy(b)
		if gb == nil {
			gb = b
		}
		for i := range entries {
			ok, k, p := callEntry(&entries[i], gb)
			n++
			if p || (ok && (k < 0 || k > len(b))) {
				c.GoViolation("raw-C03", "rawmut/"+entries[i].name, RawCase{Entry: entries[i].name, Hex: hexOf(&SegBuf{b: b})}, "panic or over-report on a mutated encoding")
				return false
			}
		}
		for _, t := range someTypes {
			rs := runSkippers(gb, int8(t), false, 0)
			n += int64(len(rs))
			for _, r := range rs {
				if r.Panic || (r.Ok && (r.N < 0 || r.N > len(b))) {
					c.GoViolation("raw-C03", "rawmut/skip/"+r.Impl, RawCase{Entry: "skip/" + r.Impl, T: t, Hex: hexOf(&SegBuf{b: b})}, "panic or over-report on a mutated encoding")
					return false
				}
			}
		}
		return true
	}
	variants := func(m []byte, end int) bool {
		if !check(m) {
			return false
		}
		if end < len(m) && !check(m[:end]) {
			return false
		}
		if end+1 < len(m) && !check(m[:end+1]) {
			return false
		}
		return true
	}
	for _, enc := range rawCorpus(c.Seed) {
		if !check(enc) { // the corpus entry as it is (valid for one entry point, arbitrary for all the others)
			return
		}
		for p := 0; p < len(enc) && p < maxOff; p++ {
			if p+4 <= len(enc) {
				for _, v := range hostile32 {
					m := append([]byte(nil), enc...)
					m[p], m[p+1], m[p+2], m[p+3] = byte(v>>24), byte(v>>16), byte(v>>8), byte(v)
					if !variants(m, p+4) {
						return
					}
				}
			}
			if p+2 <= len(enc) {
				for _, v := range hostile16 {
					m := append([]byte(nil), enc...)
					m[p], m[p+1] = byte(v>>8), byte(v)
					if !variants(m, p+2) {
						return
					}
				}
			}
			for _, v := range hostile8 {
				m := append([]byte(nil), enc...)
				m[p] = v
				if !check(m) {
					return
				}
			}
			// relative mutations: a count / length / size that is slightly larger or smaller than the truth
			for _, d := range []int{1, 2, 3, 4, -1, -2} {
				m := append([]byte(nil), enc...)
				m[p] = byte(int(m[p]) + d)
				if !check(m) {
					return
				}
				if p+2 <= len(enc) {
					m2 := append([]byte(nil), enc...)
					x := int(m2[p])<<8 | int(m2[p+1])
					x += d
					m2[p], m2[p+1] = byte(x>>8), byte(x)
					if !check(m2) {
						return
					}
				}
				if p+4 <= len(enc) {
					m4 := append([]byte(nil), enc...)
					x := uint32(m4[p])<<24 | uint32(m4[p+1])<<16 | uint32(m4[p+2])<<8 | uint32(m4[p+3])
					x += uint32(int32(d))
					m4[p], m4[p+1], m4[p+2], m4[p+3] = byte(x>>24), byte(x>>16), byte(x>>8), byte(x)
					if !check(m4) {
						return
					}
				}
			}
		}
	}
	c.AddExtraCount("raw_mutation_calls", n)
	c.AddEvals(n)
}
