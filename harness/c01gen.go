package main

import (
	"encoding/json"
	"math"
	"math/rand"
)

func wireValueCases(c *Ctx) []json.RawMessage {
	var out []json.RawMessage
	add := func(w WireCase) { out = append(out, mustJSON(w)) }
	rng := rand.New(rand.NewSource(c.Seed*2654435761 + 1))
	tr := func() int { return rng.Intn(4) }
	add(WireCase{Kind: "bool", B: true})
	add(WireCase{Kind: "bool", B: false, Trail: 2})
	add(WireCase{Kind: "fieldstop"})
	for i := -128; i <= 127; i++ {
		add(WireCase{Kind: "byte", I: int64(i), Trail: tr()})
	}
	if c.Thorough() {
		for i := -32768; i <= 32767; i++ {
			add(WireCase{Kind: "i16", I: int64(i)})
		}
	} else {
		for i := -32768; i <= 32767; i++ {
			if i%97 == 0 || (i&0xff) <= 1 || (i&0xff) >= 0xfe || i > 32760 || i < -32760 {
				add(WireCase{Kind: "i16", I: int64(i), Trail: tr()})
			}
		}
	}
	lanes := []int64{0x00, 0x01, 0x7f, 0x80, 0xff}
	for _, a := range lanes {
		for _, b := range lanes {
			for _, d := range lanes {
				for _, e := range lanes {
					add(WireCase{Kind: "i32", I: int64(int32(uint32(a<<24 | b<<16 | d<<8 | e))), Trail: tr()})
				}
			}
		}
	}
	for i := 0; i < c.Pick(500, 20000); i++ {
		add(WireCase{Kind: "i32", I: int64(int32(rng.Uint32())), Trail: tr()})
	}
	// i64 / double: every single-bit pattern, byte-distinct rotations, NaN payloads, infinities, random
	var pats []uint64
	for b := 0; b < 64; b++ {
		pats = append(pats, 1<<uint(b), ^(uint64(1) << uint(b)))
	}
	base := uint64(0x0102030405060708)
	for r := 0; r < 8; r++ {
		pats = append(pats, base<<(8*uint(r))|base>>(64-8*uint(r)))
	}
	pats = append(pats, 0, ^uint64(0), math.Float64bits(math.NaN()), 0x7ff0000000000001, 0xfff8000000000000, 0x7ff4000000000123,
		math.Float64bits(math.Inf(1)), math.Float64bits(math.Inf(-1)), math.Float64bits(-0.0), math.Float64bits(1.5), 0x8000000000000000, 0x7fffffffffffffff)
	for i := 0; i < c.Pick(300, 20000); i++ {
		pats = append(pats, rng.Uint64())
	}
	for _, p := range pats {
		add(WireCase{Kind: "i64", Lanes: lanes64(p), Trail: tr()})
		add(WireCase{Kind: "double", Lanes: lanes64(p), Trail: tr()})
	}
	// strings / binaries: every length class incl. the 4096/8192 buffer boundaries and 64KiB, arbitrary content
	var lens []int
	for n := 0; n <= 16; n++ {
		lens = append(lens, n)
	}
	for n := 4085; n <= 4101; n++ {
		lens = append(lens, n)
	}
	for n := 8181; n <= 8197; n++ {
		lens = append(lens, n)
	}
	lens = append(lens, 100, 1000, 12288, 16380, 16384, 65531, 65532, 65535, 65536, 65540, 70000)
	lens = append(lens, 1<<17, 1<<17+1, 1<<20-1, 1<<20, 1<<20+1, 1<<20+70000, 3<<20+5) // beyond every size class / chunk size a reader may use
	for i, n := range lens {
		for _, k := range []string{"string", "binary"} {
			add(WireCase{Kind: k, SLen: n, SSeed: (i*7 + 3) % 250, Trail: tr()})
		}
	}
	for i := 0; i < c.Pick(200, 5000); i++ {
		n := rng.Intn(12)
		lit := make([]int, n)
		for j := range lit {
			lit[j] = []int{0x00, 0xff, 0xc3, 0x28, 0x80, 0xfe, 0x41, 0xe2}[rng.Intn(8)] // incl. invalid UTF-8
		}
		add(WireCase{Kind: []string{"string", "binary"}[i%2], SLit: lit, Trail: tr()})
	}
	for i := 0; i < c.Pick(60, 3000); i++ {
		add(WireCase{Kind: []string{"string", "binary"}[i%2], SLen: rng.Intn(20000), SSeed: rng.Intn(250), Trail: tr()})
	}
	// headers: every type byte x boundary ids; sizes 0 .. 2^31-1
	ids := []int{0, 1, -1, 2, 255, 256, 257, 32767, -32768, -129, 127, 128}
	for t := -128; t <= 127; t++ {
		if t == 0 {
			continue
		}
		for _, id := range ids {
			if !c.Thorough() && (t*31+id)%5 != 0 && id != 1 {
				continue
			}
			add(WireCase{Kind: "fieldbegin", T: t, ID: id, Trail: tr()})
		}
	}
	if c.Thorough() {
		for id := -32768; id <= 32767; id++ {
			add(WireCase{Kind: "fieldbegin", T: 11, ID: id})
		}
	}
	sizes := []int{0, 1, 2, 127, 128, 255, 256, 65535, 65536, 16777215, 16777216, 2147483647, 2147483646, 1 << 30}
	for _, sz := range sizes {
		for _, t := range []int{2, 3, 4, 6, 8, 10, 11, 12, 13, 14, 15, 0, 1, 127, -128, -1} {
			add(WireCase{Kind: "listbegin", Kt: t, Size: sz, Trail: tr()})
			add(WireCase{Kind: "setbegin", Kt: t, Size: sz, Trail: tr()})
			add(WireCase{Kind: "mapbegin", Kt: t, Vt: []int{11, 8, -1, 12}[rng.Intn(4)], Size: sz, Trail: tr()})
		}
	}
	for i := 0; i < c.Pick(100, 3000); i++ {
		add(WireCase{Kind: "mapbegin", Kt: rng.Intn(256) - 128, Vt: rng.Intn(256) - 128, Size: int(rng.Int31()), Trail: tr()})
		add(WireCase{Kind: "listbegin", Kt: rng.Intn(256) - 128, Size: int(rng.Int31()), Trail: tr()})
	}
	return out
}

// msgCases: message envelopes (C12): names empty..long incl. arbitrary bytes, all message types, sequence ids.
func msgCases(c *Ctx) []json.RawMessage {
	var out []json.RawMessage
	add := func(w WireCase) { out = append(out, mustJSON(w)) }
	rng := rand.New(rand.NewSource(c.Seed*40503 + 12))
	seqs := []int{0, 1, -1, 255, 256, 65535, 65536, 2147483647, -2147483648, -2, 16777216}
	step := c.Pick(257, 1)
	for mt := 0; mt <= 65535; mt += step {
		add(WireCase{Kind: "msgbegin", Mt: mt, SLit: []int{'m'}, Seq: seqs[mt%len(seqs)], Trail: mt % 3})
	}
	for _, mt := range []int{0, 1, 2, 3, 4, 5, 255, 256, 65535, 32768, 32767} {
		for _, n := range []int{0, 1, 2, 13, 100, 4084, 4085, 4086, 4087, 4088, 4096, 8192, 65536, 70000} {
			add(WireCase{Kind: "msgbegin", Mt: mt, SLen: n, SSeed: (n + mt) % 250, Seq: seqs[rng.Intn(len(seqs))], Trail: rng.Intn(3)})
		}
	}
	// names beyond every size class / chunk size a reader may treat specially
	for i, n := range []int{1 << 17, 1<<17 + 1, 1<<20 - 1, 1 << 20, 1<<20 + 1, 1<<20 + 70000, 2<<20 + 1, 3<<20 + 5} {
		add(WireCase{Kind: "msgbegin", Mt: 1 + i%4, SLen: n, SSeed: (n + i) % 250, Seq: seqs[i%len(seqs)], Trail: i % 3})
	}
	for i := 0; i < c.Pick(200, 4000); i++ {
		n := rng.Intn(10)
		lit := make([]int, n)
		for j := range lit {
			lit[j] = rng.Intn(256)
		}
		add(WireCase{Kind: "msgbegin", Mt: rng.Intn(65536), SLit: lit, Seq: int(int32(rng.Uint32())), Trail: rng.Intn(3)})
	}
	// every first-word value for version checking (all 65536 in thorough), every truncation point
	vstep := c.Pick(41, 1)
	for v := 0; v <= 65535; v += vstep {
		h := []byte{byte(v >> 8), byte(v), 0, 1, 0, 0, 0, 2, 'o', 'k', 0, 0, 0, 7}
		add(WireCase{Kind: "msgbegin", Only: "dec", Hex: hexOf(&SegBuf{b: h})})
	}
	for _, v := range []int{0x8001, 0x8000, 0x8002, 0x0001, 0x8101, 0x7fff, 0xffff, 0x0000} {
		h := []byte{byte(v >> 8), byte(v), 0, 1, 0, 0, 0, 2, 'o', 'k', 0, 0, 0, 7}
		add(WireCase{Kind: "msgbegin", Only: "dec", Hex: hexOf(&SegBuf{b: h})})
	}
	// a first word WITHOUT the strict-version marker is a bad version as soon as the word is there, however little follows
	for _, v := range []uint32{0x00000000, 0x00010001, 0x7fffffff, 0x80000001, 0x80020001, 0x8101ffff, 0x50494e47 /* "PING" */, 0x47455420 /* "GET " */, 0xffffffff} {
		h := []byte{byte(v >> 24), byte(v >> 16), byte(v >> 8), byte(v), 0, 0, 0, 2, 'o', 'k', 0, 0, 0, 7}
		for k := 0; k <= len(h); k++ {
			add(WireCase{Kind: "msgbegin", Only: "dec", Hex: hexOf(&SegBuf{b: h[:k]})})
		}
	}
	full := []byte{0x80, 0x01, 0, 2, 0, 0, 0, 5, 'h', 'e', 'l', 'l', 'o', 0xff, 0xff, 0xff, 0xfe}
	for k := 0; k <= len(full); k++ {
		add(WireCase{Kind: "msgbegin", Only: "dec", Hex: hexOf(&SegBuf{b: full[:k]})})
	}
	for _, sz := range []uint32{0x80000000, 0xffffffff, 0x7fffffff, 0x7ffffffc, 0x7ffffffe, 0x7ffffffb, 0x00100000, 0x000fffff, 6, 5, 4} {
		h := []byte{0x80, 0x01, 0, 1, byte(sz >> 24), byte(sz >> 16), byte(sz >> 8), byte(sz), 'h', 'e', 'l', 'l', 'o', 0, 0, 0, 1}
		add(WireCase{Kind: "msgbegin", Only: "dec", Hex: hexOf(&SegBuf{b: h})})
	}
	return out
}

// hostileWireCases: truncations / perturbations of valid encodings and raw short inputs for every reader kind.
func hostileWireCases(c *Ctx) []json.RawMessage {
	var out []json.RawMessage
	add := func(w WireCase) { out = append(out, mustJSON(w)) }
	rng := rand.New(rand.NewSource(c.Seed*69069 + 3))
	kinds := []string{"bool", "byte", "i16", "i32", "i64", "double", "string", "binary", "fieldbegin", "mapbegin", "listbegin", "setbegin", "msgbegin"}
	// all inputs of length 0..2 over a boundary alphabet, and random short inputs, for every kind
	alpha := []byte{0x00, 0x01, 0x7f, 0x80, 0xff, 0x0b}
	for _, k := range kinds {
		add(WireCase{Kind: k, Only: "dec", Hex: "", Mut: "cut:0", SLen: 0})
		for _, a := range alpha {
			add(WireCase{Kind: k, Only: "dec", Hex: hexOf(&SegBuf{b: []byte{a}})})
			for _, b := range alpha {
				add(WireCase{Kind: k, Only: "dec", Hex: hexOf(&SegBuf{b: []byte{a, b}})})
			}
		}
		for i := 0; i < c.Pick(40, 1500); i++ {
			n := rng.Intn(16)
			b := make([]byte, n)
			for j := range b {
				b[j] = alpha[rng.Intn(len(alpha))]
				if rng.Intn(4) == 0 {
					b[j] = byte(rng.Intn(256))
				}
			}
			add(WireCase{Kind: k, Only: "dec", Hex: hexOf(&SegBuf{b: b})})
		}
	}
	// string-bearing kinds: every cut point and size perturbation of valid encodings
	for _, k := range []string{"string", "binary", "msgbegin"} {
		for _, n := range []int{0, 1, 5, 13, 300} {
			base := WireCase{Kind: k, Only: "dec", SLen: n, SSeed: n % 250, Mt: 1, Seq: 5}
			enc := silentEncode(&base)
			for cut := 0; cut < len(enc); cut++ {
				if len(enc) > 40 && cut > 20 && cut < len(enc)-8 && cut%37 != 0 {
					continue
				}
				w := base
				w.Mut = "cut:" + itoa(cut)
				add(w)
			}
			off := 0
			if k == "msgbegin" {
				off = 4
			}
			for _, v := range []int{0x00, 0x01, 0x7f, 0x80, 0xff} {
				w := base
				w.Mut = "set:" + itoa(off) + ":" + itoa(v)
				add(w)
				w2 := base
				w2.Mut = "set:" + itoa(off+3) + ":" + itoa(v)
				add(w2)
			}
		}
	}
	return out
}

func itoa(i int) string { return fmtInt(i) }
