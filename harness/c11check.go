package main

import (
	"encoding/json"
	"errors"
	"fmt"

	"github.com/cloudwego/gopkg/protocol/thrift"
	"github.com/cloudwego/gopkg/protocol/thrift/base"
)

func checkC11(c *Ctx) {
	c.rule = "MC: for Base/BaseResp/AppEx, every permutation of the known fields x interleaved unknown fields of every type (incl. ids colliding with known ids) x nil/empty/one-entry maps reads back to the written value and consumes the whole input (MC_FastStructs). TRACE: random values (strings of every length class and content, any i32, maps 0..8, nil vs empty map, nil receiver) through BLength/FastWrite/FastWriteNocopy(nil)/FastMarshal (st_write) and FastRead/FastUnmarshal (st_read); all field permutations with 0..2 unknown fields from the typed value generator and repeated fields (st_read on hand-built inputs); TLC computes EncStruct/ReadStruct. BIG COLLECTIONS (Go monitor; the expectation is computed in Go from the data that was encoded, because TLC's map comparison is quadratic): Base / BaseResp with Extra maps of 255..131073 entries: BLength = bytes written = bytes consumed, every entry read back. After every decode the caller adds to / deletes from every decoded map and the same bytes are decoded again into a fresh struct. Every known field id x every other wire type x every position."
	c.MC("MC_FastStructs.tla", "MC_FastStructs.cfg", 8)
	c.TraceCheck(famStructC11, structCases(c))
	bigStructMonitor(c)
	c.Assume("struct string fields are projected to segments by content (pattern runs verified byte by byte, everything else literal); maps with >= 2 entries are judged by parsing the output (Go map order is free)")
}

func checkC15(c *Ctx) {
	c.rule = "TRACE: FastWriteNocopy of Base/BaseResp/AppEx with a recording direct writer and with nil, string lengths {0,1,4095,4096,4097,8192,12288} in every field position (all small/large combinations for Base's three strings, map key/value), plus random structs; TLC splices the recorded pieces into the linear buffer at offset B - remainCap and compares with EncStruct (the copying path), checks remainCap >= len, the number of direct writes = number of strings >= threshold, and advertised length = copying length. Also a by-reference direct writer with values (string and binary, 4..16 KiB) rendered into a local scratch array of a noinline caller, the pieces looked at after that frame returned and its stack was reused. Values of 1 GiB + 4096 and 1.5 GiB through both primitives (every piece handed to the direct writer belongs at the same linear position, within the bytes the call reports as written). Direct writers that take the piece and report an error."
	c.MC("MC_FastStructs.tla", "MC_FastStructs.cfg", 8)
	c.TraceCheck(famStructC15, nocopyCases(c))
}

func checkC12(c *Ctx) {
	c.rule = "MC: all 65536 first words (strict version), all 65536 message types, every truncation of a header (MC_ThriftWire). TRACE: message headers (names empty..70000 bytes incl. arbitrary bytes, message types across 0..65535, boundary sequence ids) written by the three writers and read by the two readers under fragmentation (enc/dec events vs Enc/Dec); raw headers for every first word (quick: stride 41; thorough: all) and every truncation point; MarshalFastMsg/UnmarshalFastMsg of Base/BaseResp/AppEx payloads incl. EXCEPTION messages (application-exception error with original type id and text, caller's struct untouched), truncated and perturbed messages. Hand-built messages of a foreign peer: EXCEPTION payloads with either field omitted / reordered / with unknown fields / just STOP, replies whose struct omits fields. GIANT BUFFERS (Go monitor): CALL and EXCEPTION messages at the head of lazily mapped buffers of 2^31-1 .. 2^32+33 bytes through ReadMessageBegin and UnmarshalFastMsg. Message types with the low byte of CALL / REPLY / EXCEPTION / ONEWAY under every high byte through MarshalFastMsg / UnmarshalFastMsg."
	c.MC("MC_ThriftWire.tla", "MC_ThriftWire.cfg", 4)
	c.TraceCheck(famWireC12, msgCases(c))
	c.TraceCheck(famStructC12, msgStructCases(c))
	giantMessageMonitor(c)
}

// giantMessageMonitor: a message at the head of a buffer of more than 2 GiB (a caller's large receive buffer; the pages
// are mapped lazily and never touched): header readers and UnmarshalFastMsg answer as they do for a small buffer (Go monitor)
func giantMessageMonitor(c *Ctx) {
	var buf []byte
	func() {
		defer func() { recover() }()
		buf = make([]byte, 1<<32+64)
	}()
	if buf == nil {
		c.Assume("giant message buffers skipped: the address space could not be reserved")
		return
	}
	bp := thrift.Binary
	for _, total := range []int{1<<31 - 1, 1 << 31, 1<<31 + 11, 1<<31 + 12, 1<<31 + 45, 1<<32 - 1, 1 << 32, 1<<32 + 33} {
		for _, exc := range []bool{false, true} {
			mt := thrift.TMessageType(thrift.CALL)
			var body []byte
			if exc {
				mt = thrift.EXCEPTION
				body = bp.AppendFieldStop(bp.AppendI32(bp.AppendFieldBegin(bp.AppendString(bp.AppendFieldBegin(nil, thrift.STRING, 1), "boom"), thrift.I32, 2), 6))
			} else {
				body = bp.AppendFieldStop(bp.AppendString(bp.AppendFieldBegin(nil, thrift.STRING, 1), "log"))
			}
			msg := append(bp.AppendMessageBegin(nil, "Echo", mt, 77), body...)
			for i := range buf[:64] {
				buf[i] = 0
			}
			copy(buf, msg)
			in := buf[:total]
			bad := guarded(func() string {
				name, t, seq, l, err := bp.ReadMessageBegin(in)
				if err != nil || name != "Echo" || t != mt || seq != 77 || l != len(msg)-len(body) {
					return fmt.Sprintf("ReadMessageBegin on a %d-byte buffer: (%q, %d, %d, %d, %v)", total, name, t, seq, l, err)
				}
				dst := base.NewBase()
				m, s, err := thrift.UnmarshalFastMsg(in, dst)
				if exc {
					var ae *thrift.ApplicationException
					if !errors.As(err, &ae) || ae.TypeID() != 6 || ae.Msg() != "boom" || m != "Echo" || s != 77 {
						return fmt.Sprintf("UnmarshalFastMsg of an EXCEPTION message in a %d-byte buffer: (%q, %d, %v)", total, m, s, err)
					}
				} else if err != nil || m != "Echo" || s != 77 || dst.LogID != "log" {
					return fmt.Sprintf("UnmarshalFastMsg in a %d-byte buffer: (%q, %d, %v), LogID %q", total, m, s, err, dst.LogID)
				}
				return ""
			})
			c.AddEvals(2)
			if bad != "" {
				c.GoViolation("giantmsg-C12", "msg/giant-buffer", map[string]interface{}{"total": total, "exc": exc}, bad)
			}
		}
	}
}

func init() {
	goReplays["giantmsg-C12"] = func(c *Ctx, raw json.RawMessage) { giantMessageMonitor(c) }
}

func init() {
	checks["C11"] = checkC11
	checks["C12"] = checkC12
	checks["C15"] = checkC15
}
