package main

import (
	"encoding/json"
	"math"

	"github.com/cloudwego/gopkg/protocol/thrift"
)

func checkC01(c *Ctx) {
	c.rule = "MC: Dec o Enc = id, Enc o Dec = id and length agreement, exhaustively for bool/i8/i16, every type byte, boundary-lane i32/i64/ids/sizes, strings of length 0..3 and pattern runs straddling 4096/8192/65536 (one TLC state; the invariants quantify over the value domains). TRACE: one case = one value of one kind; the in-place, appending and stream writers each emit an enc event (bytes as segments, returned and advertised length), the buffer reader and the stream reader under 5 fragmentations (fit, data+EOF, 1-byte, 1-byte+EOF, 3/0/7 with zero-byte reads) each emit a dec event on those bytes plus trailing bytes; TLC compares with Enc/Dec. SWEEP (Go, rule certified by MC): all i32 values (thorough: 2^32; quick: stride) through the three writers and the buffer reader against the big-endian lane rule."
	c.MC("MC_ThriftWire.tla", "MC_ThriftWire.cfg", 4)
	c.TraceCheck(famWireC01, wireValueCases(c))
	sweepI32(c)
	c.Assume("i64/double values are projected to 8 big-endian lanes by the harness (shifts); TLC checks the lanes against the wire bytes")
	c.Assume("decoded strings are projected as references into the input, each verified with bytes.Equal")
}

// sweepI32 applies the lane rule certified by MC_ThriftWire (I32Lane/I32Vals) to the whole i32 domain.
func sweepI32(c *Ctx) {
	step := uint64(1)
	if !c.Thorough() {
		step = 4099 // ~1M values in the quick tier
	}
	var n int64
	var buf [8]byte
	bp := thrift.Binary
	scratch := make([]byte, 0, 8)
	for u := uint64(0); u < 1<<32; u += step {
		v := int32(uint32(u))
		exp := [4]byte{byte(u >> 24), byte(u >> 16), byte(u >> 8), byte(u)}
		k := bp.WriteI32(buf[:], v)
		a := bp.AppendI32(scratch[:0], v)
		r, l, err := bp.ReadI32(exp[:])
		n++
		if k != 4 || buf[0] != exp[0] || buf[1] != exp[1] || buf[2] != exp[2] || buf[3] != exp[3] ||
			len(a) != 4 || a[0] != exp[0] || a[1] != exp[1] || a[2] != exp[2] || a[3] != exp[3] || r != v || l != 4 || err != nil {
			c.GoViolation("wire-C01", "wire/i32-sweep", WireCase{Kind: "i32", I: int64(v)}, "i32 sweep: writer/reader disagree with the big-endian lane rule")
			return
		}
	}
	// double: the float64 <-> bit pattern bridge on special values
	for _, p := range []uint64{math.Float64bits(math.NaN()), 0x7ff0000000000001, 0xfff8000000000000} {
		bp.WriteDouble(buf[:], math.Float64frombits(p))
		if lanesTo64([]int{int(buf[0]), int(buf[1]), int(buf[2]), int(buf[3]), int(buf[4]), int(buf[5]), int(buf[6]), int(buf[7])}) != p {
			c.GoViolation("wire-C01", "wire/double-nan", WireCase{Kind: "double", Lanes: lanes64(p)}, "NaN payload not preserved")
		}
	}
	c.AddExtraCount("i32_sweep_values", n)
	c.AddEvals(n)
}

func checkC12wire(c *Ctx) []json.RawMessage { return msgCases(c) }

func init() { checks["C01"] = checkC01 }
