package main

import (
	"encoding/json"
	"fmt"
	"math/rand"
	"strconv"
	"strings"
)

// build regenerates the input a GenRef names (deterministic in its parameters).
func (g *GenRef) build(t int8) *SegBuf {
	var s *SegBuf
	switch g.Kind {
	case "nest":
		s, _ = nestValue(g.NKind, g.Levels, g.Inner)
	case "nestmix":
		s, _ = nestMixed(g.NKind)
	default:
		rng := rand.New(rand.NewSource(g.Seed))
		vg := &valGen{rng: rng, budget: g.Budget, bigStr: g.Big}
		s = &SegBuf{}
		vg.Value(s, t, g.Depth)
		switch g.Trail {
		case 1:
			s.Lit(byte(rng.Intn(256)))
		case 2:
			vg2 := &valGen{rng: rng, budget: 6}
			vg2.Value(s, allTypes[rng.Intn(len(allTypes))], 2)
		case 3:
			n := 1 + rng.Intn(9)
			for i := 0; i < n; i++ {
				s.Lit(byte(rng.Intn(256)))
			}
		}
	}
	if g.Mut != "" {
		parts := strings.Split(g.Mut, ":")
		switch parts[0] {
		case "cut":
			k, _ := strconv.Atoi(parts[1])
			s = s.Truncate(k)
		case "set":
			pos, _ := strconv.Atoi(parts[1])
			v, _ := strconv.Atoi(parts[2])
			s = s.Set(pos, byte(v))
		case "size":
			idx, _ := strconv.Atoi(parts[1])
			v, _ := strconv.ParseUint(parts[2], 16, 32)
			if idx < len(s.sizeAt) {
				p := s.sizeAt[idx]
				for k := 0; k < 4; k++ {
					s = s.Set(p+k, byte(v>>(24-8*uint(k))))
				}
			}
		}
	}
	return s
}

// wellFormedSkipCases: typed value trees of every type with trailing bytes (property C02).
func wellFormedSkipCases(c *Ctx, n int, seedBase int64) []json.RawMessage {
	var out []json.RawMessage
	rng := rand.New(rand.NewSource(c.Seed*1000003 + seedBase))
	// every one of the 11x11 key/value and 11 element type combinations, counts 0,1,2,many
	for _, kt := range allTypes {
		for _, vt := range allTypes {
			for _, cnt := range []int{0, 1, 2, 7} {
				out = append(out, mustJSON(SkipCase{T: 13, Note: fmt.Sprintf("map<%d,%d>x%d", kt, vt, cnt), Hex: hexOf(comboContainer(rng, 13, kt, vt, cnt))}))
			}
		}
	}
	for _, ct := range []int8{14, 15} {
		for _, et := range allTypes {
			for _, cnt := range []int{0, 1, 2, 7} {
				out = append(out, mustJSON(SkipCase{T: int(ct), Note: fmt.Sprintf("list<%d>x%d", et, cnt), Hex: hexOf(comboContainer(rng, ct, et, et, cnt))}))
			}
		}
	}
	// nesting 1..63 for every container kind, with trailing byte
	for _, kind := range []string{"struct", "list", "set", "mapval", "mapkey"} {
		for _, lv := range []int{1, 2, 3, 10, 31, 62, 63} {
			for _, inner := range []string{"empty", "scalar", "string"} {
				if lv == 63 && inner != "empty" {
					continue // the innermost element would sit at level 64: boundary zone, not claimed
				}
				top := map[string]int{"struct": 12, "list": 15, "set": 14, "mapval": 13, "mapkey": 13}[kind]
				out = append(out, mustJSON(SkipCase{T: top, Gen: &GenRef{Kind: "nest", NKind: kind, Levels: lv, Inner: inner}, Note: "nest"}))
			}
		}
	}
	for i := 0; i < n; i++ {
		t := allTypes[rng.Intn(len(allTypes))]
		g := &GenRef{Kind: "value", Seed: rng.Int63(), Depth: 1 + rng.Intn(5), Budget: 3 + rng.Intn(40), Big: rng.Intn(4) == 0, Trail: rng.Intn(4)}
		out = append(out, mustJSON(SkipCase{T: int(t), Gen: g}))
	}
	return out
}

func hexOf(s *SegBuf) string {
	var sb strings.Builder
	for _, x := range s.b {
		fmt.Fprintf(&sb, "%02x", x)
	}
	return sb.String()
}

// comboContainer encodes a container with the given element types and count (+ one trailing byte).
func comboContainer(rng *rand.Rand, ct, kt, vt int8, cnt int) *SegBuf {
	s := &SegBuf{}
	vg := &valGen{rng: rng, budget: 4}
	if ct == 13 {
		s.Struct(byte(kt), byte(vt))
	} else {
		s.Struct(byte(kt))
	}
	s.Size4(uint32(cnt))
	for i := 0; i < cnt; i++ {
		vg.budget = 3
		vg.Value(s, kt, 2)
		if ct == 13 {
			vg.budget = 3
			vg.Value(s, vt, 2)
		}
	}
	s.Lit(0x5a)
	return s
}

// hostileSkipCases: grammar-directed malformed inputs (properties C08, C03, C17).
func hostileSkipCases(c *Ctx, n int, seedBase int64) []json.RawMessage {
	var out []json.RawMessage
	rng := rand.New(rand.NewSource(c.Seed*998244353 + seedBase))
	add := func(cs SkipCase) { out = append(out, mustJSON(cs)) }
	bound := []int{0x00, 0x01, 0x7f, 0x80, 0xff, 0x0b, 0x0c, 0x0d, 0x0f, 0x10}
	sizes := []string{"7fffffff", "7ffffffc", "7ffffffd", "80000000", "ffffffff", "fffffffe", "fffffffc", "fffffff8", "fffffff7", "00100001", "000fffff", "40000000"}
	// counts whose product with an element / pair width (1..16 bytes) is just beyond 2^32: ceil(2^32 / w) + {0, 1}; a
	// skipper that multiplies in 32 bits takes them for (almost) nothing
	for _, w := range []uint64{2, 3, 4, 5, 6, 8, 9, 10, 12, 16} {
		c0 := (uint64(1)<<32 + w - 1) / w
		for _, cnt := range []uint64{c0, c0 + 1, 2*c0 + 1} {
			if cnt < 1<<31 {
				sizes = append(sizes, fmt.Sprintf("%08x", cnt))
			}
		}
	}
	sizes = append(sizes, "20000000", "10000000")
	// every size field (count, string lengths) of a value x every hostile size; small negatives matter where a
	// skipper adds a fixed size to a declared length before checking the sign
	sizeSweep := func(s *SegBuf, t int, note string) {
		for _, p := range s.sizeAt {
			for _, hx := range sizes {
				var v uint32
				fmt.Sscanf(hx, "%x", &v)
				m := append([]byte(nil), s.b...)
				m[p], m[p+1], m[p+2], m[p+3] = byte(v>>24), byte(v>>16), byte(v>>8), byte(v)
				add(SkipCase{T: t, Hex: hexOf(&SegBuf{b: m}), Note: note})
			}
		}
	}
	for i := 0; i < n; i++ {
		t := allTypes[rng.Intn(len(allTypes))]
		base := &GenRef{Kind: "value", Seed: rng.Int63(), Depth: 1 + rng.Intn(4), Budget: 2 + rng.Intn(14), Trail: rng.Intn(2)}
		s := base.build(t)
		// every cut point (bounded), every structural byte x boundary values, every size field x hostile sizes
		cuts := s.Len()
		step := 1
		if cuts > 60 {
			step = cuts / 40
		}
		for k := 0; k < cuts; k += step {
			g := *base
			g.Mut = fmt.Sprintf("cut:%d", k)
			add(SkipCase{T: int(t), Gen: &g})
		}
		for _, p := range s.struc {
			if rng.Intn(3) != 0 && len(s.struc) > 12 {
				continue
			}
			for _, v := range bound {
				if rng.Intn(2) == 0 {
					continue
				}
				g := *base
				g.Mut = fmt.Sprintf("set:%d:%d", p, v)
				add(SkipCase{T: int(t), Gen: &g})
			}
		}
		for idx := range s.sizeAt {
			g := *base
			g.Mut = fmt.Sprintf("size:%d:%s", idx, sizes[rng.Intn(len(sizes))])
			add(SkipCase{T: int(t), Gen: &g})
		}
		// the same bytes under another requested type (incl. unknown and >= 0x80 tags)
		g := *base
		add(SkipCase{T: []int{0, 1, 5, 7, 9, 16, 17, 127, -128, -1, -116}[rng.Intn(11)], Gen: &g, Note: "foreign-type"})
	}
	// every cut point of every 11x11 map / 11 list / 11 set element-type combination (counts 1, 2)
	crng := rand.New(rand.NewSource(c.Seed + 77))
	for _, kt := range allTypes {
		for _, vt := range allTypes {
			for _, cnt := range []int{1, 2} {
				s := comboContainer(crng, 13, kt, vt, cnt)
				s.b = s.b[:len(s.b)-1] // without the trailing byte
				step := 1
				if len(s.b) > 48 && !c.Thorough() {
					step = 3
				}
				for k := 0; k < len(s.b); k += step {
					add(SkipCase{T: 13, Hex: hexOf(&SegBuf{b: s.b[:k]}), Note: fmt.Sprintf("combo-cut map<%d,%d>", kt, vt)})
				}
				if cnt == 1 || c.Thorough() {
					s.b = append(s.b, 1, 2, 3, 4, 5, 6, 7, 8, 9) // bytes behind the value: a shortened reading must find something to consume
					sizeSweep(s, 13, fmt.Sprintf("combo-size map<%d,%d>", kt, vt))
				}
			}
		}
	}
	for _, ct := range []int8{14, 15} {
		for _, et := range allTypes {
			for _, cnt := range []int{1, 2} {
				s := comboContainer(crng, ct, et, et, cnt)
				s.b = s.b[:len(s.b)-1]
				for k := 0; k < len(s.b); k++ {
					add(SkipCase{T: int(ct), Hex: hexOf(&SegBuf{b: s.b[:k]}), Note: fmt.Sprintf("combo-cut list<%d>", et)})
				}
				s.b = append(s.b, 1, 2, 3, 4, 5, 6, 7, 8, 9)
				sizeSweep(s, int(ct), fmt.Sprintf("combo-size list<%d>", et))
			}
		}
	}
	// declared sizes that exceed what is present by exactly T, for every "round" T a chunked or capped implementation
	// might use: strings and bulk-skipped lists of fixed-size elements, alone and as a struct field
	for _, present := range []int{0, 5, 100, 5000} {
		for _, T := range []int{1, 4095, 4096, 4097, 8192, 65535, 65536, 99999, 100000, 999999, 1000000, 1000001, 1048575, 1048576, 1048577, 2000000, 16777216} {
			body := PatBytes(present%200, 0, present)
			d := uint32(present + T)
			str := append([]byte{byte(d >> 24), byte(d >> 16), byte(d >> 8), byte(d)}, body...)
			add(SkipCase{T: 11, Hex: hexOf(&SegBuf{b: str}), Note: "short-by-T string"})
			add(SkipCase{T: 12, Hex: hexOf(&SegBuf{b: append([]byte{11, 0, 1}, str...)}), Note: "short-by-T field"})
			cnt := uint32((present+T)/8 + 1)
			lst := append([]byte{10, byte(cnt >> 24), byte(cnt >> 16), byte(cnt >> 8), byte(cnt)}, body...)
			add(SkipCase{T: 15, Hex: hexOf(&SegBuf{b: lst}), Note: "short-by-T list"})
			mp := append([]byte{8, 10, byte(cnt >> 24), byte(cnt >> 16), byte(cnt >> 8), byte(cnt)}, body...)
			add(SkipCase{T: 13, Hex: hexOf(&SegBuf{b: mp}), Note: "short-by-T map"})
		}
	}
	// struct with one field of every type, every cut point
	for _, ft := range allTypes {
		s := &SegBuf{}
		vg := &valGen{rng: crng, budget: 3}
		s.Struct(byte(ft), 0, 1)
		vg.Value(s, ft, 2)
		s.Struct(8, 0, 2)
		s.Lit(0, 0, 0, 1)
		s.Struct(0)
		for k := 0; k < len(s.b); k++ {
			add(SkipCase{T: 12, Hex: hexOf(&SegBuf{b: s.b[:k]}), Note: fmt.Sprintf("combo-cut struct{%d}", ft)})
		}
		sizeSweep(s, 12, fmt.Sprintf("combo-size struct{%d}", ft))
	}
	// nesting depths 1..70 for struct/list/set/map (key and value side)
	for _, kind := range []string{"struct", "list", "set", "mapval", "mapkey"} {
		top := map[string]int{"struct": 12, "list": 15, "set": 14, "mapval": 13, "mapkey": 13}[kind]
		for lv := 1; lv <= 70; lv++ {
			if !c.Thorough() && lv > 5 && lv < 60 && lv%9 != 0 {
				continue
			}
			for _, inner := range []string{"empty", "scalar", "string"} {
				add(SkipCase{T: top, Gen: &GenRef{Kind: "nest", NKind: kind, Levels: lv, Inner: inner}, Note: "nest"})
			}
		}
	}
	// deep chains cut short (the closing bytes are missing): what lies behind the cut in the caller's memory must not be
	// taken for the rest of the value (inputs on a stack that moves, stale end addresses)
	for _, kind := range []string{"struct", "list", "set", "mapval", "mapkey"} {
		top := map[string]int{"struct": 12, "list": 15, "set": 14, "mapval": 13, "mapkey": 13}[kind]
		for _, lv := range []int{30, 45, 55, 60, 63} {
			for _, inner := range []string{"empty", "string"} {
				s, _ := nestValue(kind, lv, inner)
				for _, back := range []int{1, 2, lv / 2, lv, lv + 3} {
					if k := len(s.b) - back; k > 0 {
						add(SkipCase{T: top, Hex: hexOf(&SegBuf{b: s.b[:k]}), Note: "nest-cut"})
					}
				}
			}
		}
	}
	// chains that MIX container kinds (k levels of one kind, then another; cycles), on both sides of the depth limit
	for _, pat := range mixedNestPatterns(c.Thorough()) {
		_, top := nestMixed(pat)
		add(SkipCase{T: int(top), Gen: &GenRef{Kind: "nestmix", NKind: pat}, Note: "nestmix"})
	}
	// short raw strings over the grammar alphabet under every known type
	alpha := []byte{0x00, 0x01, 0x02, 0x08, 0x0b, 0x0c, 0x0d, 0x0f, 0x80, 0xff}
	for i := 0; i < n; i++ {
		l := rng.Intn(14)
		b := make([]byte, l)
		for k := range b {
			b[k] = alpha[rng.Intn(len(alpha))]
		}
		add(SkipCase{T: int(allTypes[rng.Intn(len(allTypes))]), Hex: hexOf(&SegBuf{b: b}), Note: "raw"})
	}
	return out
}

// nestMixed builds one value nested len(pattern) levels deep, level i being of the kind pattern[i]:
// 's' struct (one field), 'l' list, 't' set, 'v' map value, 'k' map key; the innermost container is empty.
func nestMixed(pattern string) (*SegBuf, int8) {
	tp := func(c byte) byte {
		switch c {
		case 's':
			return 12
		case 'l':
			return 15
		case 't':
			return 14
		}
		return 13
	}
	s := &SegBuf{}
	var emit func(i int)
	emit = func(i int) {
		last := i == len(pattern)-1
		inner := byte(8)
		if !last {
			inner = tp(pattern[i+1])
		}
		switch pattern[i] {
		case 's':
			if !last {
				s.Struct(inner, 0, 1)
				emit(i + 1)
			}
			s.Struct(0)
		case 'l', 't':
			s.Struct(inner)
			if last {
				s.Size4(0)
			} else {
				s.Size4(1)
				emit(i + 1)
			}
		case 'v':
			s.Struct(8, inner)
			if last {
				s.Size4(0)
			} else {
				s.Size4(1)
				s.Lit(0, 0, 0, 9)
				emit(i + 1)
			}
		default: // 'k'
			s.Struct(inner, 8)
			if last {
				s.Size4(0)
			} else {
				s.Size4(1)
				emit(i + 1)
				s.Lit(0, 0, 0, 9)
			}
		}
	}
	emit(0)
	return s, int8(tp(pattern[0]))
}

// mixedNestPatterns: chains that mix container kinds, total depth on both sides of the limit of 64.
func mixedNestPatterns(thorough bool) []string {
	var out []string
	rep := func(c string, n int) string { return strings.Repeat(c, n) }
	totals := []int{63, 64, 65, 66, 70}
	if thorough {
		totals = []int{60, 61, 62, 63, 64, 65, 66, 67, 70, 100, 126, 127, 128, 129}
	}
	for _, total := range totals {
		for _, k := range []int{1, 2, 3, 10, 32, 60, 63} {
			if k >= total {
				continue
			}
			for _, a := range []string{"s", "l", "t", "v", "k"} {
				for _, b := range []string{"s", "l", "v", "k"} {
					if a != b {
						out = append(out, rep(a, k)+rep(b, total-k))
					}
				}
			}
		}
		for _, cyc := range []string{"sl", "ls", "sv", "ks", "slvkt", "ssl", "lls", "sst"} {
			p := ""
			for len(p) < total {
				p += cyc
			}
			out = append(out, p[:total])
		}
	}
	return out
}
