package main

import (
	"encoding/json"
	"errors"
	"fmt"
	"github.com/cloudwego/gopkg/unsafex"
	"math/rand"
	"runtime/debug"
	"sort"
	"strings"

	"github.com/cloudwego/gopkg/protocol/thrift"
	"github.com/cloudwego/gopkg/protocol/thrift/base"
)

// ---------------------------------------------------------------------------
// C11 / C12(marshal) / C15 — shipped FastCodec structs against FastStructs.tla.

type StrSpec struct {
	Len  int   `json:"len"`
	Seed int   `json:"seed"`
	Lit  []int `json:"lit,omitempty"`
}

func (s StrSpec) Bytes() []byte {
	if s.Lit != nil {
		b := make([]byte, len(s.Lit))
		for i, x := range s.Lit {
			b[i] = byte(x)
		}
		return b
	}
	return PatBytes(s.Seed, 0, s.Len)
}

type UnkField struct {
	Pos  int   `json:"pos"` // inserted before the known field with this index in the emitted order (or at the end)
	T    int   `json:"t"`
	ID   int   `json:"id"`
	Seed int64 `json:"seed"`
}

type StructCase struct {
	Schema  string       `json:"schema"` // Base | BaseResp | AppEx
	S       []StrSpec    `json:"s"`      // string fields in schema order
	I       int64        `json:"i"`
	Extra   [][2]StrSpec `json:"extra"` // nil => absent
	HasMap  bool         `json:"hasmap"`
	NilRecv bool         `json:"nilrecv,omitempty"`
	Perm    []int        `json:"perm,omitempty"` // order (and repetition) of known fields in the hand-built input
	Unk     []UnkField   `json:"unk,omitempty"`
	Mut     string       `json:"mut,omitempty"`
	Mode    string       `json:"mode,omitempty"` // "", "nocopy", "msg", "msgexc"
	Method  StrSpec      `json:"method,omitempty"`
	Mt      int          `json:"mt,omitempty"`
	Seq     int          `json:"seq,omitempty"`
	// RawHex (modes msg / msgexc): the message is given as bytes (hand-built: fields omitted, reordered, foreign peers'
	// encodings) instead of being marshalled by the library
	RawHex string `json:"rawhex,omitempty"`
}

// projectBytes renders b as segments, recognising runs (offset 0) of the candidate pattern seeds by content.
func projectBytes(b []byte, seeds []int) Raw {
	var sb strings.Builder
	sb.WriteByte('[')
	first := true
	litStart := 0
	flush := func(hi int) {
		if hi > litStart {
			if !first {
				sb.WriteByte(',')
			}
			first = false
			sb.WriteString(string(litSeg2(b[litStart:hi])))
		}
	}
	for p := 0; p < len(b); {
		if b[p] == 0 { // long zero runs (frame bodies, padding areas) as {"z":n}
			n := 1
			for p+n < len(b) && b[p+n] == 0 {
				n++
			}
			if n > litMax {
				flush(p)
				if !first {
					sb.WriteByte(',')
				}
				first = false
				sb.WriteString(`{"z":` + itoa(n) + `}`)
				p += n
				litStart = p
				continue
			}
		}
		matched := 0
		ms := 0
		if len(b)-p > litMax {
			for _, sd := range seeds {
				if b[p] == PatByte(sd, 0) && isPat(b[p:p+litMax+1], sd, 0) {
					n := litMax + 1
					for p+n < len(b) && b[p+n] == PatByte(sd, n) {
						n++
					}
					if n > matched {
						matched, ms = n, sd
					}
				}
			}
		}
		if matched > 0 {
			flush(p)
			if !first {
				sb.WriteByte(',')
			}
			first = false
			sb.WriteString(string(runSeg(ms, 0, matched)))
			p += matched
			litStart = p
		} else {
			p++
		}
	}
	flush(len(b))
	sb.WriteByte(']')
	return Raw(sb.String())
}

// litSeg2 is litSeg without the length limit semantics (any length).
func litSeg2(b []byte) Raw { return litSeg(b) }

func (c *StructCase) seeds() []int {
	m := map[int]bool{}
	add := func(s StrSpec) {
		if s.Lit == nil && s.Len > litMax {
			m[s.Seed] = true
		}
	}
	for _, s := range c.S {
		add(s)
	}
	for _, kv := range c.Extra {
		add(kv[0])
		add(kv[1])
	}
	add(c.Method)
	var out []int
	for k := range m {
		out = append(out, k)
	}
	sort.Ints(out)
	return out
}

func segsOfStr(b []byte, seeds []int) string { return string(projectBytes(b, seeds)) }

func (c *StructCase) valJSON(seeds []int) Raw {
	var sb strings.Builder
	sb.WriteByte('{')
	for i, s := range c.S {
		fmt.Fprintf(&sb, `"s%d":%s,`, i+1, segsOfStr(s.Bytes(), seeds))
	}
	if c.Schema != "Base" {
		fmt.Fprintf(&sb, `"i":%d,`, c.I)
	}
	if c.Schema != "AppEx" {
		if !c.HasMap {
			sb.WriteString(`"extra":{"set":false,"pairs":[]},`)
		} else {
			sb.WriteString(`"extra":{"set":true,"pairs":[`)
			for j, kv := range c.Extra {
				if j > 0 {
					sb.WriteByte(',')
				}
				fmt.Fprintf(&sb, `[%s,%s]`, segsOfStr(kv[0].Bytes(), seeds), segsOfStr(kv[1].Bytes(), seeds))
			}
			sb.WriteString(`]},`)
		}
	}
	s := strings.TrimSuffix(sb.String(), ",")
	return Raw(s + "}")
}

type fastStruct interface {
	BLength() int
	FastWriteNocopy(buf []byte, bw thrift.NocopyWriter) int
	FastRead(buf []byte) (int, error)
}

func (c *StructCase) build() fastStruct {
	var m map[string]string
	if c.HasMap {
		m = make(map[string]string, len(c.Extra))
		for _, kv := range c.Extra {
			m[string(kv[0].Bytes())] = string(kv[1].Bytes())
		}
	}
	str := func(i int) string {
		if i < len(c.S) {
			return string(c.S[i].Bytes())
		}
		return ""
	}
	switch c.Schema {
	case "Base":
		if c.NilRecv {
			return (*base.Base)(nil)
		}
		return &base.Base{LogID: str(0), Caller: str(1), Addr: str(2), Extra: m}
	case "BaseResp":
		if c.NilRecv {
			return (*base.BaseResp)(nil)
		}
		return &base.BaseResp{StatusMessage: str(0), StatusCode: int32(c.I), Extra: m}
	}
	return thrift.NewApplicationException(int32(c.I), str(0))
}

func fresh(schema string) fastStruct {
	switch schema {
	case "Base":
		return base.NewBase()
	case "BaseResp":
		return base.NewBaseResp()
	}
	return thrift.NewApplicationException(0, "")
}

// readValJSON projects a struct that was read.
func readValJSON(v fastStruct, seeds []int) Raw {
	mp := func(m map[string]string) string {
		if m == nil {
			return `{"set":false,"pairs":[]}`
		}
		var ks []string
		for k := range m {
			ks = append(ks, k)
		}
		sort.Strings(ks)
		var sb strings.Builder
		sb.WriteString(`{"set":true,"pairs":[`)
		for i, k := range ks {
			if i > 0 {
				sb.WriteByte(',')
			}
			fmt.Fprintf(&sb, `[%s,%s]`, segsOfStr([]byte(k), seeds), segsOfStr([]byte(m[k]), seeds))
		}
		sb.WriteString(`]}`)
		return sb.String()
	}
	switch x := v.(type) {
	case *base.Base:
		return Raw(fmt.Sprintf(`{"s1":%s,"s2":%s,"s3":%s,"extra":%s}`, segsOfStr([]byte(x.LogID), seeds), segsOfStr([]byte(x.Caller), seeds), segsOfStr([]byte(x.Addr), seeds), mp(x.Extra)))
	case *base.BaseResp:
		return Raw(fmt.Sprintf(`{"s1":%s,"i":%d,"extra":%s}`, segsOfStr([]byte(x.StatusMessage), seeds), x.StatusCode, mp(x.Extra)))
	case *thrift.ApplicationException:
		return Raw(fmt.Sprintf(`{"s1":%s,"i":%d}`, segsOfStr([]byte(x.Msg()), seeds), x.TypeID()))
	}
	return Raw("{}")
}

// handBuilt encodes the case's fields in the order c.Perm with interleaved unknown fields (harness-side, plain bytes).
func (c *StructCase) handBuilt() []byte {
	s := &SegBuf{}
	type fld struct {
		id  int
		tag byte
		w   func()
	}
	wstr := func(sp StrSpec) {
		b := sp.Bytes()
		s.Size4(uint32(len(b)))
		s.Lit(b...)
	}
	var known []fld
	ids := map[string][]int{"Base": {1, 2, 3, 6}, "BaseResp": {1, 2, 3}, "AppEx": {1, 2}}[c.Schema]
	kinds := map[string][]string{"Base": {"s", "s", "s", "m"}, "BaseResp": {"s", "i", "m"}, "AppEx": {"s", "i"}}[c.Schema]
	si := 0
	for j, k := range kinds {
		id := ids[j]
		switch k {
		case "s":
			sp := StrSpec{}
			if si < len(c.S) {
				sp = c.S[si]
			}
			si++
			known = append(known, fld{id, 11, func() { wstr(sp) }})
		case "i":
			known = append(known, fld{id, 8, func() { v := uint32(int32(c.I)); s.Lit(byte(v>>24), byte(v>>16), byte(v>>8), byte(v)) }})
		case "m":
			known = append(known, fld{id, 13, func() {
				s.Struct(11, 11)
				s.Size4(uint32(len(c.Extra)))
				for _, kv := range c.Extra {
					wstr(kv[0])
					wstr(kv[1])
				}
			}})
		}
	}
	perm := c.Perm
	if perm == nil {
		for j := range known {
			perm = append(perm, j)
		}
	}
	emitUnk := func(pos int) {
		for _, u := range c.Unk {
			if u.Pos == pos {
				s.Struct(byte(u.T), byte(u.ID>>8), byte(u.ID))
				vg := &valGen{rng: rand.New(rand.NewSource(u.Seed)), budget: 8}
				vg.Value(s, int8(u.T), 3)
			}
		}
	}
	for pos, j := range perm {
		emitUnk(pos)
		if j < 0 || j >= len(known) {
			continue
		}
		f := known[j]
		if f.tag == 13 && !c.HasMap {
			continue
		}
		s.Struct(f.tag, byte(f.id>>8), byte(f.id))
		f.w()
	}
	emitUnk(len(perm))
	s.Struct(0)
	b := s.b
	if c.Mut != "" {
		parts := strings.Split(c.Mut, ":")
		switch parts[0] {
		case "cut":
			k := atoi(parts[1])
			if k < len(b) {
				b = b[:k]
			}
		case "set":
			pos, v := atoi(parts[1]), atoi(parts[2])
			if pos < len(b) {
				b = append([]byte(nil), b...)
				b[pos] = byte(v)
			}
		}
	}
	return b
}

func atoi(s string) int {
	n := 0
	fmt.Sscanf(s, "%d", &n)
	return n
}

// mapCountTooBig is a safety device: FastRead allocates a map of the declared count.
func mapCountTooBig(schema string, b []byte) bool {
	off := 0
	mapID := map[string]int{"Base": 6, "BaseResp": 3, "AppEx": -1}[schema]
	for off < len(b) {
		t := int8(b[off])
		if t == 0 || off+3 > len(b) {
			return false
		}
		id := int(int16(uint16(b[off+1])<<8 | uint16(b[off+2])))
		off += 3
		if t == 13 && id == mapID {
			if off+6 > len(b) {
				return false
			}
			cnt := uint32(b[off+2])<<24 | uint32(b[off+3])<<16 | uint32(b[off+4])<<8 | uint32(b[off+5])
			if cnt > 1<<16 {
				return true
			}
		}
		n, err := safeSkip(b[off:], t)
		if err != nil {
			return false
		}
		off += n
	}
	return false
}

func safeSkip(b []byte, t int8) (n int, err error) {
	defer func() {
		if p := recover(); p != nil {
			err = errors.New("panic")
		}
	}()
	return thrift.Binary.Skip(b, t)
}

func stRead(w *TraceWriter, schema string, in []byte, seeds []int, note string) {
	if mapCountTooBig(schema, in) {
		return
	}
	v := fresh(schema)
	ok, n, panicked := false, 0, false
	gin := guardCopy(in)
	if gin == nil {
		gin = in
	}
	func() {
		old := debug.SetPanicOnFault(true)
		defer debug.SetPanicOnFault(old)
		defer func() {
			if p := recover(); p != nil {
				panicked = true
			}
		}()
		k, err := v.FastRead(gin)
		ok, n = err == nil, k
	}()
	val := Raw("{}")
	if ok {
		val = readValJSON(v, seeds)
	}
	w.Ev("st_read", "schema", schema, "note", note, "in", projectBytes(in, seeds), "ok", ok, "n", n, "val", val, "panic", panicked)
	if !ok || panicked {
		return
	}
	// the same bytes read into a USED destination (string fields hold a sentinel, Extra holds a stale entry): fields
	// present on the wire are replaced (a map is replaced, not merged into), absent ones keep what they had
	const sentinel = "\x00sentinel\x00"
	stale := func() map[string]string { return map[string]string{"\x00stale\x00": "x"} }
	onlyStale := func(m map[string]string) bool { v, has := m["\x00stale\x00"]; return len(m) == 1 && has && v == "x" }
	var u fastStruct
	switch schema {
	case "Base":
		u = &base.Base{LogID: sentinel, Caller: sentinel, Addr: sentinel, Extra: stale()}
	case "BaseResp":
		u = &base.BaseResp{StatusMessage: sentinel, Extra: stale()}
	default:
		u = thrift.NewApplicationException(0, sentinel)
	}
	ok2, n2, pan2 := false, 0, false
	func() {
		defer func() {
			if p := recover(); p != nil {
				pan2 = true
			}
		}()
		k, err := u.FastRead(in)
		ok2, n2 = err == nil, k
	}()
	val2 := Raw("{}")
	if ok2 && !pan2 {
		unsent := func(s *string) {
			if *s == sentinel {
				*s = ""
			}
		}
		switch x := u.(type) {
		case *base.Base:
			unsent(&x.LogID)
			unsent(&x.Caller)
			unsent(&x.Addr)
			if onlyStale(x.Extra) {
				x.Extra = nil
			}
		case *base.BaseResp:
			unsent(&x.StatusMessage)
			if onlyStale(x.Extra) {
				x.Extra = nil
			}
		case *thrift.ApplicationException:
			if x.Msg() == sentinel {
				u = thrift.NewApplicationException(x.TypeID(), "")
			}
		}
		val2 = readValJSON(u, seeds)
	}
	w.Ev("st_read", "schema", schema, "note", note+"-reused", "in", projectBytes(in, seeds), "ok", ok2, "n", n2, "val", val2, "panic", pan2)
	// and once more with the span-cache allocator on (strings take another allocation path)
	v3 := fresh(schema)
	ok3, n3, pan3 := false, 0, false
	func() {
		thrift.SetSpanCache(true)
		defer thrift.SetSpanCache(false)
		defer func() {
			if p := recover(); p != nil {
				pan3 = true
			}
		}()
		k, err := v3.FastRead(in)
		ok3, n3 = err == nil, k
	}()
	val3 := Raw("{}")
	if ok3 && !pan3 {
		val3 = readValJSON(v3, seeds)
	}
	w.Ev("st_read", "schema", schema, "note", note+"-spancache", "in", projectBytes(in, seeds), "ok", ok3, "n", n3, "val", val3, "panic", pan3)
	// what was decoded belongs to the caller: it adds to / deletes from every decoded map, and the same bytes are decoded
	// once more into a fresh struct - they still mean what they meant
	for _, r := range []fastStruct{v, u, v3} {
		switch x := r.(type) {
		case *base.Base:
			if x != nil && x.Extra != nil {
				x.Extra["\x00seen-by\x00"] = "caller"
				delete(x.Extra, "")
			}
		case *base.BaseResp:
			if x != nil && x.Extra != nil {
				x.Extra["\x00seen-by\x00"] = "caller"
				delete(x.Extra, "")
			}
		}
	}
	v4 := fresh(schema)
	ok4, n4, pan4 := false, 0, false
	func() {
		defer func() {
			if p := recover(); p != nil {
				pan4 = true
			}
		}()
		k, err := v4.FastRead(in)
		ok4, n4 = err == nil, k
	}()
	val4 := Raw("{}")
	if ok4 && !pan4 {
		val4 = readValJSON(v4, seeds)
	}
	w.Ev("st_read", "schema", schema, "note", note+"-after-the-caller-changed-earlier-results", "in", projectBytes(in, seeds), "ok", ok4, "n", n4, "val", val4, "panic", pan4)
}

func runStructCase(raw json.RawMessage, w *TraceWriter) {
	var c StructCase
	if err := json.Unmarshal(raw, &c); err != nil {
		panic(err)
	}
	seeds := c.seeds()
	switch c.Mode {
	case "nocopy":
		runNocopy(&c, w, seeds)
		return
	case "msg", "msgexc":
		runMsg(&c, w, seeds)
		return
	}
	if c.Perm != nil || c.Unk != nil || c.Mut != "" {
		stRead(w, c.Schema, c.handBuilt(), seeds, "handbuilt")
		return
	}
	v := c.build()
	val := c.valJSON(seeds)
	blen := v.BLength()
	var canonical []byte
	for _, api := range []string{"fastwrite", "nocopy-nil", "marshal"} {
		func() {
			defer func() {
				if p := recover(); p != nil {
					w.Ev("st_write", "schema", c.Schema, "api", api, "nilrecv", c.NilRecv, "val", val, "out", Raw(`[{"g":[0,0]}]`), "ret", -1, "blen", blen, "panic", fmt.Sprint(p))
				}
			}()
			buf := make([]byte, blen+8)
			for i := range buf {
				buf[i] = 0xA5
			}
			var n int
			switch api {
			case "fastwrite":
				switch x := v.(type) {
				case *base.Base:
					n = x.FastWrite(buf)
				case *base.BaseResp:
					n = x.FastWrite(buf)
				case *thrift.ApplicationException:
					n = x.FastWrite(buf)
				}
			case "nocopy-nil":
				n = v.FastWriteNocopy(buf, nil)
			case "marshal":
				if c.NilRecv {
					return
				}
				out := thrift.FastMarshal(v)
				copy(buf, out)
				n = len(out)
			}
			k := n
			if k < 0 || k > len(buf) {
				k = 0
			}
			canonical = append([]byte(nil), buf[:k]...)
			w.Ev("st_write", "schema", c.Schema, "api", api, "nilrecv", c.NilRecv, "val", val, "out", projectBytes(buf[:k], seeds), "ret", n, "blen", blen)
		}()
	}
	if canonical != nil {
		stRead(w, c.Schema, canonical, seeds, "roundtrip")
		// FastUnmarshal is the same reader behind the generic entry point
		if !c.NilRecv {
			f := fresh(c.Schema)
			err := thrift.FastUnmarshal(canonical, f)
			w.Ev("st_read", "schema", c.Schema, "note", "fastunmarshal", "in", projectBytes(canonical, seeds), "ok", err == nil, "n", len(canonical), "val", readValJSON(f, seeds), "panic", false)
		}
	}
}

// ---- C15: no-copy path -------------------------------------------------------

type recDirect struct {
	pieces [][]byte
	remain []int
	// failFrom: from the k-th call on (1-based; 0 = never) WriteDirect takes the piece AND reports an error (a writer
	// whose flush-side bookkeeping failed): the piece was handed over and is spliced like any other
	failFrom int
}

var errDirect = errors.New("verif: the direct writer reports an error")

func (r *recDirect) WriteDirect(b []byte, remainCap int) error {
	r.pieces = append(r.pieces, append([]byte(nil), b...))
	r.remain = append(r.remain, remainCap)
	if r.failFrom > 0 && len(r.pieces) >= r.failFrom {
		return errDirect
	}
	return nil
}

// runNocopyRaw: Binary.WriteStringNocopy / WriteBinaryNocopy called directly (schema RawStr / RawBin)
func runNocopyRaw(c *StructCase, w *TraceWriter, seeds []int) {
	val := c.S[0].Bytes()
	vj := Raw(`{"s1":` + segsOfStr(val, seeds) + `}`)
	nlarge := 0
	if len(val) >= 4096 {
		nlarge = 1
	}
	variants := [][2]int{{1, 0}, {0, 0}, {1, 1 + int(uint32(c.I)%97)}, {1, 4096}, {2, 0}}
	if len(val) > 1<<28 {
		variants = variants[:1] // (a GiB is not copied four times)
	}
	for _, hs := range variants {
		has := hs[0] >= 1
		slack := int(c.I % 7)
		// spare capacity behind the destination's length (a pooled buffer cut to size): positions count from len, never from cap
		buf := make([]byte, 4+len(val)+slack, 4+len(val)+slack+hs[1])
		for i := range buf {
			buf[i] = 0xA5
		}
		rd := &recDirect{}
		if hs[0] == 2 { // the writer takes the piece and reports an error
			rd.failFrom = 1
		}
		var nw thrift.NocopyWriter
		if has {
			nw = rd
		}
		ret, adv := 0, 0
		if c.Schema == "RawStr" {
			ret = thrift.Binary.WriteStringNocopy(buf, nw, string(val))
			adv = thrift.Binary.StringLengthNocopy(string(val))
		} else {
			ret = thrift.Binary.WriteBinaryNocopy(buf, nw, val)
			adv = thrift.Binary.BinaryLengthNocopy(val)
		}
		var ds []string
		for i, p := range rd.pieces {
			ds = append(ds, fmt.Sprintf(`{"segs":%s,"remain":%d}`, projectBytes(p, seeds), rd.remain[i]))
		}
		k := ret
		if k < 0 || k > len(buf) {
			k = 0
		}
		w.Ev("nocopy", "schema", c.Schema, "val", vj, "linear", projectBytes(buf[:k], seeds), "ret", ret, "directs", Raw("["+strings.Join(ds, ",")+"]"),
			"B", len(buf), "blen", adv, "copyret", 4+len(val), "haswriter", has, "ndirect", len(rd.pieces), "nlarge", nlarge)
	}
}

// refDirect keeps the pieces BY REFERENCE, as a real zero-copy writer does until it flushes
type refDirect struct {
	pieces [][]byte
	remain []int
}

func (r *refDirect) WriteDirect(b []byte, remainCap int) error {
	r.pieces = append(r.pieces, b)
	r.remain = append(r.remain, remainCap)
	return nil
}

// nocopyStringFromStack renders the value into a local scratch array, converts it without copying and hands the string
// to WriteStringNocopy: the writer keeps the bytes beyond this frame, so they must not live in it
//
//go:noinline
func nocopyStringFromStack(val []byte, rd *refDirect, buf []byte) int {
	var arr [16384]byte
	n := copy(arr[:], val)
	s := unsafex.BinaryToString(arr[:n])
	return thrift.Binary.WriteStringNocopy(buf, rd, s)
}

//go:noinline
func nocopyBinaryFromStack(val []byte, rd *refDirect, buf []byte) int {
	var arr [16384]byte
	n := copy(arr[:], val)
	return thrift.Binary.WriteBinaryNocopy(buf, rd, arr[:n])
}

// runNocopyStack: the value lives in the caller's frame; the pieces are looked at after that frame has returned and its
// stack has been reused (post-hoc splice, as the property has it)
func runNocopyStack(c *StructCase, w *TraceWriter, seeds []int) {
	val := c.S[0].Bytes()
	if len(val) < 4096 || len(val) > 16384 {
		return
	}
	vj := Raw(`{"s1":` + segsOfStr(val, seeds) + `}`)
	buf := make([]byte, 4+len(val))
	rd := &refDirect{}
	ret := 0
	if c.Schema == "RawStr" {
		ret = nocopyStringFromStack(val, rd, buf)
	} else {
		ret = nocopyBinaryFromStack(val, rd, buf)
	}
	useBigStack(0xEE)
	useBigStack(0xEE)
	useSomeStack(6)
	var ds []string
	for i, p := range rd.pieces {
		ds = append(ds, fmt.Sprintf(`{"segs":%s,"remain":%d}`, projectBytes(p, seeds), rd.remain[i]))
	}
	k := ret
	if k < 0 || k > len(buf) {
		k = 0
	}
	w.Ev("nocopy", "schema", c.Schema, "val", vj, "linear", projectBytes(buf[:k], seeds), "ret", ret, "directs", Raw("["+strings.Join(ds, ",")+"]"),
		"B", len(buf), "blen", 4+len(val), "copyret", 4+len(val), "haswriter", true, "ndirect", len(rd.pieces), "nlarge", 1, "how", "value-in-the-callers-frame")
}

func runNocopy(c *StructCase, w *TraceWriter, seeds []int) {
	if c.Schema == "RawStr" || c.Schema == "RawBin" {
		runNocopyRaw(c, w, seeds)
		runNocopyStack(c, w, seeds)
		return
	}
	v := c.build()
	val := c.valJSON(seeds)
	nlarge := 0
	cnt := func(s StrSpec) {
		if len(s.Bytes()) >= 4096 {
			nlarge++
		}
	}
	for _, s := range c.S {
		cnt(s)
	}
	if c.HasMap {
		for _, kv := range c.Extra {
			cnt(kv[0])
			cnt(kv[1])
		}
	}
	if c.Schema == "AppEx" {
		nlarge = 0 // ApplicationException always copies
	}
	for _, sp := range c.S {
		b := sp.Bytes()
		w.Ev("nclen", "segs", projectBytes(b, seeds), "strnc", thrift.Binary.StringLengthNocopy(string(b)), "binnc", thrift.Binary.BinaryLengthNocopy(b),
			"str", thrift.Binary.StringLength(string(b)), "bin", thrift.Binary.BinaryLength(b))
	}
	blen := v.BLength()
	copybuf := make([]byte, blen+4)
	copyret := v.FastWriteNocopy(copybuf, nil)
	// {writer?, spare capacity behind the destination's length, bytes of the destination BEHIND the struct}: the struct may
	// be a nested field of a larger message, so positions count from the end of the caller's buffer, not of the struct
	for vi, hs := range [][3]int{{1, 0, 0}, {0, 0, 0}, {1, 1 + int(uint32(c.I)%97), 0}, {1, 0, 1}, {1, 3, 9}, {1, 0, 0}, {1, 2, 0}} {
		has, spare, tailLen := hs[0] == 1, hs[1], hs[2]
		failFrom := 0
		if vi >= 5 { // the last two variants: the writer reports an error from the 1st / the last piece on
			failFrom = 1
			if vi == 6 && nlarge > 1 {
				failFrom = nlarge
			}
		}
		func() {
			defer func() {
				if p := recover(); p != nil {
					w.Ev("nocopy", "schema", c.Schema, "val", val, "linear", Raw("[]"), "ret", -1, "directs", Raw("[]"), "B", blen, "blen", blen, "copyret", copyret,
						"haswriter", has, "ndirect", -1, "nlarge", nlarge, "panic", fmt.Sprint(p))
				}
			}()
			buf := make([]byte, blen+tailLen, blen+tailLen+spare)
			for i := range buf {
				buf[i] = 0xA5
			}
			rd := &recDirect{failFrom: failFrom}
			var nw thrift.NocopyWriter
			if has {
				nw = rd
			}
			ret := v.FastWriteNocopy(buf, nw)
			var ds []string
			for i, p := range rd.pieces {
				ds = append(ds, fmt.Sprintf(`{"segs":%s,"remain":%d}`, projectBytes(p, seeds), rd.remain[i]))
			}
			k := ret
			if k < 0 || k > len(buf) {
				k = 0
			}
			w.Ev("nocopy", "schema", c.Schema, "val", val, "linear", projectBytes(buf[:k], seeds), "ret", ret, "directs", Raw("["+strings.Join(ds, ",")+"]"),
				"B", len(buf), "blen", blen, "copyret", copyret, "haswriter", has, "ndirect", len(rd.pieces), "nlarge", nlarge)
		}()
	}
}

// ---- C12: MarshalFastMsg / UnmarshalFastMsg ------------------------------------

func runMsg(c *StructCase, w *TraceWriter, seeds []int) {
	v := c.build()
	val := c.valJSON(seeds)
	method := string(c.Method.Bytes())
	mt := int32(c.Mt)
	if c.Mode == "msgexc" {
		mt = thrift.EXCEPTION
	}
	var out []byte
	var merr error
	if c.RawHex != "" {
		out = hexToBytes(c.RawHex)
	} else {
		func() {
			defer func() {
				if p := recover(); p != nil {
					merr = fmt.Errorf("panic: %v", p)
				}
			}()
			out, merr = thrift.MarshalFastMsg(method, mt, int32(c.Seq), v)
		}()
		w.Ev("msg_m", "schema", c.Schema, "method", projectBytes([]byte(method), seeds), "mt", int(mt), "seq", c.Seq, "val", val,
			"ok", merr == nil, "out", projectBytes(out, seeds))
		if merr != nil {
			return
		}
	}
	in := out
	if c.Mut != "" {
		parts := strings.Split(c.Mut, ":")
		if parts[0] == "cut" {
			if k := atoi(parts[1]); k < len(in) {
				in = in[:k]
			}
		} else if parts[0] == "set" {
			pos, x := atoi(parts[1]), atoi(parts[2])
			if pos < len(in) {
				in = append([]byte(nil), in...)
				in[pos] = byte(x)
			}
		}
	}
	// unmarshal into a struct pre-filled with sentinels: an EXCEPTION message must leave it untouched
	target := "Base"
	if c.Mode != "msgexc" {
		target = c.Schema
	}
	if target != "AppEx" && bodyMapTooBig(target, in) {
		return
	}
	dst := fresh(target)
	sentinel := "\x00sentinel\x00"
	if b, ok := dst.(*base.Base); ok {
		b.LogID, b.Caller, b.Addr = sentinel, sentinel, sentinel
	}
	var um string
	var useq int32
	var uerr error
	panicked := false
	func() {
		defer func() {
			if p := recover(); p != nil {
				panicked = true
			}
		}()
		um, useq, uerr = thrift.UnmarshalFastMsg(in, dst)
	}()
	var ae *thrift.ApplicationException
	isexc := uerr != nil && errors.As(uerr, &ae) && ae != nil
	if _, isProto := uerr.(*thrift.ProtocolException); isProto {
		isexc = false
	}
	exctid, excmsg := 0, ""
	if isexc {
		exctid, excmsg = int(ae.TypeID()), ae.Msg()
	}
	untouched := true
	if b, ok := dst.(*base.Base); ok && c.Mode == "msgexc" {
		untouched = b.LogID == sentinel && b.Caller == sentinel && b.Addr == sentinel && b.Extra == nil
	}
	uval := Raw("{}")
	if uerr == nil && !panicked {
		if b, ok := dst.(*base.Base); ok {
			// fields absent from the input keep the sentinel; the reference starts from defaults
			if b.LogID == sentinel {
				b.LogID = ""
			}
			if b.Caller == sentinel {
				b.Caller = ""
			}
			if b.Addr == sentinel {
				b.Addr = ""
			}
		}
		uval = readValJSON(dst, seeds)
	}
	w.Ev("msg_u", "schema", target, "in", projectBytes(in, seeds), "ok", uerr == nil && !panicked, "panic", panicked, "isexc", isexc,
		"exctid", exctid, "excmsg", projectBytes([]byte(excmsg), seeds), "untouched", untouched,
		"method", projectBytes([]byte(um), seeds), "seq", int(useq), "val", uval)
	// an EXCEPTION message handed to every other kind of caller struct (incl. an ApplicationException of the
	// caller's own, and nil): always a separate error value, the caller's struct keeps its contents
	if _, mt, _, _, herr := thrift.Binary.ReadMessageBegin(in); c.Mode == "msgexc" && herr == nil && mt == thrift.EXCEPTION {
		for _, tgt := range []string{"BaseResp", "AppEx", "nil"} {
			var d2 fastStruct
			var own *thrift.ApplicationException
			var resp *base.BaseResp
			switch tgt {
			case "BaseResp":
				resp = base.NewBaseResp()
				resp.StatusMessage, resp.StatusCode = sentinel, 12345
				d2 = resp
			case "AppEx":
				own = thrift.NewApplicationException(12345, sentinel)
				d2 = own
			}
			var m2 string
			var s2 int32
			var e2 error
			p2 := false
			func() {
				defer func() {
					if p := recover(); p != nil {
						p2 = true
					}
				}()
				if d2 == nil {
					m2, s2, e2 = thrift.UnmarshalFastMsg(in, nil)
				} else {
					m2, s2, e2 = thrift.UnmarshalFastMsg(in, d2)
				}
			}()
			var a2 *thrift.ApplicationException
			isexc2 := e2 != nil && errors.As(e2, &a2) && a2 != nil
			if _, isProto := e2.(*thrift.ProtocolException); isProto {
				isexc2 = false
			}
			t2, msg2 := 0, ""
			if isexc2 {
				t2, msg2 = int(a2.TypeID()), a2.Msg()
			}
			unt := true
			switch tgt {
			case "BaseResp":
				unt = resp.StatusMessage == sentinel && resp.StatusCode == 12345 && resp.Extra == nil
			case "AppEx":
				unt = a2 != own
				if isexc2 && a2 != own {
					unt = own.TypeID() == 12345 && own.Msg() == sentinel
				}
			}
			w.Ev("msg_u", "schema", tgt, "in", projectBytes(in, seeds), "ok", e2 == nil && !p2, "panic", p2, "isexc", isexc2,
				"exctid", t2, "excmsg", projectBytes([]byte(msg2), seeds), "untouched", unt,
				"method", projectBytes([]byte(m2), seeds), "seq", int(s2), "val", Raw("{}"))
		}
	}
}

func bodyMapTooBig(schema string, in []byte) bool {
	_, _, _, l, err := thrift.Binary.ReadMessageBegin(in)
	if err != nil || l > len(in) {
		return false
	}
	return mapCountTooBig(schema, in[l:])
}

func sigStruct(raw json.RawMessage, line string) string {
	why := ""
	if i := strings.Index(line, " // "); i >= 0 {
		why = line[i+4:]
	}
	var c StructCase
	json.Unmarshal(raw, &c)
	m, _, _ := strings.Cut(c.Mut, ":")
	shape := "plain"
	if c.Unk != nil {
		shape = "unknown-fields"
	} else if c.Perm != nil {
		shape = "permuted"
	}
	return fmt.Sprintf("struct/%s/%s/%s%s", why, c.Mode, shape, m)
}

func structFamily(prop string) *Family {
	return Register(&Family{Name: "struct-" + prop, Spec: "Trace_FastStructs", Cfg: "Trace_FastStructs.cfg",
		Run: runStructCase, Sig: sigStruct, Env: []string{"VPROP=" + prop}})
}

var (
	famStructC11 = structFamily("C11")
	famStructC12 = structFamily("C12")
	famStructC15 = structFamily("C15")
	famStructC03 = structFamily("C03")
)
