package main

import (
	"encoding/json"
	"errors"
	"fmt"
	"github.com/bytedance/gopkg/lang/mcache"
	"io"
	"math/rand"
	"net"
	"strings"
	"time"
	"unsafe"

	"github.com/cloudwego/gopkg/bufiox"
)

// ---------------------------------------------------------------------------
// C05 — buffered writer flushes exactly what was written, once, in order.
// Spec: BufWriter.tla (WriterImpl + WriterAbs), MC_BufWriter, Trace_BufWriter.

type WrOp struct {
	Op   string `json:"op"` // malloc | wb | flush
	N    int    `json:"n"`
	Lazy bool   `json:"lazy,omitempty"` // malloc: fill the region only just before the next Flush
}

type WrCase struct {
	Fl     string `json:"fl"` // io | bytes
	Init   int    `json:"init"`
	Cap    int    `json:"cap"`
	IsNil  bool   `json:"isnil"`
	FailAt int    `json:"failAt"` // io: the k-th sink write fails (0 = never)
	// FailCount: the byte count the failing Write reports next to its error (0 nothing, 1 half, 2 all of it): an error is
	// an error whatever the count
	FailCount int    `json:"failCount,omitempty"`
	Shuffle   int64  `json:"shuffle"`
	Ops       []WrOp `json:"ops"`
	// Sink (io): "" = a plain io.Writer; "rich" = a sink whose dynamic type also is a net.Conn and offers WriteString,
	// ReadFrom, WriteByte, Flush, Sync, Available ... (every route delivers to the same record)
	Sink string `json:"sink,omitempty"`
}

var errSink = errors.New("verif: injected sink error")

type recSink struct {
	failAt, writes int
	failCount      int      // what the failing Write reports as written: 0 = nothing, 1 = half, 2 = everything (error all the same)
	payloads       [][]byte // copies of what each Write received (current flush)
	failed         bool
}

func (s *recSink) Write(p []byte) (int, error) {
	s.writes++
	s.payloads = append(s.payloads, append([]byte(nil), p...))
	if s.failAt != 0 && s.writes == s.failAt {
		s.failed = true
		return []int{0, len(p) / 2, len(p)}[s.failCount%3], errSink
	}
	return len(p), nil
}

// richSink: what real sinks look like: a connection (net.Conn), a buffered stream, a file-like object.  Whatever route
// a writer picks because the sink offers it, the bytes that arrive are recorded in arrival order by the embedded recSink.
type richSink struct{ recSink }

func (s *richSink) Read(p []byte) (int, error)         { return 0, io.EOF }
func (s *richSink) Close() error                       { return nil }
func (s *richSink) LocalAddr() net.Addr                { return &net.UnixAddr{Name: "verif-local", Net: "unix"} }
func (s *richSink) RemoteAddr() net.Addr               { return &net.UnixAddr{Name: "verif-remote", Net: "unix"} }
func (s *richSink) SetDeadline(t time.Time) error      { return nil }
func (s *richSink) SetReadDeadline(t time.Time) error  { return nil }
func (s *richSink) SetWriteDeadline(t time.Time) error { return nil }
func (s *richSink) WriteString(x string) (int, error)  { return s.Write([]byte(x)) }
func (s *richSink) WriteByte(b byte) error             { _, err := s.Write([]byte{b}); return err }
func (s *richSink) Flush() error                       { return nil }
func (s *richSink) Sync() error                        { return nil }
func (s *richSink) Available() int                     { return 5 }
func (s *richSink) Buffered() int                      { return 0 }
func (s *richSink) Len() int                           { return 0 }
func (s *richSink) Cap() int                           { return 64 }
func (s *richSink) ReadFrom(r io.Reader) (int64, error) {
	b, err := io.ReadAll(r)
	if len(b) > 0 {
		if n, werr := s.Write(b); werr != nil {
			return int64(n), werr
		}
	}
	return int64(len(b)), err
}

var _ net.Conn = &richSink{}

func wrErrClass(err error) string {
	switch {
	case err == nil:
		return "nil"
	case errors.Is(err, errSink):
		return "SINK"
	case err.Error() == "bufiox: negative count":
		return "NEG"
	}
	return "OTHER"
}

type wrStater interface {
	VerifState() bufiox.VerifWriterState
}

func wrStateJSON(w wrStater) Raw {
	st := w.VerifState()
	return Raw(fmt.Sprintf(`{"len":%d,"cap":%d,"plens":%s,"pcaps":%s,"err":%v}`, st.Len, st.Cap, intsJSON(st.PendLens), intsJSON(st.PendCaps), st.HasErr))
}

const wrInitSeed = 250

type wrRegion struct {
	id, n, seed int
	buf         []byte
	filled      bool
}

// projectImage splits b along the expected regions (lens/seeds) and recognises each piece by content.
func projectImage(b []byte, lens, seeds []int) Raw {
	total := 0
	for _, n := range lens {
		total += n
	}
	var sb strings.Builder
	sb.WriteByte('[')
	if len(b) != total {
		if len(b) > 0 {
			sb.WriteString(string(SegOf(b, -1, -1, 0)))
			if len(b) <= litMax { // force a non-matching shape
				sb.WriteString(`,{"g":[0,0]}`)
			}
		} else {
			sb.WriteString(`{"g":[0,0]}`)
		}
		sb.WriteByte(']')
		return Raw(sb.String())
	}
	off := 0
	first := true
	for i, n := range lens {
		if n == 0 {
			continue
		}
		if !first {
			sb.WriteByte(',')
		}
		first = false
		piece := b[off : off+n]
		if isPat(piece, seeds[i], 0) {
			sb.WriteString(string(runSeg(seeds[i], 0, n)))
		} else {
			sb.WriteString(fmt.Sprintf(`{"g":[%d,%d]}`, n, i))
		}
		off += n
	}
	sb.WriteByte(']')
	return Raw(sb.String())
}

func runWrCase(raw json.RawMessage, w *TraceWriter) {
	var cs WrCase
	if err := json.Unmarshal(raw, &cs); err != nil {
		panic(err)
	}
	w.Ev("reset", "fam", "wr", "fl", cs.Fl, "init", cs.Init, "cap", cs.Cap, "isnil", cs.IsNil, "failAt", cs.FailAt, "iseed", wrInitSeed)
	total := 0
	for _, op := range cs.Ops {
		if op.N > 0 {
			total += op.N
		}
	}
	if total > 100<<20 { // a history that legitimately needs buffers beyond the pool double's safety net
		defer mcache.SetGiantLimit(mcache.SetGiantLimit(1 << 31))
	}
	var wr bufiox.Writer
	var sink *recSink
	var target []byte
	if cs.Fl == "bytes" {
		if !cs.IsNil {
			target = make([]byte, cs.Init, cs.Cap)
			PatFill(target, wrInitSeed, 0)
		}
		wr = bufiox.NewBytesWriter(&target)
	} else {
		sink = &recSink{failAt: cs.FailAt, failCount: cs.FailCount}
		switch cs.Sink {
		case "rich":
			rs := &richSink{recSink{failAt: cs.FailAt, failCount: cs.FailCount}}
			sink = &rs.recSink
			wr = bufiox.NewDefaultWriter(rs)
		default:
			wr = bufiox.NewDefaultWriter(sink)
		}
	}
	st := wr.(wrStater)
	rng := rand.New(rand.NewSource(cs.Shuffle))
	var pend []*wrRegion
	id := 0
	panicked := func(kind string) {
		if p := recover(); p != nil {
			w.Ev(kind, "n", 0, "id", 0, "e", "PANIC", "blen", 0, "m", 0, "wl", -1, "sink", Raw("[]"), "nsink", 0, "sinkerr", false,
				"touched", false, "target", Raw("[]"), "st", Raw(`{"len":-1,"cap":-1,"plens":[],"pcaps":[],"err":false}`), "panic", fmt.Sprint(p))
		}
	}
	for _, op := range cs.Ops {
		switch op.Op {
		case "malloc":
			id++
			func() {
				defer panicked("malloc")
				buf, err := wr.Malloc(op.N)
				w.Ev("malloc", "n", op.N, "id", id, "e", wrErrClass(err), "blen", len(buf), "wl", wr.WrittenLen(), "st", wrStateJSON(st))
				if err == nil {
					r := &wrRegion{id: id, n: op.N, seed: id % 250, buf: buf}
					pend = append(pend, r)
					if !op.Lazy {
						PatFill(buf, r.seed, 0)
						r.filled = true
						w.Ev("fill", "id", id, "seed", r.seed)
					}
				}
			}()
		case "wb":
			id++
			func() {
				defer panicked("wb")
				seed := id % 250
				payload := PatBytes(seed, 0, op.N)
				m, err := wr.WriteBinary(payload)
				w.Ev("wb", "n", op.N, "id", id, "seed", seed, "m", m, "e", wrErrClass(err), "wl", wr.WrittenLen(), "st", wrStateJSON(st))
				if err == nil {
					pend = append(pend, &wrRegion{id: id, n: op.N, seed: seed, filled: true})
				}
			}()
		case "flush":
			// lazy regions are filled now, in a shuffled order; some eager ones are re-filled with new content
			var lazy []*wrRegion
			for _, r := range pend {
				if !r.filled || (r.buf != nil && rng.Intn(7) == 0) {
					lazy = append(lazy, r)
				}
			}
			rng.Shuffle(len(lazy), func(i, j int) { lazy[i], lazy[j] = lazy[j], lazy[i] })
			for _, r := range lazy {
				if r.filled {
					r.seed = (r.seed + 97) % 250
				}
				PatFill(r.buf, r.seed, 0)
				r.filled = true
				w.Ev("fill", "id", r.id, "seed", r.seed)
			}
			func() {
				defer panicked("flush")
				var lens, seeds []int
				for _, r := range pend {
					lens = append(lens, r.n)
					seeds = append(seeds, r.seed)
				}
				beforePtr, beforeLen, beforeNil := sliceData(target), len(target), target == nil
				if sink != nil {
					sink.payloads = nil
					sink.failed = false
				}
				err := wr.Flush()
				nsink, sinkerr := 0, false
				sinkImg := Raw("[]")
				tgtImg := Raw("[]")
				touched := false
				if sink != nil {
					nsink = len(sink.payloads)
					sinkerr = sink.failed
					if nsink > 0 && !sinkerr {
						var all []byte
						for _, p := range sink.payloads {
							all = append(all, p...)
						}
						sinkImg = projectImage(all, lens, seeds)
					}
				} else {
					touched = sliceData(target) != beforePtr || len(target) != beforeLen || (target == nil) != beforeNil
					l2, s2 := lens, seeds
					if cs.Init > 0 && !cs.IsNil {
						l2 = append([]int{cs.Init}, lens...)
						s2 = append([]int{wrInitSeed}, seeds...)
					}
					tgtImg = projectImage(target, l2, s2)
				}
				w.Ev("flush", "e", wrErrClass(err), "wl", wr.WrittenLen(), "sink", sinkImg, "nsink", nsink, "sinkerr", sinkerr,
					"touched", touched, "target", tgtImg, "st", wrStateJSON(st))
				if err == nil {
					pend = nil
				}
			}()
		}
	}
}

func sliceData(b []byte) uintptr {
	if cap(b) == 0 {
		return 0
	}
	return uintptr(unsafe.Pointer(&b[:1][0]))
}

func sigWr(raw json.RawMessage, line string) string {
	var ev struct {
		K string `json:"k"`
		E string `json:"e"`
	}
	if i := indexOf(line, " // "); i >= 0 {
		line = line[:i]
	}
	json.Unmarshal([]byte(line), &ev)
	var cs WrCase
	json.Unmarshal(raw, &cs)
	return fmt.Sprintf("wr/%s/%s/e=%s", cs.Fl, ev.K, ev.E)
}

var famWr = Register(&Family{Name: "wr", Spec: "Trace_BufWriter", Cfg: "Trace_BufWriter.cfg", Run: runWrCase, Sig: sigWr})

func genWrCases(c *Ctx) []json.RawMessage {
	var out []json.RawMessage
	add := func(cs WrCase) {
		cs.Ops = append(cs.Ops, WrOp{Op: "flush"}) // every history ends with a Flush so that all content is judged
		out = append(out, mustJSON(cs))
	}
	sizes := []int{0, 1, 4095, 4096, 4097, 9000, 20000}
	var alpha []WrOp
	for _, n := range sizes {
		alpha = append(alpha, WrOp{Op: "malloc", N: n}, WrOp{Op: "malloc", N: n, Lazy: true}, WrOp{Op: "wb", N: n})
	}
	alpha = append(alpha, WrOp{Op: "flush"}, WrOp{Op: "malloc", N: -1})
	var seqs [][]WrOp
	for _, a := range alpha {
		seqs = append(seqs, []WrOp{a})
		for _, b := range alpha {
			seqs = append(seqs, []WrOp{a, b})
			for _, d := range alpha {
				seqs = append(seqs, []WrOp{a, b, d})
			}
		}
	}
	type ini struct {
		l, c  int
		isnil bool
	}
	inits := []ini{{0, 0, true}, {0, 0, false}, {0, 10, false}, {5, 10, false}, {10, 10, false}, {16, 16, false}, {5000, 8192, false}, {4096, 4096, false}}
	stride := c.Pick(9, 1)
	k := 0
	for _, sq := range seqs {
		for _, fa := range []int{0, 1, 2} {
			k++
			if len(sq) > 2 && k%stride != 0 {
				continue
			}
			add(WrCase{Fl: "io", FailAt: fa, FailCount: k % 3, Shuffle: int64(k), Ops: append([]WrOp(nil), sq...)})
			if fa < 2 && (len(sq) < 3 || k%(4*stride) == 0) { // the same history into a connection-like sink
				add(WrCase{Fl: "io", FailAt: fa, FailCount: k % 3, Shuffle: int64(k), Sink: "rich", Ops: append([]WrOp(nil), sq...)})
			}
		}
		for _, in := range inits {
			k++
			if len(sq) > 2 && k%stride != 0 {
				continue
			}
			add(WrCase{Fl: "bytes", Init: in.l, Cap: in.c, IsNil: in.isnil, Shuffle: int64(k), Ops: append([]WrOp(nil), sq...)})
		}
	}
	// adaptive initial size ring (max of the last 10 flushed capacities)
	for _, nsmall := range []int{8, 9, 10, 11, 12} {
		ops := []WrOp{{Op: "malloc", N: 20000}, {Op: "flush"}}
		for i := 0; i < nsmall; i++ {
			ops = append(ops, WrOp{Op: "wb", N: 10}, WrOp{Op: "flush"})
		}
		ops = append(ops, WrOp{Op: "malloc", N: 5000, Lazy: true}, WrOp{Op: "malloc", N: 1})
		k++
		add(WrCase{Fl: "io", Shuffle: int64(k), Ops: ops})
	}
	// a flush cycle that outgrows buffers of 64, 128 and 256 MiB, with regions handed out early and filled last
	{
		ops := []WrOp{{Op: "malloc", N: 100, Lazy: true}, {Op: "wb", N: 10}, {Op: "malloc", N: 4096, Lazy: true}}
		for i := 0; i < 9; i++ {
			ops = append(ops, WrOp{Op: "wb", N: 32 << 20})
			if i == 4 {
				ops = append(ops, WrOp{Op: "malloc", N: 33, Lazy: true})
			}
		}
		k++
		add(WrCase{Fl: "io", Shuffle: int64(k), Ops: ops})
	}
	rng := rand.New(rand.NewSource(c.Seed*104729 + 5))
	nrand := c.Pick(1500, 30000)
	for i := 0; i < nrand; i++ {
		cs := WrCase{Fl: "io", Shuffle: rng.Int63()}
		if rng.Intn(4) == 0 {
			cs.FailAt = 1 + rng.Intn(4)
			cs.FailCount = rng.Intn(3)
		}
		if rng.Intn(4) == 0 {
			cs.Fl = "bytes"
			cs.FailAt = 0
			in := inits[rng.Intn(len(inits))]
			if rng.Intn(2) == 0 {
				in = ini{rng.Intn(6000), 0, false}
				in.c = in.l + rng.Intn(3)*rng.Intn(5000)
			}
			cs.Init, cs.Cap, cs.IsNil = in.l, in.c, in.isnil
		}
		if cs.Fl == "io" && rng.Intn(3) == 0 {
			cs.Sink = "rich"
		}
		nops := 1 + rng.Intn(c.Pick(40, 200))
		for j := 0; j < nops; j++ {
			var op WrOp
			switch rng.Intn(8) {
			case 0, 1, 2:
				op.Op = "malloc"
			case 3:
				op.Op = "malloc"
				op.Lazy = true
			case 4, 5:
				op.Op = "wb"
			case 6:
				op.Op = "flush"
			default:
				op.Op = "malloc"
				op.Lazy = rng.Intn(2) == 0
			}
			switch rng.Intn(8) {
			case 0:
				op.N = 0
			case 1:
				op.N = 1 + rng.Intn(16)
			case 2:
				op.N = 4090 + rng.Intn(12)
			case 3:
				op.N = rng.Intn(40000)
			default:
				op.N = rng.Intn(3000)
			}
			if op.Op == "malloc" && rng.Intn(80) == 0 {
				op.N = -1
			}
			cs.Ops = append(cs.Ops, op)
		}
		add(cs)
	}
	return out
}

func checkC05(c *Ctx) {
	c.rule = "MC: every behaviour of WriterImpl within the cfg bounds keeps the stitching invariants (windows tile, every region in its own window, regions contiguous in order) and the C05 contract, and is a behaviour of the integer core for each tracked region (RefinesCore). APALACHE: the core's invariants (the tracked region lies in the stitch window of its own buffer, offsets are the running sum, WrittenLen = pending, sticky errors) are inductive for regions, buffers and histories of any size and length. TRACE: one case = (writer flavour, initial target shape or failing sink write k, history of Malloc/WriteBinary/Flush with eager/lazy/re-filled regions); exhaustive histories <= 3 ops over a boundary-valued alphabet (+final Flush) and seeded random histories; sink bytes are projected onto per-region pattern runs and judged by TLC against WriterAbs; hook state is judged against WriterImpl. Sinks: plain io.Writers and sinks whose dynamic type also is a net.Conn offering WriteString / ReadFrom / WriteByte / Flush / Sync / Available / Len (every route recorded in arrival order). One flush cycle of 288 MiB outgrows buffers of 64, 128 and 256 MiB with regions handed out early and filled last."
	if c.Thorough() {
		c.MC("MC_BufWriter.tla", "MC_BufWriter_thorough.cfg", 12)
	} else {
		c.MC("MC_BufWriter.tla", "MC_BufWriter_quick.cfg", 8)
	}
	// unbounded sizes and histories: the integer core of the writer (Ind_BufWriter.tla; MC_BufWriter checks RefinesCore = every
	// step of the detailed model is a step of the core, for each choice of the tracked region) keeps "the region lies in
	// the stitch window of its own buffer", "offsets are the running sum", WrittenLen and sticky errors for regions,
	// buffers and histories of ANY size and length (Apalache, inductive invariant)
	c.Apalache("Ind_BufWriter.tla", "base: Init => IndInv", false, "--cinit=ConstInit", "--init=Init", "--next=Next", "--inv=IndInv", "--length=0")
	c.Apalache("Ind_BufWriter.tla", "step: IndInv /\\ Next => IndInv'", false, "--cinit=ConstInit", "--init=IndInit", "--next=Next", "--inv=IndInv", "--length=1")
	c.Apalache("Ind_BufWriter.tla", "negative control: growth that forgets where the parked buffer ended breaks the step", true, "--cinit=ConstInitNeg", "--init=IndInit", "--next=Next", "--inv=IndInv", "--length=1")
	if c.Thorough() {
		for _, pr := range []string{"ProbeNeverParked", "ProbeNeverFailed", "ProbeNeverTwoParks"} {
			c.Apalache("Ind_BufWriter.tla", "non-vacuity probe "+pr, true, "--cinit=ConstInit", "--init=IndInit", "--next=Next", "--inv="+pr, "--length=0")
		}
	}
	c.TraceCheck(famWr, genWrCases(c))
	c.Assume("the recording sink and the per-region pattern recogniser (harness c05.go/pat.go) are correct; TLC evaluates the contract")
	c.Assume("a second flush cycle of a bytes-backed writer is judged only for errors and WrittenLen (the property states the target only for the first)")
}

func init() { checks["C05"] = checkC05 }
