package main

import (
	"encoding/binary"
	"encoding/json"
	"fmt"
	"math"
	"math/rand"
	"runtime/debug"
	"strings"

	"github.com/cloudwego/gopkg/protocol/thrift"
	uf "github.com/cloudwego/gopkg/protocol/thrift/unknownfields"
)

// ---------------------------------------------------------------------------
// C13 — unknown-field trees against UnknownFields.tla.

type UFCase struct {
	Mode  string `json:"mode"` // bytes (generated field sequence -> convert -> write) | tree (generated Go tree -> write -> convert)
	Seed  int64  `json:"seed"`
	N     int    `json:"n"` // number of top-level fields
	Depth int    `json:"depth"`
	Big   bool   `json:"big,omitempty"`
	Mut   string `json:"mut,omitempty"`
	Refl  bool   `json:"refl,omitempty"` // go through GetUnknownFields (reflection wrapper)
}

type withUnknown struct {
	A              int
	_unknownFields []byte
}

// the shapes in which a Go value can carry `_unknownFields` (reflect's FieldByName finds promoted fields too): a
// generated struct embedded by value / by pointer / two levels deep in a wrapper, handed over by pointer or by value
type wrapEmbedVal struct {
	B string
	withUnknown
}
type wrapEmbedPtr struct {
	*withUnknown
	C int
}
type wrapEmbedDeep struct {
	D int
	wrapEmbedVal
}

func ufHolders(b []byte) []interface{} {
	g := withUnknown{A: 1, _unknownFields: b}
	return []interface{}{&g, g, &wrapEmbedVal{"x", g}, wrapEmbedVal{"x", g}, &wrapEmbedPtr{&g, 2}, wrapEmbedPtr{&g, 2}, &wrapEmbedDeep{3, wrapEmbedVal{"y", g}}}
}

func ufTreeJSON(fs []uf.UnknownField, seeds []int) string {
	var sb strings.Builder
	sb.WriteByte('[')
	for i, f := range fs {
		if i > 0 {
			sb.WriteByte(',')
		}
		// a node whose Go value does not have the dynamic type its tag promises (a lost / nil / foreign Value) is projected
		// with the impossible tag -999: it can equal no node of the reference tree, and TLC never looks into its value
		if !ufValueMatches(&f) {
			fmt.Fprintf(&sb, `{"id":%d,"t":-999,"kt":%d,"vt":%d,"v":{"unknown":true}}`, f.ID, f.KeyType, f.ValType)
			continue
		}
		fmt.Fprintf(&sb, `{"id":%d,"t":%d,"kt":%d,"vt":%d,"v":`, f.ID, f.Type, f.KeyType, f.ValType)
		switch v := f.Value.(type) {
		case bool:
			fmt.Fprintf(&sb, `{"b":%v}`, v)
		case int8:
			fmt.Fprintf(&sb, `{"i":%d}`, v)
		case int16:
			fmt.Fprintf(&sb, `{"i":%d}`, v)
		case int32:
			fmt.Fprintf(&sb, `{"i":%d}`, v)
		case int64:
			fmt.Fprintf(&sb, `{"lanes":%s}`, intsJSON(lanes64(uint64(v))))
		case float64:
			fmt.Fprintf(&sb, `{"lanes":%s}`, intsJSON(lanes64(math.Float64bits(v))))
		case string:
			fmt.Fprintf(&sb, `{"segs":%s}`, projectBytes([]byte(v), seeds))
		case []uf.UnknownField:
			key := "elems"
			if f.Type == thrift.MAP {
				key = "kv"
			} else if f.Type == thrift.STRUCT {
				key = "fields"
			}
			fmt.Fprintf(&sb, `{"%s":%s}`, key, ufTreeJSON(v, seeds))
		default:
			sb.WriteString(`{"unknown":true}`)
		}
		sb.WriteByte('}')
	}
	sb.WriteByte(']')
	return sb.String()
}

func ufValueMatches(f *uf.UnknownField) bool {
	switch f.Type {
	case thrift.BOOL:
		_, ok := f.Value.(bool)
		return ok
	case thrift.BYTE:
		_, ok := f.Value.(int8)
		return ok
	case thrift.I16:
		_, ok := f.Value.(int16)
		return ok
	case thrift.I32:
		_, ok := f.Value.(int32)
		return ok
	case thrift.I64:
		_, ok := f.Value.(int64)
		return ok
	case thrift.DOUBLE:
		_, ok := f.Value.(float64)
		return ok
	case thrift.STRING:
		_, ok := f.Value.(string)
		return ok
	case thrift.LIST, thrift.SET, thrift.MAP, thrift.STRUCT:
		_, ok := f.Value.([]uf.UnknownField)
		return ok
	}
	return false
}

// ufCountMax: safety device — conversion allocates a slice of the declared element count.
func ufCountMax(b []byte) int64 {
	var mx int64
	var val func(i int, t int8, depth int) int
	fields := func(i int, top bool, depth int) int {
		for {
			if i >= len(b) {
				if top {
					return i
				}
				return -1
			}
			t := int8(b[i])
			if t == 0 {
				if top {
					return -1
				}
				return i + 1
			}
			if i+3 > len(b) {
				return -1
			}
			i = val(i+3, t, depth-1)
			if i < 0 {
				return -1
			}
		}
	}
	val = func(i int, t int8, depth int) int {
		if depth <= 0 || i < 0 {
			return -1
		}
		if n := fixedSize(t); n > 0 {
			if i+n > len(b) {
				return -1
			}
			return i + n
		}
		cnt := func(i int) int64 {
			if i+4 > len(b) {
				return -1
			}
			c := int64(binary.BigEndian.Uint32(b[i:]))
			if c > mx {
				mx = c
			}
			return c
		}
		switch t {
		case 11:
			if i+4 > len(b) {
				return -1
			}
			n := int64(int32(binary.BigEndian.Uint32(b[i:])))
			if n < 0 || int64(i)+4+n > int64(len(b)) {
				return -1
			}
			return i + 4 + int(n)
		case 14, 15:
			if i+5 > len(b) {
				return -1
			}
			c := cnt(i + 1)
			if c > 1<<16 {
				return -1
			}
			j := i + 5
			for k := int64(0); k < c; k++ {
				if j = val(j, int8(b[i]), depth-1); j < 0 {
					return -1
				}
			}
			return j
		case 13:
			if i+6 > len(b) {
				return -1
			}
			c := cnt(i + 2)
			if c > 1<<16 {
				return -1
			}
			j := i + 6
			for k := int64(0); k < c; k++ {
				if j = val(j, int8(b[i]), depth-1); j < 0 {
					return -1
				}
				if j = val(j, int8(b[i+1]), depth-1); j < 0 {
					return -1
				}
			}
			return j
		case 12:
			return fields(i, false, depth)
		}
		return -1
	}
	fields(0, true, 200)
	return mx
}

func genUFTree(rng *rand.Rand, n, depth int, seedCtr *int) []uf.UnknownField {
	var val func(t int8, depth int) (interface{}, int8, int8)
	pick := func(depth int) int8 {
		if depth <= 0 {
			return []int8{2, 3, 4, 6, 8, 10, 11}[rng.Intn(7)]
		}
		return allTypes[rng.Intn(len(allTypes))]
	}
	val = func(t int8, depth int) (interface{}, int8, int8) {
		switch t {
		case 2:
			return rng.Intn(2) == 0, 0, 0
		case 3:
			return int8(rng.Intn(256)), 0, 0
		case 6:
			return int16(rng.Intn(65536)), 0, 0
		case 8:
			return int32(rng.Uint32()), 0, 0
		case 10:
			return int64(rng.Uint64()), 0, 0
		case 4:
			return math.Float64frombits(rng.Uint64()), 0, 0
		case 11:
			*seedCtr++
			n := rng.Intn(30)
			if rng.Intn(12) == 0 {
				n = 4090 + rng.Intn(12)
			}
			return string(PatBytes(*seedCtr%250, 0, n)), 0, 0
		case 14, 15:
			et := pick(depth - 1)
			cnt := rng.Intn(4)
			els := make([]uf.UnknownField, cnt)
			for i := range els {
				v, kt, vt := val(et, depth-1)
				els[i] = uf.UnknownField{ID: int16(i), Type: et, KeyType: kt, ValType: vt, Value: v}
			}
			return els, 0, et
		case 13:
			kt, vt := pick(depth-1), pick(depth-1)
			cnt := rng.Intn(3)
			els := make([]uf.UnknownField, 0, 2*cnt)
			for i := 0; i < cnt; i++ {
				v, a, b := val(kt, depth-1)
				els = append(els, uf.UnknownField{ID: int16(i), Type: kt, KeyType: a, ValType: b, Value: v})
				v, a, b = val(vt, depth-1)
				els = append(els, uf.UnknownField{ID: int16(i), Type: vt, KeyType: a, ValType: b, Value: v})
			}
			return els, kt, vt
		default: // struct
			cnt := rng.Intn(4)
			var fs []uf.UnknownField
			for i := 0; i < cnt; i++ {
				ft := pick(depth - 1)
				v, a, b := val(ft, depth-1)
				fs = append(fs, uf.UnknownField{ID: int16(rng.Intn(65536)), Type: ft, KeyType: a, ValType: b, Value: v})
			}
			return fs, 0, 0
		}
	}
	var out []uf.UnknownField
	for i := 0; i < n; i++ {
		t := allTypes[rng.Intn(len(allTypes))]
		v, kt, vt := val(t, depth)
		out = append(out, uf.UnknownField{ID: int16(rng.Intn(65536)), Type: t, KeyType: kt, ValType: vt, Value: v})
	}
	return out
}

func allSeeds() []int {
	s := make([]int, 250)
	for i := range s {
		s[i] = i
	}
	return s
}

func runUFCase(raw json.RawMessage, w *TraceWriter) {
	var c UFCase
	if err := json.Unmarshal(raw, &c); err != nil {
		panic(err)
	}
	rng := rand.New(rand.NewSource(c.Seed))
	seeds := allSeeds()
	conv := func(in []byte, api string) ([]uf.UnknownField, bool) {
		if ufCountMax(in) > 1<<16 {
			return nil, false
		}
		var fs []uf.UnknownField
		var err error
		panicked := false
		gin := guardCopy(in)
		if gin == nil {
			gin = in
		}
		func() {
			old := debug.SetPanicOnFault(true)
			defer debug.SetPanicOnFault(old)
			defer func() {
				if p := recover(); p != nil {
					panicked = true
				}
			}()
			if api == "get" {
				hs := ufHolders(gin)
				fs, err = uf.GetUnknownFields(hs[len(in)%len(hs)])
			} else {
				fs, err = uf.ConvertUnknownFields(gin)
			}
		}()
		ok := err == nil && !panicked
		tree := "[]"
		if ok {
			tree = ufTreeJSON(fs, seeds)
		}
		w.Ev("uf_conv", "api", api, "in", projectBytes(in, seeds), "ok", ok, "tree", Raw(tree), "panic", panicked)
		// once more with the span-cache allocator on (string leaves take another allocation path)
		func() {
			thrift.SetSpanCache(true)
			defer thrift.SetSpanCache(false)
			var fs2 []uf.UnknownField
			var err2 error
			pan2 := false
			func() {
				defer func() {
					if p := recover(); p != nil {
						pan2 = true
					}
				}()
				fs2, err2 = uf.ConvertUnknownFields(in)
			}()
			ok2 := err2 == nil && !pan2
			tree2 := "[]"
			if ok2 {
				tree2 = ufTreeJSON(fs2, seeds)
			}
			w.Ev("uf_conv", "api", "convert-spancache", "in", projectBytes(in, seeds), "ok", ok2, "tree", Raw(tree2), "panic", pan2)
		}()
		return fs, ok
	}
	write := func(fs []uf.UnknownField) []byte {
		ln, lerr := uf.UnknownFieldsLength(fs)
		if lerr != nil || ln < 0 {
			w.Ev("uf_write", "api", "write", "tree", Raw(ufTreeJSON(fs, seeds)), "out", Raw("[]"), "ret", -1, "len", ln, "ok", false)
			return nil
		}
		buf := make([]byte, ln+8)
		var n int
		var err error
		func() {
			defer func() {
				if p := recover(); p != nil {
					err = fmt.Errorf("panic %v", p)
				}
			}()
			n, err = uf.WriteUnknownFields(buf, fs)
		}()
		k := n
		if k < 0 || k > len(buf) {
			k = 0
		}
		w.Ev("uf_write", "api", "write", "tree", Raw(ufTreeJSON(fs, seeds)), "out", projectBytes(buf[:k], seeds), "ret", n, "len", ln, "ok", err == nil)
		return buf[:k]
	}
	api := "convert"
	if c.Refl {
		api = "get"
	}
	switch c.Mode {
	case "bytes":
		s := &SegBuf{}
		vg := &valGen{rng: rng, budget: 4 + c.N*6, bigStr: c.Big}
		for i := 0; i < c.N; i++ {
			t := allTypes[rng.Intn(len(allTypes))]
			id := rng.Intn(65536)
			s.Struct(byte(t), byte(id>>8), byte(id))
			vg.Value(s, t, c.Depth)
		}
		in := s.b
		if c.Mut != "" {
			parts := strings.Split(c.Mut, ":")
			if parts[0] == "cut" {
				if k := atoi(parts[1]); k < len(in) {
					in = in[:k]
				}
			} else if parts[0] == "set" {
				if pos := atoi(parts[1]); pos < len(in) {
					in = append([]byte(nil), in...)
					in[pos] = byte(atoi(parts[2]))
				}
			}
		}
		if fs, ok := conv(in, api); ok && c.Mut == "" {
			write(fs)
		}
	case "tree":
		ctr := int(c.Seed % 200)
		fs := genUFTree(rng, c.N, c.Depth, &ctr)
		if out := write(fs); out != nil {
			conv(out, api)
		}
		// a tree built by hand may SHARE sub-trees: the same element slice under two nodes, two prefixes of one slice, the
		// same tree written twice - it is still a tree of values, written and measured like any other
		if len(fs) > 0 {
			row := []uf.UnknownField{{Type: thrift.I16, Value: int16(7)}, {Type: thrift.I16, Value: int16(8)}, {Type: thrift.I16, Value: int16(9)}}
			fields := []uf.UnknownField{{ID: 1, Type: thrift.I32, Value: int32(5)}, {ID: 2, Type: thrift.STRING, Value: "dflt"}}
			shared := []uf.UnknownField{
				{ID: 30000, Type: thrift.LIST, ValType: thrift.LIST, Value: []uf.UnknownField{
					{Type: thrift.LIST, ValType: thrift.I16, Value: row}, {Type: thrift.LIST, ValType: thrift.I16, Value: row}, {Type: thrift.LIST, ValType: thrift.I16, Value: row[:2]}}},
				{ID: 30001, Type: thrift.STRUCT, Value: fields},
				{ID: 30002, Type: thrift.STRUCT, Value: fields},
				{ID: 30003, Type: thrift.MAP, KeyType: thrift.STRING, ValType: thrift.STRUCT, Value: []uf.UnknownField{
					{Type: thrift.STRING, Value: "a"}, {Type: thrift.STRUCT, Value: fields}, {Type: thrift.STRING, Value: "b"}, {Type: thrift.STRUCT, Value: fields[:1]}}},
			}
			shared = append(shared, fs[0], fs[0]) // the first generated field twice (ids repeat: legal on the wire)
			for rep := 0; rep < 2; rep++ {
				if out := write(shared); out != nil && rep == 0 {
					conv(out, api)
				}
			}
		}
	case "wide":
		// many fields in flight: a struct with N scalar fields, then a nested struct with Depth*50 fields (itself holding a
		// list of structs), then more fields - converted twice in a row (a converter that keeps scratch state between calls)
		s := &SegBuf{}
		s.Struct(12, 0, 1)
		for i := 0; i < c.N; i++ {
			s.Struct(8, byte((i+1)>>8), byte(i+1))
			s.Lit(0, 0, byte(i>>8), byte(i))
		}
		s.Struct(12, 0x75, 0x31)
		for i := 0; i < c.Depth*50; i++ {
			s.Struct(6, byte((i+1)>>8), byte(i+1))
			s.Lit(byte(i>>8), byte(i))
		}
		s.Struct(15, 0x7f, 0x00)
		s.Lit(12)
		s.Size4(2)
		s.Struct(11, 0, 1)
		s.Size4(2)
		s.Lit('h', 'i')
		s.Struct(0)
		s.Struct(0)
		s.Struct(0)
		s.Struct(10, 0x75, 0x32)
		s.Lit(1, 2, 3, 4, 5, 6, 7, 8)
		s.Struct(0)
		s.Struct(8, 0, 2)
		s.Lit(0, 0, 0, 9)
		for rep := 0; rep < 2; rep++ {
			if fs, ok := conv(s.b, api); ok && rep == 0 {
				write(fs)
			}
		}
	case "deep":
		// nesting far beyond the skippers' recursion limit of 64: the converter has no such limit, a deep tree is a tree
		pats := []string{"l", "t", "s", "v", "k", "sl", "lv", "slvkt"}
		pat := ""
		for len(pat) < c.N {
			pat += pats[c.Depth%len(pats)]
		}
		body, top := nestMixed(pat[:c.N])
		in := append([]byte{byte(top), 0, 9}, body.b...)
		in = append(in, 8, 0, 10, 0, 0, 0, 1)
		if fs, ok := conv(in, api); ok {
			write(fs)
		}
	case "badtree":
		// a well-typed tree with ONE node whose type tag is not a Thrift type, at a random position (top level, list /
		// set element, map key or value, struct field, any depth): both the length function and the writer refuse it
		ctr := int(c.Seed % 200)
		fs := genUFTree(rng, c.N, c.Depth, &ctr)
		goodLen, _ := uf.UnknownFieldsLength(fs)
		var nodes []*uf.UnknownField
		var walk func(fs []uf.UnknownField)
		walk = func(fs []uf.UnknownField) {
			for i := range fs {
				nodes = append(nodes, &fs[i])
				if sub, ok := fs[i].Value.([]uf.UnknownField); ok {
					walk(sub)
				}
			}
		}
		walk(fs)
		victim := nodes[rng.Intn(len(nodes))]
		depthOf := 0
		victim.Type = thrift.TType([]int8{0, 1, 5, 7, 9, 16, 17, 99, -1, -128}[rng.Intn(10)])
		lenok, writeok, panicked := false, false, false
		func() {
			defer func() {
				if p := recover(); p != nil {
					panicked = true
				}
			}()
			_, lerr := uf.UnknownFieldsLength(fs)
			lenok = lerr == nil
			_, werr := uf.WriteUnknownFields(make([]byte, goodLen+64), fs)
			writeok = werr == nil
		}()
		w.Ev("uf_bad", "api", "badtree", "nodes", len(nodes), "depth", depthOf, "badtype", int(victim.Type), "lenok", lenok, "writeok", writeok, "panic", panicked)
	case "badget":
		// GetUnknownFields on things that hold no unknown fields: an error, never a panic
		for _, v := range []struct {
			name string
			v    interface{}
		}{{"int", 7}, {"nilptr", (*withUnknown)(nil)}, {"nofield", &struct{ A int }{1}}, {"string", "s"}, {"nil", nil}} {
			ok, panicked := false, false
			func() {
				defer func() {
					if p := recover(); p != nil {
						panicked = true
					}
				}()
				_, err := uf.GetUnknownFields(v.v)
				ok = err == nil
			}()
			w.Ev("uf_bad", "api", "badget-"+v.name, "nodes", 0, "depth", 0, "badtype", 0, "lenok", ok, "writeok", ok, "panic", panicked)
		}
	}
}

func sigUF(raw json.RawMessage, line string) string {
	why := ""
	if i := strings.Index(line, " // "); i >= 0 {
		why = line[i+4:]
	}
	var c UFCase
	json.Unmarshal(raw, &c)
	m, _, _ := strings.Cut(c.Mut, ":")
	return fmt.Sprintf("uf/%s/%s/%s", why, c.Mode, m)
}

func ufFamily(prop string) *Family {
	return Register(&Family{Name: "uf-" + prop, Spec: "Trace_UnknownFields", Cfg: "Trace_UnknownFields.cfg",
		Run: runUFCase, Sig: sigUF, Env: []string{"VPROP=" + prop}})
}

var (
	famUFC13 = ufFamily("C13")
	famUFC03 = ufFamily("C03")
)

func ufCases(c *Ctx, n int, hostile bool) []json.RawMessage {
	var out []json.RawMessage
	rng := rand.New(rand.NewSource(c.Seed*22801763489 + 13))
	for i := 0; i < n; i++ {
		u := UFCase{Mode: []string{"bytes", "tree"}[i%2], Seed: rng.Int63(), N: 1 + rng.Intn(4), Depth: 1 + rng.Intn(4), Big: rng.Intn(8) == 0, Refl: i%5 == 0}
		if hostile {
			u.Mode = "bytes"
			if rng.Intn(2) == 0 {
				u.Mut = "cut:" + itoa(rng.Intn(80))
			} else {
				u.Mut = "set:" + itoa(rng.Intn(60)) + ":" + itoa([]int{0, 1, 0x7f, 0x80, 0xff, 11, 12, 13, 15, 2}[rng.Intn(10)])
			}
		}
		out = append(out, mustJSON(u))
	}
	if !hostile {
		for i := 0; i < n/10+5; i++ {
			out = append(out, mustJSON(UFCase{Mode: "badtree", Seed: rng.Int63(), N: 1 + rng.Intn(3), Depth: 1 + rng.Intn(4)}))
		}
		out = append(out, mustJSON(UFCase{Mode: "badget"}))
		for _, n := range []int{1, 8, 32, 62, 63, 64, 65, 66, 70, 78} { // (the JSON reader of the trace allows 255 nested brackets: 3 per tree level)
			for d := 0; d < 8; d++ {
				out = append(out, mustJSON(UFCase{Mode: "deep", N: n, Depth: d, Refl: (n+d)%5 == 0}))
			}
		}
		// (sizes kept where TLC's recursive reference stays fast: about 400 fields in total)
		for _, n := range []int{0, 1, 31, 32, 33, 62, 63, 64, 65, 100, 126, 127, 128, 129, 200, 255, 256, 257} {
			for _, d := range []int{1, 2, 3} {
				out = append(out, mustJSON(UFCase{Mode: "wide", N: n, Depth: d, Refl: (n+d)%4 == 0}))
			}
		}
	}
	return out
}

func checkC13(c *Ctx) {
	c.rule = "MC: over all well-typed trees within bounds (every type at the top level and as element/key/value type of the first container level, reduced alphabet below, 0..2 elements, two fields after one another inside a struct) ToTree(ToBytes(t)) = t, ToBytes(ToTree(b)) = b, TreeLen = length, tags only where meaningful. TRACE: random field sequences from the typed value generator -> ConvertUnknownFields / GetUnknownFields -> WriteUnknownFields / UnknownFieldsLength, random Go trees -> write -> convert, and trees nested 1..78 levels deep in pure and mixed chains, wide structs (0..257 fields in flight around every power of two, a nested struct of 50..150 fields behind them, converted twice in a row); TLC compares every tree field by field (ID, Type, KeyType, ValType, Value) with ToTree and every output with ToBytes; truncated and perturbed inputs are accepted exactly when the reference accepts them; trees with one node of a non-Thrift type at any position are refused by the length function and the writer, values without unknown fields by GetUnknownFields (an error, never a panic). BIG COLLECTIONS (Go monitor; the expectation is computed in Go from the data that was encoded, because TLC's map comparison is quadratic): unknown-field maps / lists / sets of 255..131073 entries, structs and field sequences to 32767 fields: every node, length and write-back. GetUnknownFields is called on every holder shape in turn: a struct declaring the field, by pointer and by value, embedded by value / by pointer / two levels deep in a wrapper. Lists and maps up to 2^21 slots. Hand-built trees sharing sub-trees between nodes, written twice."
	c.MC("MC_UnknownFields.tla", "MC_UnknownFields.cfg", 4)
	cases := ufCases(c, c.Pick(1500, 30000), false)
	// truncated / perturbed inputs: accepted exactly when the reference accepts them (a converter that swallows a
	// cut input returns a tree that lost what was cut off), incl. every cut point of small inputs
	cases = append(cases, ufCases(c, c.Pick(600, 10000), true)...)
	for k := 0; k <= 12; k++ {
		for sd := int64(1); sd <= 6; sd++ {
			cases = append(cases, mustJSON(UFCase{Mode: "bytes", Seed: sd*7919 + c.Seed, N: 1 + int(sd)%3, Depth: 1 + int(sd)%3, Mut: "cut:" + itoa(k), Refl: sd%2 == 0}))
		}
	}
	c.TraceCheck(famUFC13, cases)
	bigUnknownMonitor(c)
	c.Assume("doubles are compared by bit pattern (lanes); element ids are positional as the code assigns them")
}

func init() { checks["C13"] = checkC13 }
