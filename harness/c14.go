package main

import (
	"bytes"
	"context"
	"encoding/json"
	"errors"
	"fmt"
	uf "github.com/cloudwego/gopkg/protocol/thrift/unknownfields"
	"github.com/cloudwego/gopkg/unsafex"
	"io"
	"math/rand"
	"os"
	"os/exec"
	"path/filepath"
	"reflect"
	"strings"
	"sync"
	"sync/atomic"
	"time"
	"unsafe"

	"github.com/cloudwego/gopkg/bufiox"
	"github.com/cloudwego/gopkg/container/strmap"
	"github.com/cloudwego/gopkg/protocol/thrift"
	"github.com/cloudwego/gopkg/protocol/thrift/apache"
	"github.com/cloudwego/gopkg/protocol/thrift/base"
	"github.com/cloudwego/gopkg/protocol/ttheader"
)

// ---------------------------------------------------------------------------
// C14 — concurrent use: separate instances are isolated; maps are safe to read (Concurrency.tla).

type ConcCase struct {
	G      int   `json:"g"`
	Cycles int   `json:"cycles"`
	Seed   int64 `json:"seed"`
}

// lockedLog serialises events of all goroutines: the order of the log is the order of its mutex.
type lockedLog struct {
	mu   sync.Mutex
	w    *TraceWriter
	ids  map[uintptr]int
	next int
	bad  int64
}

func (l *lockedLog) obj(p unsafe.Pointer) int {
	id, ok := l.ids[uintptr(p)]
	if !ok {
		l.next++
		id = l.next
		l.ids[uintptr(p)] = id
	}
	return id
}
func (l *lockedLog) acq(g int, typ string, p unsafe.Pointer) {
	if l.w == nil {
		return
	}
	l.mu.Lock()
	l.w.Ev("acq", "g", g, "typ", typ, "obj", l.obj(p))
	l.mu.Unlock()
}
func (l *lockedLog) rel(g int, typ string, p unsafe.Pointer) {
	if l.w == nil {
		return
	}
	l.mu.Lock()
	l.w.Ev("rel", "g", g, "typ", typ, "obj", l.obj(p))
	l.mu.Unlock()
}
func (l *lockedLog) check(g int, what string, ok bool) {
	if !ok {
		atomic.AddInt64(&l.bad, 1)
	}
	if l.w == nil {
		if !ok {
			fmt.Printf("SELFCHECK-FAILED g=%d %s\n", g, what)
		}
		return
	}
	if ok && what != "cycle" {
		return // only failures and one summary per cycle are logged
	}
	l.mu.Lock()
	l.w.Ev("selfcheck", "g", g, "what", what, "ok", ok)
	l.mu.Unlock()
}

func encodeVals(g, round int, rng *rand.Rand) ([]byte, []int) {
	var data []byte
	var lens []int
	n := 1 + rng.Intn(5)
	for i := 0; i < n; i++ {
		l := []int{0, 3, 40, 500, 4090, 5000}[rng.Intn(6)]
		lens = append(lens, l)
		data = append(data, byte(l>>24), byte(l>>16), byte(l>>8), byte(l))
		data = append(data, PatBytes(g*7+round, i*13, l)...)
	}
	return data, lens
}

func stressWorker(g int, cycles int, seed int64, lg *lockedLog, shared *strmap.StrMap[int], ref map[string]int, keys []string) {
	rng := rand.New(rand.NewSource(seed + int64(g)*7919))
	for c := 0; c < cycles; c++ {
		ok := true
		data, lens := encodeVals(g, c, rng)
		switch rng.Intn(12) {
		case 0: // BufferReader over a bytes reader / stream reader
			var rd bufiox.Reader
			if rng.Intn(2) == 0 {
				rd = bufiox.NewBytesReader(data)
			} else {
				rd = bufiox.NewDefaultReader(&dataSource{data: data, chunks: []int{1 + rng.Intn(3000)}})
			}
			br := thrift.NewBufferReader(rd)
			lg.acq(g, "BufferReader", unsafe.Pointer(br))
			for i, l := range lens {
				s, err := br.ReadString()
				if err != nil || s != string(PatBytes(g*7+c, i*13, l)) {
					ok = false
				}
			}
			lg.rel(g, "BufferReader", unsafe.Pointer(br))
			br.Recycle()
			rd.Release(nil)
		case 1: // BufferWriter over a stream writer
			sink := &recSink{}
			bw := bufiox.NewDefaultWriter(sink)
			tw := thrift.NewBufferWriter(bw)
			lg.acq(g, "BufferWriter", unsafe.Pointer(tw))
			for i, l := range lens {
				if tw.WriteBinary(PatBytes(g*7+c, i*13, l)) != nil {
					ok = false
				}
			}
			lg.rel(g, "BufferWriter", unsafe.Pointer(tw))
			tw.Recycle()
			if bw.Flush() != nil {
				ok = false
			}
			var all []byte
			for _, p := range sink.payloads {
				all = append(all, p...)
			}
			if !bytes.Equal(all, data) {
				ok = false
			}
		case 2: // SkipDecoder over a bufiox reader
			rd := bufiox.NewDefaultReader(&dataSource{data: data, chunks: []int{1 + rng.Intn(5000)}})
			d := thrift.NewSkipDecoder(rd)
			lg.acq(g, "SkipDecoder", unsafe.Pointer(d))
			off := 0
			for _, l := range lens {
				b, err := d.Next(thrift.STRING)
				if err != nil || !bytes.Equal(b, data[off:off+4+l]) {
					ok = false
				}
				off += 4 + l
			}
			lg.rel(g, "SkipDecoder", unsafe.Pointer(d))
			d.Release()
			rd.Release(nil)
		case 3: // BytesSkipDecoder
			d := thrift.NewBytesSkipDecoder(data)
			lg.acq(g, "BytesSkipDecoder", unsafe.Pointer(d))
			off := 0
			for _, l := range lens {
				b, err := d.Next(thrift.STRING)
				if err != nil || !bytes.Equal(b, data[off:off+4+l]) {
					ok = false
				}
				off += 4 + l
			}
			lg.rel(g, "BytesSkipDecoder", unsafe.Pointer(d))
			d.Release()
		case 4: // ReaderSkipDecoder
			d := thrift.NewReaderSkipDecoder(&dataSource{data: data, chunks: []int{1 + rng.Intn(5000)}})
			lg.acq(g, "ReaderSkipDecoder", unsafe.Pointer(d))
			off := 0
			for _, l := range lens {
				b, err := d.Next(thrift.STRING)
				if err != nil || !bytes.Equal(b, data[off:off+4+l]) {
					ok = false
				}
				off += 4 + l
			}
			lg.rel(g, "ReaderSkipDecoder", unsafe.Pointer(d))
			d.Release()
		case 5: // header codec
			p := ttheader.EncodeParam{Flags: ttheader.HeaderFlags(g), SeqID: int32(c), ProtocolID: ttheader.ProtocolIDKitexProtobuf,
				IntInfo: map[uint16]string{uint16(g): string(PatBytes(g, c, 50))}, StrInfo: map[string]string{fmt.Sprintf("k%d", g): string(PatBytes(g, c+1, 300))}}
			buf, err := ttheader.EncodeToBytes(context.Background(), p)
			if err != nil {
				ok = false
				break
			}
			dp, err := ttheader.DecodeFromBytes(context.Background(), buf)
			if err != nil || int(dp.Flags) != g || dp.SeqID != int32(c) || dp.IntInfo[uint16(g)] != string(PatBytes(g, c, 50)) ||
				dp.StrInfo[fmt.Sprintf("k%d", g)] != string(PatBytes(g, c+1, 300)) {
				ok = false
			}
		case 6: // generated codec + span allocator
			b := &base.Base{LogID: string(PatBytes(g, c, 200)), Caller: string(PatBytes(g, c+1, 5000)), Addr: fmt.Sprint(g), Extra: map[string]string{"g": fmt.Sprint(g)}}
			buf := thrift.FastMarshal(b)
			nb := base.NewBase()
			if err := thrift.FastUnmarshal(buf, nb); err != nil || nb.LogID != b.LogID || nb.Caller != b.Caller || nb.Addr != b.Addr || nb.Extra["g"] != fmt.Sprint(g) {
				ok = false
			}
		case 7: // value-only helpers on the goroutine's own values: nothing here may share state with another goroutine
			tid := int32(1000 + g*131 + c%7) // an id outside the table of default messages, message empty
			ae := thrift.NewApplicationException(tid, "")
			want := fmt.Sprintf("unknown exception type [%d]", tid)
			pe := thrift.NewProtocolException(tid, "")
			te := thrift.NewTransportException(tid, "")
			if ae.Error() != want || pe.Error() != want || te.Error() != want {
				ok = false
			}
			if pp := thrift.PrependError(fmt.Sprint("g", g, ": "), ae); pp.Error() != fmt.Sprint("g", g, ": ")+want {
				ok = false
			}
			cause := fmt.Errorf("cause of g%d c%d", g, c)
			wp := thrift.NewProtocolExceptionWithErr(cause)
			if !errors.Is(wp, cause) || errors.Is(wp, errInjected) || wp.Error() != cause.Error() {
				ok = false
			}
			msg, err := thrift.MarshalFastMsg(fmt.Sprint("m", g), thrift.EXCEPTION, int32(c), thrift.NewApplicationException(tid, fmt.Sprint("boom", g)))
			if err != nil {
				ok = false
				break
			}
			_, _, uerr := thrift.UnmarshalFastMsg(msg, base.NewBase())
			var ux *thrift.ApplicationException
			if !errors.As(uerr, &ux) || ux.TypeID() != tid || ux.Msg() != fmt.Sprint("boom", g) {
				ok = false
			}
			src := PatBytes(g, c, 300)
			if str := unsafex.BinaryToString(src); len(str) != 300 || unsafex.StringToBinary(str)[17] != src[17] {
				ok = false
			}
		case 8: // a private string map and unknown-field tree per goroutine
			ks := []string{fmt.Sprint("a", g), fmt.Sprint("b", c), "", fmt.Sprint("long-", g, "-", c)}
			m := strmap.New[int]()
			if err := m.LoadFromSlice(ks, []int{1, 2, 3, 4}); err != nil {
				ok = false
				break
			}
			for i, k := range ks {
				if v, found := m.Get(k); !found || v != i+1 {
					ok = false
				}
			}
			if _, found := m.Get(fmt.Sprint("zz", g)); found {
				ok = false
			}
			s2 := strmap.NewStr2Str()
			if err := s2.LoadFromSlice(ks, []string{"1", "", fmt.Sprint(g), fmt.Sprint(c)}); err != nil {
				ok = false
				break
			}
			if v, found := s2.Get(fmt.Sprint("a", g)); !found || v != "1" {
				ok = false
			}
			// larger private maps through every load path (sizes on both sides of any small/large split a loader may have)
			nbig := []int{40, 130, 300, 1100}[(g+c)%4]
			bk, bv := make([]string, nbig), make([]string, nbig)
			bm := make(map[string]string, nbig)
			bi := make(map[string]int, nbig)
			ints := make([]int, nbig)
			for i := range bk {
				bk[i] = fmt.Sprint("k", g, "-", c, "-", i)
				bv[i] = "val:" + bk[i]
				bm[bk[i]], bi[bk[i]], ints[i] = bv[i], i, i
			}
			var s3 *strmap.Str2Str
			var m3 *strmap.StrMap[int]
			if c%2 == 0 {
				s3, m3 = strmap.NewStr2StrFromMap(bm), strmap.NewFromMap(bi)
			} else {
				s3, m3 = strmap.NewStr2StrFromSlice(bk, bv), strmap.NewFromSlice(bk, ints)
			}
			if s3.Len() != nbig || m3.Len() != nbig {
				ok = false
			}
			for i := 0; i < nbig; i += 7 {
				if v, found := s3.Get(bk[i]); !found || v != bv[i] {
					ok = false
				}
				if v, found := m3.Get(bk[i]); !found || v != i {
					ok = false
				}
			}
			if err := s3.LoadFromMap(bm); err != nil || s3.Len() != nbig {
				ok = false
			}
			fs, err := uf.ConvertUnknownFields(data[:0:0])
			_ = fs
			_ = err
			enc := thrift.Binary.AppendFieldBegin(nil, thrift.STRING, int16(g))
			enc = thrift.Binary.AppendString(enc, fmt.Sprint("v", g, c))
			tr, err := uf.ConvertUnknownFields(enc)
			if err != nil || len(tr) != 1 || tr[0].ID != int16(g) || tr[0].Value.(string) != fmt.Sprint("v", g, c) {
				ok = false
			}
		case 9, 10: // the rest of the exported API, on values that are the goroutine's own
			if !stressRestOfAPI(g, c, rng) {
				ok = false
			}
		default: // concurrent Get on the shared map
			for i := 0; i < 20; i++ {
				k := keys[rng.Intn(len(keys))]
				if rng.Intn(3) == 0 {
					k += "x"
				}
				v, found := shared.Get(k)
				rv, rfound := ref[k]
				if found != rfound || (found && v != rv) {
					ok = false
				}
			}
		}
		lg.check(g, "cycle", ok)
	}
}

// touchErr renders an error every way a logger might (Error, String, %v, %+v, TypeId, Unwrap chain): decoders hand out
// shared sentinel error VALUES, so nothing a reader of an error calls may write to it
func touchErr(e error) bool {
	if e == nil || e.Error() == "" {
		return false
	}
	if st, ok := e.(fmt.Stringer); ok {
		_ = st.String()
	}
	_ = fmt.Sprintf("%v|%+v|%s", e, e, e)
	if t, ok := e.(interface{ TypeId() int32 }); ok {
		_ = t.TypeId()
	}
	if m, ok := e.(interface{ Msg() string }); ok {
		_ = m.Msg()
	}
	for u := errors.Unwrap(e); u != nil; u = errors.Unwrap(u) {
		_ = u.Error()
	}
	return true
}

// stressRestOfAPI: reflective unknown-field access on struct types of the goroutine's own (types the library meets for the
// first time while other goroutines are calling it, and types it has met), unknown-field writing, the apache
// transports, bytes-backed bufiox readers / writers, ApplicationException / BaseResp codecs, skipping of nested
// containers, TTHeader over stream writers / readers.  Everything is private to the goroutine and self-checked.
func stressRestOfAPI(g, c int, rng *rand.Rand) bool {
	ok := true
	// 1. GetUnknownFields on private struct types
	for k := 0; k < 6; k++ {
		tn := c*6 + k
		if k >= 3 {
			tn = k // types met before
		}
		tp := reflect.StructOf([]reflect.StructField{
			{Name: fmt.Sprintf("A%d_%d", g, tn), Type: reflect.TypeOf(int64(0))},
			{Name: fmt.Sprintf("B%d_%d", g, tn), Type: reflect.TypeOf("")},
			{Name: "_unknownFields", PkgPath: "github.com/cloudwego/gopkg/protocol/thrift/unknownfields", Type: reflect.TypeOf([]byte(nil))},
		})
		id, tag := int64(g)<<32|int64(c)<<8|int64(k), fmt.Sprint("g", g, "c", c, "k", k)
		var b []byte
		b = thrift.Binary.AppendFieldBegin(b, thrift.I64, 1)
		b = thrift.Binary.AppendI64(b, id)
		b = thrift.Binary.AppendFieldBegin(b, thrift.STRING, 2)
		b = thrift.Binary.AppendString(b, tag)
		pv := reflect.New(tp)
		*(*[]byte)(unsafe.Pointer(pv.Elem().Field(2).UnsafeAddr())) = b
		fs, err := uf.GetUnknownFields(pv.Interface())
		if err != nil || len(fs) != 2 || fs[0].ID != 1 || fs[1].ID != 2 {
			return false
		}
		if v, _ := fs[0].Value.(int64); v != id {
			ok = false
		}
		if v, _ := fs[1].Value.(string); v != tag {
			ok = false
		}
		// ... and back to bytes
		n, err := uf.UnknownFieldsLength(fs)
		out := make([]byte, n)
		m, err2 := uf.WriteUnknownFields(out, fs)
		if err != nil || err2 != nil || n != len(b) || m != n || !bytes.Equal(out, b) {
			ok = false
		}
	}
	// 2. apache transports over private buffers
	payload := PatBytes(g+3, c, 100+rng.Intn(5000))
	bb := &bytes.Buffer{}
	var tr apache.TTransport
	if c%2 == 0 {
		tr = apache.NewBufferTransport(bb)
	} else {
		tr = apache.NewDefaultTransport(bb)
	}
	if n, err := tr.Write(payload); err != nil || n != len(payload) || tr.RemainingBytes() != uint64(len(payload)) {
		ok = false
	}
	got := make([]byte, len(payload))
	if n, err := io.ReadFull(tr, got); err != nil || n != len(payload) || !bytes.Equal(got, payload) || bb.Len() != 0 {
		ok = false
	}
	tr.Close()
	// 3. bytes-backed bufiox
	var wb []byte
	bw := bufiox.NewBytesWriter(&wb)
	mb, _ := bw.Malloc(4)
	copy(mb, payload[:4])
	bw.WriteBinary(payload[4:])
	if bw.Flush() != nil || !bytes.Equal(wb, payload) {
		ok = false
	}
	brd := bufiox.NewBytesReader(wb)
	if p, err := brd.Next(10); err != nil || !bytes.Equal(p, payload[:10]) {
		ok = false
	}
	if err := brd.Skip(len(payload) - 20); err != nil {
		ok = false
	}
	tail := make([]byte, 10)
	if n, err := brd.ReadBinary(tail); err != nil || n != 10 || !bytes.Equal(tail, payload[len(payload)-10:]) {
		ok = false
	}
	brd.Release(nil)
	// 4. ApplicationException / BaseResp codecs
	ae := thrift.NewApplicationException(int32(g*100+c%50), string(PatBytes(g, c+9, 10+rng.Intn(6000))))
	eb := make([]byte, ae.BLength())
	if n := ae.FastWriteNocopy(eb, nil); n != len(eb) {
		ok = false
	}
	ae2 := thrift.NewApplicationException(0, "")
	if n, err := ae2.FastRead(eb); err != nil || n != len(eb) || ae2.TypeID() != ae.TypeID() || ae2.Msg() != ae.Msg() {
		ok = false
	}
	resp := &base.BaseResp{StatusMessage: fmt.Sprint("st", g, c), StatusCode: int32(c), Extra: map[string]string{"k": fmt.Sprint(g)}}
	rb := thrift.FastMarshal(resp)
	resp2 := base.NewBaseResp()
	if err := thrift.FastUnmarshal(rb, resp2); err != nil || resp2.StatusMessage != resp.StatusMessage || resp2.StatusCode != resp.StatusCode || resp2.Extra["k"] != fmt.Sprint(g) {
		ok = false
	}
	// 5. skipping a nested container
	var nb []byte
	nb = thrift.Binary.AppendMapBegin(nb, thrift.STRING, thrift.LIST, 2)
	for i := 0; i < 2; i++ {
		nb = thrift.Binary.AppendString(nb, fmt.Sprint("key", g, i))
		nb = thrift.Binary.AppendListBegin(nb, thrift.STRUCT, 2)
		for j := 0; j < 2; j++ {
			nb = thrift.Binary.AppendFieldBegin(nb, thrift.I32, 1)
			nb = thrift.Binary.AppendI32(nb, int32(c))
			nb = thrift.Binary.AppendFieldStop(nb)
		}
	}
	if n, err := thrift.Binary.Skip(append(nb, 0xAA), thrift.MAP); err != nil || n != len(nb) {
		ok = false
	}
	// 6. TTHeader over a stream writer and a stream reader
	sink := &recSink{}
	sw := bufiox.NewDefaultWriter(sink)
	ep := ttheader.EncodeParam{SeqID: int32(g*1000 + c), IntInfo: map[uint16]string{uint16(100 + g): fmt.Sprint("i", c)}, StrInfo: map[string]string{fmt.Sprint("sk", g): fmt.Sprint("sv", c)}}
	tl, err := ttheader.Encode(context.Background(), ep, sw)
	if err != nil {
		return false
	}
	hl := sw.WrittenLen()
	sw.WriteBinary(payload[:50])
	tl[0], tl[1], tl[2], tl[3] = byte((hl+50-4)>>24), byte((hl+50-4)>>16), byte((hl+50-4)>>8), byte(hl+50-4)
	if sw.Flush() != nil {
		ok = false
	}
	sr := bufiox.NewDefaultReader(&dataSource{data: bytes.Join(sink.payloads, nil), chunks: []int{1 + rng.Intn(40)}})
	dp, err := ttheader.Decode(context.Background(), sr)
	if err != nil || dp.SeqID != ep.SeqID || dp.IntInfo[uint16(100+g)] != fmt.Sprint("i", c) || dp.StrInfo[fmt.Sprint("sk", g)] != fmt.Sprint("sv", c) || dp.PayloadLen != 50 {
		ok = false
	}
	if p, err := sr.Next(50); err != nil || !bytes.Equal(p, payload[:50]) {
		ok = false
	}
	sr.Release(nil)
	// 7. a frame from a peer that is not this library: it announces transform ids (the encoder here never does), pads
	// in the middle, repeats a section
	ntr := 1 + (g+c)%3
	info := []byte{0, byte(ntr)}
	for k := 0; k < ntr; k++ {
		info = append(info, byte(1+k+g))
	}
	info = append(info, 0x10, 0, 1, 0, byte(50+g), 0, 2, 'v', byte('0'+c%10)) // int {50+g: "v<c>"}
	info = append(info, 0)                                                    // padding between sections
	info = append(info, 0x01, 0, 1, 0, 1, 'k', 0, 1, byte('a'+g%26))          // str {"k": <g>}
	for len(info)%4 != 0 {
		info = append(info, 0)
	}
	fr := make([]byte, 14, 14+len(info)+3)
	fr[4], fr[5] = 0x10, 0x00
	fr[8], fr[9], fr[10], fr[11] = byte(c>>24), byte(c>>16), byte(c>>8), byte(c)
	fr[12], fr[13] = byte(len(info)/4>>8), byte(len(info)/4)
	fr = append(append(fr, info...), 'p', 'a', 'y')
	fr[0], fr[1], fr[2], fr[3] = 0, 0, byte((len(fr)-4)>>8), byte(len(fr)-4)
	var fp ttheader.DecodeParam
	if c%2 == 0 {
		fp, err = ttheader.DecodeFromBytes(context.Background(), fr)
	} else {
		fr2 := bufiox.NewDefaultReader(&dataSource{data: fr, chunks: []int{5}})
		fp, err = ttheader.Decode(context.Background(), fr2)
		fr2.Release(nil)
	}
	if err != nil || fp.SeqID != int32(c) || fp.IntInfo[uint16(50+g)] != string([]byte{'v', byte('0' + c%10)}) || fp.StrInfo["k"] != string([]byte{byte('a' + g%26)}) || fp.PayloadLen != 3 {
		ok = false
	}
	// 8. the failure paths (error values may be built from shared scratch): every decoder on its own damaged input
	cutAt := 14 + 2 + ntr + 3 + (g+c)%6 // inside the int section
	hdr := append([]byte(nil), fr[:cutAt]...)
	hdr[12], hdr[13] = fr[12], fr[13] // the size field still announces the full header
	bad := append(append([]byte(nil), fr[:14+len(info)]...), 0)
	bad[14+2+ntr] = 0x10
	bad[14+2+ntr+1], bad[14+2+ntr+2] = 0x7f, 0xff // an int section announcing 32767 entries
	for _, in := range [][]byte{hdr, bad} {
		if _, e := ttheader.DecodeFromBytes(context.Background(), in); !touchErr(e) {
			ok = false
		}
		srd := bufiox.NewDefaultReader(&dataSource{data: in, chunks: []int{3}})
		if _, e := ttheader.Decode(context.Background(), srd); !touchErr(e) {
			ok = false
		}
		srd.Release(nil)
	}
	trunc := nb[:len(nb)-1-(g+c)%5]
	if _, e := thrift.Binary.Skip(trunc, thrift.MAP); !touchErr(e) {
		ok = false
	}
	if _, e := base.NewBaseResp().FastRead(rb[:len(rb)-2]); !touchErr(e) {
		ok = false
	}
	if _, e := thrift.NewApplicationException(0, "").FastRead(eb[:len(eb)-3]); !touchErr(e) {
		ok = false
	}
	if _, e := uf.ConvertUnknownFields(trunc[:len(trunc)/2]); !touchErr(e) {
		ok = false
	}
	tbr := thrift.NewBufferReader(bufiox.NewDefaultReader(&dataSource{data: trunc, chunks: []int{7}}))
	if e := tbr.Skip(thrift.MAP); !touchErr(e) || !errors.Is(e, io.EOF) {
		ok = false
	}
	tbr.Recycle()
	tsd := thrift.NewReaderSkipDecoder(&dataSource{data: trunc, chunks: []int{5}})
	if _, e := tsd.Next(thrift.MAP); !touchErr(e) {
		ok = false
	}
	tsd.Release()
	if _, _, e := thrift.UnmarshalFastMsg(append(thrift.Binary.AppendMessageBegin(nil, fmt.Sprint("m", g), thrift.REPLY, int32(c)), rb[:len(rb)-2]...), base.NewBaseResp()); !touchErr(e) {
		ok = false
	}
	return ok
}

func runStress(cs ConcCase, w *TraceWriter) int64 {
	lg := &lockedLog{w: w, ids: map[uintptr]int{}}
	rng := rand.New(rand.NewSource(cs.Seed))
	keys := smKeys(rng, 300)
	vals := make([]int, len(keys))
	ref := map[string]int{}
	for i, k := range keys {
		vals[i] = i + 1
		ref[k] = i + 1
	}
	shared := strmap.NewFromSlice(keys, vals)
	thrift.SetSpanCache(true)
	defer thrift.SetSpanCache(false)
	var wg sync.WaitGroup
	for g := 1; g <= cs.G; g++ {
		wg.Add(1)
		go func(g int) {
			defer wg.Done()
			defer func() {
				if p := recover(); p != nil {
					lg.check(g, fmt.Sprintf("panic: %v", p), false)
				}
			}()
			stressWorker(g, cs.Cycles, cs.Seed, lg, shared, ref, keys)
		}(g)
	}
	wg.Wait()
	return atomic.LoadInt64(&lg.bad)
}

func runConcCase(raw json.RawMessage, w *TraceWriter) {
	var cs ConcCase
	if err := json.Unmarshal(raw, &cs); err != nil {
		panic(err)
	}
	w.Ev("reset", "g", cs.G)
	recycleProbe(w)
	runStress(cs, w)
}

// wordsZero reports whether the first n machine words of the object at p are zero.
func wordsZero(p unsafe.Pointer, n int) bool {
	ws := unsafe.Slice((*uintptr)(p), n)
	for _, x := range ws {
		if x != 0 {
			return false
		}
	}
	return true
}

// recycleProbe (single goroutine, before the stress run): after Recycle/Release a pooled object must not
// reference its last user's reader or data (the model's ResetOnRecycle). Read through the retained pointer;
// layouts: BufferReader{r iface}, BufferWriter{w iface}, SkipDecoder{r iface; rn int}, BytesSkipDecoder{n int; b []byte},
// ReaderSkipDecoder{r iface; n int; b []byte (kept on purpose)}.
func recycleProbe(w *TraceWriter) {
	data := []byte{0, 0, 0, 1, 65}
	br := thrift.NewBufferReader(bufiox.NewBytesReader(data))
	br.ReadString()
	br.Recycle()
	w.Ev("recycled", "typ", "BufferReader", "clean", wordsZero(unsafe.Pointer(br), 2))
	var sink []byte
	bw := thrift.NewBufferWriter(bufiox.NewBytesWriter(&sink))
	bw.WriteBool(true)
	bw.Recycle()
	w.Ev("recycled", "typ", "BufferWriter", "clean", wordsZero(unsafe.Pointer(bw), 2))
	sd := thrift.NewSkipDecoder(bufiox.NewBytesReader(data))
	sd.Next(thrift.STRING)
	sd.Release()
	w.Ev("recycled", "typ", "SkipDecoder", "clean", wordsZero(unsafe.Pointer(sd), 3))
	bd := thrift.NewBytesSkipDecoder(data)
	bd.Next(thrift.STRING)
	bd.Release()
	w.Ev("recycled", "typ", "BytesSkipDecoder", "clean", wordsZero(unsafe.Pointer(bd), 4))
	rd := thrift.NewReaderSkipDecoder(&dataSource{data: data})
	rd.Next(thrift.STRING)
	rd.Release()
	w.Ev("recycled", "typ", "ReaderSkipDecoder", "clean", wordsZero(unsafe.Pointer(rd), 3))
}

func sigConc(raw json.RawMessage, line string) string {
	why := ""
	if i := strings.Index(line, " // "); i >= 0 {
		why = line[i+4:]
	}
	return "conc/" + why
}

var famConc = Register(&Family{Name: "conc", Spec: "Trace_Concurrency", Cfg: "Trace_Concurrency.cfg", Run: runConcCase, Sig: sigConc, Retries: 20})

// stressChild is the entry point of the race-detector build (no tracing): exit code 0 = clean.
func stressChild() {
	cs := ConcCase{G: 16, Cycles: 300, Seed: 1}
	if v := os.Getenv("VERIF_STRESS"); v != "" {
		json.Unmarshal([]byte(v), &cs)
	}
	bad := runStress(cs, nil)
	if bad > 0 {
		fmt.Printf("SELFCHECK-FAILURES %d\n", bad)
		os.Exit(3)
	}
	os.Exit(0)
}

// raceRuns builds the harness with the race detector against the REAL mcache (no pool double: its mutex
// would add happens-before edges) and runs the stress driver for several seeds.
func raceRuns(c *Ctx, seeds int) {
	bin := filepath.Join(c.Work, "vcheck.race")
	build := exec.Command("go", "build", "-race", "-tags", "verif realpool", "-o", bin, ".")
	build.Dir = filepath.Join(verifRoot, "harness")
	build.Env = append(os.Environ(), "GOFLAGS=-mod=mod", "GOPROXY=off", "GOSUMDB=off", "GOTOOLCHAIN=local", "CGO_ENABLED=1")
	if out, err := build.CombinedOutput(); err != nil {
		c.Infra("race build failed: %v\n%s", err, tail(string(out), 20))
		return
	}
	defer os.Remove(bin)
	var runs, races int64
	for s := 0; s < seeds; s++ {
		cs := ConcCase{G: 8 + (s%3)*8, Cycles: c.Pick(150, 600), Seed: c.Seed*1000 + int64(s)}
		b, _ := json.Marshal(cs)
		ctx, cancel := context.WithTimeout(context.Background(), 5*time.Minute)
		cmd := exec.CommandContext(ctx, bin, "C14", "--stress-child")
		cmd.Env = append(os.Environ(), "VERIF_STRESS="+string(b), "GORACE=halt_on_error=0 exitcode=66")
		out, err := cmd.CombinedOutput()
		cancel()
		runs++
		txt := string(out)
		if strings.Contains(txt, "DATA RACE") {
			races++
			c.GoViolation("race-C14", "conc/data-race", cs, "race detector: "+firstLines(txt, 14))
			break
		}
		if strings.Contains(txt, "fatal error: concurrent map") { // the runtime's own detector, not recoverable in-process
			races++
			c.GoViolation("race-C14", "conc/concurrent-map-access", cs, "runtime: "+firstLines(txt[strings.Index(txt, "fatal error: concurrent map"):], 8))
			break
		}
		if strings.Contains(txt, "SELFCHECK-FAIL") {
			c.GoViolation("race-C14", "conc/selfcheck-under-race-build", cs, firstLines(txt, 6))
			break
		}
		if err != nil {
			c.Infra("stress child failed: %v\n%s", err, tail(txt, 15))
			break
		}
	}
	c.AddExtraCount("race_detector_runs", runs)
	c.AddExtraCount("race_reports", races)
}

func firstLines(s string, n int) string {
	ls := strings.Split(s, "\n")
	if len(ls) > n {
		ls = ls[:n]
	}
	return strings.Join(ls, " | ")
}

func replayRace(c *Ctx, raw json.RawMessage) {
	raceRuns(c, 3)
}

func checkC14(c *Ctx) {
	c.rule = "MC: 3 goroutines x 2 pooled objects x span requests, every interleaving of Acquire / Release / CAS-lock / bump / slice-unlock (9 steps): exclusive ownership, reset on recycle, disjoint span regions, exclusive lock; TLC finds the violation when fields are not cleared before Put. APALACHE: the conjunction of these invariants plus a strengthening (Ind_Concurrency.tla) is inductive for every span size, request size and run length (base case, inductive step, negative control, non-vacuity probes). TLAPS: Proof_Concurrency.tla proves Spec => []IndInv for arbitrary sets of goroutines and objects (29 obligations; a negative control must fail). TRACE: stress runs (8..24 goroutines, create/use/release cycles of BufferReader, BufferWriter, SkipDecoder, BytesSkipDecoder, ReaderSkipDecoder, ttheader and Base codecs with the span allocator on, concurrent Get on a shared map, and the value-only helpers - exceptions with ids outside the default-message table, PrependError / errors.Is / message envelopes, unsafex, private string maps and unknown-field trees) with per-goroutine self-checking payloads over the poisoning pool double; the acquisition/release log (after Get / before Put, one mutex) must be enabled Acquire/Release actions and every self-check ok. RACE: the same driver built with -race against the real mcache, several seeds; any report is a violation. The stress also decodes hand-built foreign-peer TTHeader frames (transform ids, padding between sections) through both decoders. ... and the failure paths: every decoder on its own damaged input. Every error the stress gets is rendered every way (Error, String, %v, %+v, TypeId, Msg, Unwrap chain)."
	c.MC("MC_Concurrency.tla", "MC_Concurrency.cfg", 8)
	// unbounded safety (Apalache): IndInv of Ind_Concurrency.tla is inductive for every span size >= 1, every request
	// size and runs of any length (3 goroutines, 3 objects); the same step fails when fields are not cleared before
	// Put, and IndInit admits states with regions, busy goroutines and held objects (non-vacuity probes)
	c.Apalache("Ind_Concurrency.tla", "base: CInit => IndInv", false, "--cinit=ConstInit", "--init=CInit0", "--next=Next", "--inv=IndInv", "--length=0")
	c.Apalache("Ind_Concurrency.tla", "step: IndInv /\\ Next => IndInv'", false, "--cinit=ConstInit", "--init=IndInit", "--next=Next", "--inv=IndInv", "--length=1")
	c.Apalache("Ind_Concurrency.tla", "negative control: ResetOnPut = FALSE breaks the step", true, "--cinit=ConstInitNeg", "--init=IndInit", "--next=Next", "--inv=IndInv", "--length=1")
	if c.Thorough() {
		for _, pr := range []string{"ProbeNoRegions", "ProbeNoBusy", "ProbeNoHeld"} {
			c.Apalache("Ind_Concurrency.tla", "non-vacuity probe "+pr, true, "--cinit=ConstInit", "--init=IndInit", "--next=Next", "--inv="+pr, "--length=0")
		}
	}
	// machine-checked proof (TLAPS) of the same inductive invariant for ANY set of goroutines and ANY set of objects
	c.TLAPS("Proof_Concurrency.tla", "Spec => []IndInv for arbitrary G, Objs, SpanSize", false)
	if c.Thorough() {
		c.TLAPS("Proof_Concurrency_neg.tla", "negative control: ResetOnPut = FALSE", true)
	}
	var cases []json.RawMessage
	for s := 0; s < c.Pick(6, 40); s++ {
		cases = append(cases, mustJSON(ConcCase{G: 8 + (s%3)*8, Cycles: c.Pick(200, 600), Seed: c.Seed*100 + int64(s)}))
	}
	// the race-detector children run first: a race that makes the runtime abort ("concurrent map writes") would take an
	// in-process stress run down with it; once a child has reported, the in-process run is skipped
	raceRuns(c, c.Pick(4, 20))
	if len(c.violations) == 0 {
		c.TraceCheck(famConc, cases)
	}
	c.Assume("TLA+ decides ownership/isolation on the logged acquisitions; the Go memory model clause (no data race) is decided by the race detector on the executions of the spec-driven stress driver")
	c.Assume("the log order (acquire logged after Get, release logged before Put, one mutex) is conservative: a correct implementation is never rejected")
}

func init() {
	checks["C14"] = checkC14
	goReplays["race-C14"] = replayRace
}
