package main

import (
	"encoding/hex"
	"encoding/json"
	"github.com/cloudwego/gopkg/protocol/thrift"
	"math/rand"
)

func randStr(rng *rand.Rand, seedCtr *int, big bool) StrSpec {
	*seedCtr++
	switch rng.Intn(10) {
	case 0:
		return StrSpec{Len: 0, Seed: *seedCtr % 250}
	case 1:
		n := rng.Intn(10)
		lit := make([]int, n)
		for i := range lit {
			lit[i] = rng.Intn(256)
		}
		return StrSpec{Lit: lit}
	case 2, 3:
		if big {
			return StrSpec{Len: []int{4095, 4096, 4097, 8192, 12288, 1, 4090, 5000}[rng.Intn(8)], Seed: *seedCtr % 250}
		}
	}
	return StrSpec{Len: rng.Intn(40), Seed: *seedCtr % 250}
}

func randStruct(rng *rand.Rand, schema string, big bool) StructCase {
	ctr := rng.Intn(200)
	c := StructCase{Schema: schema}
	ns := map[string]int{"Base": 3, "BaseResp": 1, "AppEx": 1}[schema]
	for i := 0; i < ns; i++ {
		c.S = append(c.S, randStr(rng, &ctr, big))
	}
	switch rng.Intn(4) {
	case 0:
		c.I = int64(int32(rng.Uint32()))
	case 1:
		c.I = []int64{0, 1, -1, 6, 10, 2147483647, -2147483648}[rng.Intn(7)]
	default:
		c.I = int64(rng.Intn(20))
	}
	if schema != "AppEx" && rng.Intn(3) > 0 {
		c.HasMap = true
		n := []int{0, 0, 1, 1, 2, 3, 8}[rng.Intn(7)]
		c.Extra = [][2]StrSpec{}
		for i := 0; i < n; i++ {
			k := randStr(rng, &ctr, false)
			if k.Lit == nil { // keep keys distinct
				k.Len = 13 + i
			} else {
				k.Lit = append(k.Lit, i)
			}
			c.Extra = append(c.Extra, [2]StrSpec{k, randStr(rng, &ctr, big && rng.Intn(3) == 0)})
		}
	}
	return c
}

func permutations(n int) [][]int {
	if n == 1 {
		return [][]int{{0}}
	}
	var out [][]int
	for _, p := range permutations(n - 1) {
		for i := 0; i <= len(p); i++ {
			q := append(append(append([]int(nil), p[:i]...), n-1), p[i:]...)
			out = append(out, q)
		}
	}
	return out
}

func structCases(c *Ctx) []json.RawMessage {
	var out []json.RawMessage
	add := func(s StructCase) { out = append(out, mustJSON(s)) }
	rng := rand.New(rand.NewSource(c.Seed*7368787 + 11))
	// values that coincide with what a reader would produce by DEFAULT: a message equal to the default text of the
	// exception's own type id (and of a neighbouring id, and a near miss of it); such a value must still travel
	lit := func(t string) StrSpec {
		sp := StrSpec{Lit: []int{}}
		for _, b := range []byte(t) {
			sp.Lit = append(sp.Lit, int(b))
		}
		return sp
	}
	for t := int32(-1); t <= 12; t++ {
		for _, dt := range []int32{t, t + 1} {
			txt := thrift.NewApplicationException(dt, "").Error()
			add(StructCase{Schema: "AppEx", S: []StrSpec{lit(txt)}, I: int64(t)})
			add(StructCase{Schema: "AppEx", S: []StrSpec{lit(txt + " ")}, I: int64(t)})
			add(StructCase{Schema: "BaseResp", S: []StrSpec{lit(txt)}, I: int64(t)})
		}
	}
	for _, schema := range []string{"Base", "BaseResp", "AppEx"} {
		add(StructCase{Schema: schema, S: make([]StrSpec, map[string]int{"Base": 3, "BaseResp": 1, "AppEx": 1}[schema])})
		if schema != "AppEx" {
			add(StructCase{Schema: schema, NilRecv: true})
		}
		for i := 0; i < c.Pick(400, 8000); i++ {
			add(randStruct(rng, schema, i%3 == 0))
		}
		// every known id arriving with every OTHER wire type (incl. the types its neighbours use), at every position
		// relative to the genuine fields: skipped like any unknown field
		{
			ids := map[string][]int{"Base": {1, 2, 3, 6}, "BaseResp": {1, 2, 3}, "AppEx": {1, 2}}[schema]
			own := map[string][]int{"Base": {11, 11, 11, 13}, "BaseResp": {11, 8, 13}, "AppEx": {11, 8}}[schema]
			for j, id := range ids {
				for _, t := range []int{2, 3, 4, 6, 8, 10, 11, 12, 13, 14, 15} {
					if t == own[j] {
						continue
					}
					for pos := 0; pos <= len(ids); pos++ {
						s := randStruct(rng, schema, false)
						s.Unk = []UnkField{{Pos: pos, T: t, ID: id, Seed: rng.Int63()}}
						add(s)
					}
				}
			}
		}
		// all permutations of the known fields x interleaved unknown fields x map shapes
		nk := map[string]int{"Base": 4, "BaseResp": 3, "AppEx": 2}[schema]
		ids := map[string][]int{"Base": {1, 2, 3, 6}, "BaseResp": {1, 2, 3}, "AppEx": {1, 2}}[schema]
		for _, perm := range permutations(nk) {
			for rep := 0; rep < c.Pick(3, 12); rep++ {
				s := randStruct(rng, schema, false)
				s.Perm = perm
				nu := rng.Intn(3)
				for u := 0; u < nu; u++ {
					uf := UnkField{Pos: rng.Intn(nk + 1), T: int(allTypes[rng.Intn(len(allTypes))]), ID: rng.Intn(300) - 20, Seed: rng.Int63()}
					if rng.Intn(2) == 0 { // id colliding with a known id but another type
						uf.ID = ids[rng.Intn(len(ids))]
						for tries := 0; tries < 5 && (uf.T == 11 || uf.T == 8 || uf.T == 13); tries++ {
							uf.T = int(allTypes[rng.Intn(len(allTypes))])
						}
					}
					s.Unk = append(s.Unk, uf)
				}
				if rep == 0 { // an id that equals a known id modulo 256 / 65536 sign games, carrying that field's own type
					types := map[string][]int{"Base": {11, 11, 11, 13}, "BaseResp": {11, 8, 13}, "AppEx": {11, 8}}[schema]
					j := rng.Intn(len(ids))
					s.Unk = append(s.Unk, UnkField{Pos: rng.Intn(nk + 1), T: types[j], ID: ids[j] + []int{256, 512, -256, 32768 - 32768%256, -32768}[rng.Intn(5)], Seed: rng.Int63()})
				}
				if rng.Intn(6) == 0 { // a known field twice: the last occurrence wins
					s.Perm = append(append([]int(nil), perm...), perm[rng.Intn(len(perm))])
				}
				add(s)
			}
		}
	}
	return out
}

func hostileStructCases(c *Ctx) []json.RawMessage {
	var out []json.RawMessage
	add := func(s StructCase) { out = append(out, mustJSON(s)) }
	rng := rand.New(rand.NewSource(c.Seed*5915587277 + 13))
	for _, schema := range []string{"Base", "BaseResp", "AppEx"} {
		for i := 0; i < c.Pick(25, 400); i++ {
			s := randStruct(rng, schema, false)
			s.Perm = permutations(map[string]int{"Base": 4, "BaseResp": 3, "AppEx": 2}[schema])[0]
			if rng.Intn(2) == 0 {
				s.Unk = []UnkField{{Pos: rng.Intn(3), T: int(allTypes[rng.Intn(len(allTypes))]), ID: rng.Intn(100), Seed: rng.Int63()}}
			}
			full := s.handBuilt()
			for k := 0; k < len(full); k++ {
				if len(full) > 80 && k%5 != 0 {
					continue
				}
				m := s
				m.Mut = "cut:" + itoa(k)
				add(m)
			}
			for j := 0; j < 12; j++ {
				m := s
				m.Mut = "set:" + itoa(rng.Intn(len(full))) + ":" + itoa([]int{0, 1, 0x7f, 0x80, 0xff, 11, 12, 13, 15}[rng.Intn(9)])
				add(m)
			}
		}
	}
	return out
}

func nocopyCases(c *Ctx) []json.RawMessage {
	var out []json.RawMessage
	add := func(s StructCase) { s.Mode = "nocopy"; out = append(out, mustJSON(s)) }
	rng := rand.New(rand.NewSource(c.Seed*1299709 + 15))
	lens := []int{0, 1, 4095, 4096, 4097, 8192, 12288}
	// Base: every combination of small/large for the three strings (+ one map entry)
	for _, a := range lens {
		for _, b := range lens {
			for _, d := range lens {
				if !c.Thorough() && (a+b+d)%3 == 1 && a != 4096 {
					continue
				}
				s := StructCase{Schema: "Base", S: []StrSpec{{Len: a, Seed: 1}, {Len: b, Seed: 2}, {Len: d, Seed: 3}}}
				switch rng.Intn(3) {
				case 1:
					s.HasMap = true
					s.Extra = [][2]StrSpec{{{Len: []int{5, 4096, 5000}[rng.Intn(3)], Seed: 4}, {Len: lens[rng.Intn(len(lens))], Seed: 5}}}
				case 2:
					s.HasMap = true
					s.Extra = [][2]StrSpec{}
				}
				add(s)
			}
		}
	}
	for _, a := range lens {
		for _, kl := range []int{3, 4096} {
			for _, vl := range lens {
				add(StructCase{Schema: "BaseResp", S: []StrSpec{{Len: a, Seed: 1}}, I: int64(a), HasMap: true,
					Extra: [][2]StrSpec{{{Len: kl, Seed: 6}, {Len: vl, Seed: 7}}}})
			}
		}
		add(StructCase{Schema: "BaseResp", S: []StrSpec{{Len: a, Seed: 1}}, I: -1})
		add(StructCase{Schema: "AppEx", S: []StrSpec{{Len: a, Seed: 1}}, I: 6})
	}
	for i := 0; i < c.Pick(150, 4000); i++ {
		s := randStruct(rng, []string{"Base", "BaseResp"}[i%2], true)
		add(s)
	}
	// the two primitives called directly, every length around the threshold, with and without spare buffer room
	for _, n := range []int{0, 1, 100, 4094, 4095, 4096, 4097, 4098, 8191, 8192, 12288, 70000} {
		for slack := 0; slack < 3; slack++ {
			add(StructCase{Schema: "RawStr", S: []StrSpec{{Len: n, Seed: 11}}, I: int64(slack)})
			add(StructCase{Schema: "RawBin", S: []StrSpec{{Len: n, Seed: 12}}, I: int64(slack)})
		}
	}
	// values beyond a GiB (a writer may hand a huge value to the direct writer in pieces: all of them belong at the same
	// position of the linear buffer)
	add(StructCase{Schema: "RawStr", S: []StrSpec{{Len: 1<<30 + 4096, Seed: 9}}, I: 1})
	add(StructCase{Schema: "RawBin", S: []StrSpec{{Len: 1<<30 + 1<<29 + 5, Seed: 10}}, I: 2})
	return out
}

func msgStructCases(c *Ctx) []json.RawMessage {
	var out []json.RawMessage
	add := func(s StructCase) { out = append(out, mustJSON(s)) }
	rng := rand.New(rand.NewSource(c.Seed*15487469 + 12))
	ctr := 0
	for i := 0; i < c.Pick(400, 8000); i++ {
		s := randStruct(rng, []string{"Base", "BaseResp", "AppEx"}[i%3], i%7 == 0)
		s.Mode = "msg"
		s.Method = randStr(rng, &ctr, false)
		if rng.Intn(10) > 0 && s.Method.Lit == nil && s.Method.Len == 0 {
			s.Method.Len = 1 + rng.Intn(30)
		}
		s.Mt = []int{1, 2, 4, 0, 5, 65535, 256}[rng.Intn(7)]
		s.Seq = int(int32(rng.Uint32()))
		if i%4 == 0 {
			s.Mode = "msgexc"
			s.Schema = "AppEx"
			s.S = []StrSpec{randStr(rng, &ctr, false)}
			s.HasMap, s.Extra = false, nil
		}
		if i%5 == 0 { // truncations / perturbations of the marshalled message
			if rng.Intn(2) == 0 {
				s.Mut = "cut:" + itoa(rng.Intn(60))
			} else {
				s.Mut = "set:" + itoa(rng.Intn(20)) + ":" + itoa([]int{0, 1, 0x7f, 0x80, 0xff, 3}[rng.Intn(6)])
			}
		}
		add(s)
	}
	// message types whose LOW byte is that of a well-known type (CALL, REPLY, EXCEPTION, ONEWAY) under every high byte:
	// the type is 16 bits wide, only 3 is an exception
	for hi := 0; hi < 256; hi += c.Pick(5, 1) {
		for _, lo := range []int{1, 2, 3, 4} {
			if hi == 0 && lo == 3 {
				continue
			}
			s := randStruct(rng, []string{"Base", "BaseResp", "AppEx"}[(hi+lo)%3], false)
			s.Mode, s.Method, s.Mt, s.Seq = "msg", StrSpec{Lit: []int{'E', 'c', 'h', 'o'}}, hi<<8|lo, hi
			add(s)
		}
	}
	// hand-built messages (what a peer that is not this library may send): EXCEPTION payloads with either field left
	// out, in either order, with unknown fields around them; replies whose struct leaves fields out
	bp := thrift.Binary
	excBodies := [][]byte{
		{0}, // just STOP: both fields at their defaults
		bp.AppendFieldStop(bp.AppendI32(bp.AppendFieldBegin(nil, thrift.I32, 2), 6)),
		bp.AppendFieldStop(bp.AppendI32(bp.AppendFieldBegin(nil, thrift.I32, 2), -1)),
		bp.AppendFieldStop(bp.AppendString(bp.AppendFieldBegin(nil, thrift.STRING, 1), "")),
		bp.AppendFieldStop(bp.AppendString(bp.AppendFieldBegin(nil, thrift.STRING, 1), "boom")),
		bp.AppendFieldStop(bp.AppendString(bp.AppendFieldBegin(nil, thrift.STRING, 1), "a longer message text")),
		bp.AppendFieldStop(bp.AppendString(bp.AppendFieldBegin(bp.AppendI32(bp.AppendFieldBegin(nil, thrift.I32, 2), 3), thrift.STRING, 1), "rev")),
		bp.AppendFieldStop(bp.AppendI32(bp.AppendFieldBegin(bp.AppendBool(bp.AppendFieldBegin(nil, thrift.BOOL, 9), true), thrift.I32, 2), 4)),
		bp.AppendFieldStop(bp.AppendI64(bp.AppendFieldBegin(bp.AppendString(bp.AppendFieldBegin(nil, thrift.STRING, 1), "x"), thrift.I64, 7), 5)),
	}
	for i, body := range excBodies {
		for _, name := range []string{"Echo", "", "m"} {
			msg := append(bp.AppendMessageBegin(nil, name, thrift.EXCEPTION, int32(7+i)), body...)
			add(StructCase{Schema: "AppEx", Mode: "msgexc", RawHex: hex.EncodeToString(msg)})
			add(StructCase{Schema: "AppEx", Mode: "msgexc", RawHex: hex.EncodeToString(append(msg, 0xAA, 0xBB))})
		}
	}
	replyBodies := [][]byte{
		{0},
		bp.AppendFieldStop(bp.AppendString(bp.AppendFieldBegin(nil, thrift.STRING, 2), "caller-only")),
		bp.AppendFieldStop(bp.AppendString(bp.AppendFieldBegin(nil, thrift.STRING, 3), "")),
		bp.AppendFieldStop(bp.AppendMapBegin(bp.AppendFieldBegin(nil, thrift.MAP, 6), thrift.STRING, thrift.STRING, 0)),
	}
	for i, body := range replyBodies {
		for _, mt := range []thrift.TMessageType{thrift.REPLY, thrift.CALL, thrift.ONEWAY} {
			msg := append(bp.AppendMessageBegin(nil, "Echo", mt, int32(i)), body...)
			add(StructCase{Schema: "Base", Mode: "msg", Mt: int(mt), RawHex: hex.EncodeToString(msg)})
		}
	}
	return out
}
