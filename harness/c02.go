package main

import (
	"bytes"
	"encoding/json"
	"fmt"

	"github.com/cloudwego/gopkg/bufiox"
	"github.com/cloudwego/gopkg/protocol/thrift"
)

// C02, C08, C17 — the skipping facilities against the reference grammar (ThriftSkip.tla).

func mcSkip(c *Ctx, quickCfg string) {
	if c.Thorough() {
		c.MC("MC_ThriftSkip.tla", "MC_ThriftSkip_thorough.cfg", 12)
	} else {
		c.MC("MC_ThriftSkip.tla", quickCfg, 8)
	}
}

func checkC02(c *Ctx) {
	c.rule = "MC: over every byte string up to MaxLen over a grammar alphabet and every type, the reference grammar is self-delimiting (extent independent of trailing bytes; every strict prefix short). TRACE: one case = (typed value tree of a given type + trailing bytes); all 11x11 map and 11 list/set element combinations x counts 0,1,2,7; nesting 1..63 of every container kind; seeded random trees (depth<=5, strings up to 72KB); each is fed to the five skippers under bytes-backed, fitting, 1-byte, zero-byte and data+EOF source shapes; TLC computes the reference extent and judges success, length, returned bytes and source position. Containers of fixed-size elements of 4 GiB and more are skipped from a lazily mapped buffer and compared with the extent formula in Go. LIVE CONNECTIONS: every stream skipper also runs on an exact-demand source (the value's bytes have arrived, nothing more; a Read after the last byte is over-demand and rejected) and the ReaderSkipDecoder (fresh and pooled) on a connection-like source whose Len / Buffered / Available report what is readable right now. STACK-RESIDENT INPUTS: thrift.Binary.Skip also runs on every input (up to 1536 bytes) copied into a local array on a fresh goroutine that starts with the minimum stack, with goroutines parked on stacks of various sizes, so that the recursion has to move the stack (and the input) while skipping; deep chains cut short are part of the inputs. The giant-value monitor also skips strings of 2^30+1 .. 2^31-1 bytes that are really present, bare, in a list and in a struct. A sixth skipper (the exported template over a foreign SkipN that reuses one scratch window) runs on every input. Sessions may start with values the decoder has to reject (the caller skips those frames) before the well-formed ones."
	mcSkip(c, "MC_ThriftSkip_small.cfg")
	c.TraceCheck(famSkipC02, wellFormedSkipCases(c, c.Pick(4000, 60000), 2))
	// sessions: one decoder / reader instance skips 2..6 consecutive values (state carried between calls,
	// Reset / reuse after a failed call, Release of the underlying reader between values)
	c.TraceCheck(famSkipSeq, skipSeqCases(c, c.Pick(1500, 30000)))
	// implementation level: ReaderSkipDecoder's private buffer (n, len, cap after every value, read through the
	// hook) against the buffer model driven by the pushdown machine's request sequence (drift only)
	c.TraceCheck(famRdec, skipSeqCases(c, c.Pick(1500, 20000)))
	giantSkipValues(c)
	c.Assume("well-formedness is decided by the reference (ThriftSkip.tla), not by the generator; inputs the reference rejects are judged by C08 only")
	c.Assume("values of 4 GiB and more (count x element size beyond 32 bits) are compared in Go with the extent formula of the grammar: TLC integers are 32-bit")
}

// giantSkipValues: well-formed containers of fixed-size elements whose payload is 4 GiB or more (the product count x
// element size no longer fits 32 bits), in a lazily mapped all-zero buffer. Go monitor: expected extent by formula.
func giantSkipValues(c *Ctx) {
	const maxN = 5 + (1 << 32) + 64
	var buf []byte
	func() {
		defer func() { recover() }()
		buf = make([]byte, maxN)
	}()
	if buf == nil {
		c.Assume("giant values skipped: 4 GiB of address space could not be reserved")
		return
	}
	type gv struct {
		t    int8
		hdr  []byte
		want int64
		note string
	}
	put32 := func(n uint32) []byte { return []byte{byte(n >> 24), byte(n >> 16), byte(n >> 8), byte(n)} }
	var vals []gv
	for _, cnt := range []uint32{1 << 29, 1<<29 + 1} {
		vals = append(vals, gv{15, append([]byte{10}, put32(cnt)...), 5 + int64(cnt)*8, "list<i64>"})
		vals = append(vals, gv{14, append([]byte{4}, put32(cnt)...), 5 + int64(cnt)*8, "set<double>"})
	}
	vals = append(vals, gv{13, append([]byte{10, 10}, put32(1<<28)...), 6 + int64(1<<28)*16, "map<i64,i64>"})
	vals = append(vals, gv{13, append([]byte{8, 10}, put32(1<<28+3)...), 6 + int64(1<<28+3)*12, "map<i32,i64>"})
	vals = append(vals, gv{15, append([]byte{8}, put32(1<<30)...), 5 + int64(1<<30)*4, "list<i32>"})
	// strings whose bytes are really there, right up to the largest length the wire can declare; bare and as the only
	// field of a struct / element of a list
	for _, sl := range []uint32{1<<31 - 1, 1<<31 - 2, 1<<31 - 4, 1<<31 - 5, 1<<30 + 1, 1<<31 - 4096} {
		vals = append(vals, gv{11, put32(sl), 4 + int64(sl), "string"})
		vals = append(vals, gv{15, append([]byte{11, 0, 0, 0, 1}, put32(sl)...), 9 + int64(sl), "list<string>[1]"})
		vals = append(vals, gv{12, append([]byte{11, 0, 9}, put32(sl)...), 3 + 4 + int64(sl) + 1, "struct{9: string}"})
	}
	var n int64
	for _, v := range vals {
		if v.want+1 > int64(len(buf)) {
			continue
		}
		for i := range buf[:16] {
			buf[i] = 0
		}
		copy(buf, v.hdr)
		in := buf[:v.want+1]
		report := func(impl string, got int64, err error) {
			n++
			if err != nil || got != v.want {
				c.GoViolation("giant-C02", "skip/"+impl+"/giant", map[string]interface{}{"value": v.note, "hdr": hexOf(&SegBuf{b: v.hdr})},
					fmt.Sprintf("well-formed %s of %d bytes: got n=%d err=%v", v.note, v.want, got, err))
			}
		}
		func() {
			defer func() {
				if p := recover(); p != nil {
					report("panic", -1, fmt.Errorf("panic: %v", p))
				}
			}()
			k, err := thrift.Binary.Skip(in, v.t)
			report("binary", int64(k), err)
			d := thrift.NewBytesSkipDecoder(in)
			x, err := d.Next(v.t)
			report("bytesdec", int64(len(x)), err)
			d.Release()
			rd := bufiox.NewBytesReader(in)
			sd := thrift.NewSkipDecoder(rd)
			y, err := sd.Next(v.t)
			report("skipdec", int64(len(y)), err)
			sd.Release()
			rd2 := bufiox.NewBytesReader(in)
			br := thrift.NewBufferReader(rd2)
			err = br.Skip(v.t)
			report("bufferreader", br.Readn(), err)
			br.Recycle()
		}()
	}
	c.AddExtraCount("giant_values_skipped", n)
	c.AddEvals(n)
}

func checkC08(c *Ctx) {
	c.rule = "MC: grammar facts (prefix rejection, negative sizes and unknown tags stay rejected under cutting, strict = lenient below depth 64) over every string up to MaxLen over a grammar alphabet x 15 type tags. TRACE: hostile inputs derived from generated valid encodings (every cut point, structural bytes x boundary values, size fields x {7fffffff,80000000,ffffffff,...}, foreign requested types incl. >= 0x80), nesting 1..70 of every container kind x {empty, scalar, string} bottoms, raw strings over the grammar alphabet; every skipper's (ok n | err) must lie in the admissible set {strict, lenient} computed by TLC. STACK-RESIDENT INPUTS: thrift.Binary.Skip also runs on every input (up to 1536 bytes) copied into a local array on a fresh goroutine that starts with the minimum stack, with goroutines parked on stacks of various sizes, so that the recursion has to move the stack (and the input) while skipping; deep chains cut short are part of the inputs. Sessions in which a SkipDecoder is used again right after it rejected a value on grammar grounds are judged as a family of their own."
	mcSkip(c, "MC_ThriftSkip_quick.cfg")
	cases := hostileSkipCases(c, c.Pick(120, 2500), 8)
	cases = append(cases, wellFormedSkipCases(c, c.Pick(300, 5000), 88)...)
	c.TraceCheck(famSkipC08, cases)
	// the streaming template against the pushdown machine: MC (Machine = Reference, bounded stack) and the
	// real template's SkipN request sequence replayed through the machine (drift) with its verdict (mismatch)
	if c.Thorough() {
		c.MC("MC_SkipMachine.tla", "MC_SkipMachine.cfg", 12)
	} else {
		c.MC("MC_SkipMachine.tla", "MC_SkipMachine_quick.cfg", 8)
	}
	c.TraceCheck(famTpl, cases)
	// decoders reused after they have rejected something (the sessions whose stream starts with malformed values)
	var after []json.RawMessage
	for _, sc := range skipSeqCases(c, c.Pick(900, 9000)) {
		if bytes.Contains(sc, []byte(`"fail":true`)) {
			after = append(after, sc)
		}
	}
	c.TraceCheck(famSkipSeqC08, after)
	c.Assume("inputs declaring more than 1 MiB are fed only to the non-allocating skippers (thrift.Binary.Skip, BytesSkipDecoder): the reader-backed ones allocate what is declared")
}

func checkC17(c *Ctx) {
	c.MC("MC_ThriftWire.tla", "MC_ThriftWire.cfg", 4)
	c.rule = "MC: grammar causes (ThriftSkip) and decoder causes incl. all 65536 version words (ThriftWire). TRACE: the hostile inputs of C08 plus hostile scalar/header/string/message-begin inputs; for every failing thrift.Binary call TLC derives the cause set from the reference grammar and requires TypeId() in {TypeIdOf(cause)}; for stream skippers whose only admissible cause is truncation it requires errors.Is(err, source error). STACK-RESIDENT INPUTS: thrift.Binary.Skip also runs on every input (up to 1536 bytes) copied into a local array on a fresh goroutine that starts with the minimum stack, with goroutines parked on stacks of various sizes, so that the recursion has to move the stack (and the input) while skipping; deep chains cut short are part of the inputs. Source errors also include values that are not io.EOF but answer errors.Is(err, io.EOF) (%w-wrapped EOF, *net.OpError{Err: io.EOF}, a type with an Is method). Errors handed out by a stream reader are kept and looked at again after the reader failed once more, was recycled, and its next owner failed."
	mcSkip(c, "MC_ThriftSkip_small.cfg")
	c.TraceCheck(famSkipC17, hostileSkipCases(c, c.Pick(120, 2500), 17))
	// thrift.Binary readers and message-begin (buffer: type id by cause) and the stream reader
	// (source errors io.EOF / io.ErrUnexpectedEOF / a custom error stay matchable with errors.Is)
	cases := hostileWireCases(c)
	cases = append(cases, msgCases(c)...)
	c.TraceCheck(famWireC17, cases)
}

func init() {
	checks["C02"] = checkC02
	checks["C08"] = checkC08
	checks["C17"] = checkC17
}

func init() {
	goReplays["giant-C02"] = func(c *Ctx, raw json.RawMessage) { giantSkipValues(c) }
}
