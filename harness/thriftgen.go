package main

import (
	"encoding/binary"
	"math/rand"
	"strconv"
	"strings"
)

// ---------------------------------------------------------------------------
// Byte strings with segment structure (literal structural bytes + pattern runs) and a
// grammar-directed generator of Thrift Binary values with hostile mutations.

type runMark struct{ start, n, seed, off int }

type SegBuf struct {
	b      []byte
	runs   []runMark
	struc  []int // positions of structural bytes (type tags, size fields, field ids, counts)
	sizeAt []int // positions where a 4-byte size/count field starts
}

func (s *SegBuf) Len() int { return len(s.b) }
func (s *SegBuf) Lit(bs ...byte) {
	s.b = append(s.b, bs...)
}
func (s *SegBuf) Struct(bs ...byte) {
	for i := range bs {
		s.struc = append(s.struc, len(s.b)+i)
	}
	s.b = append(s.b, bs...)
}
func (s *SegBuf) Size4(n uint32) {
	s.sizeAt = append(s.sizeAt, len(s.b))
	var h [4]byte
	binary.BigEndian.PutUint32(h[:], n)
	s.Struct(h[:]...)
}

// Run appends n pattern bytes of the given seed (offset 0).
func (s *SegBuf) Run(seed, n int) {
	if n > litMax {
		s.runs = append(s.runs, runMark{len(s.b), n, seed, 0})
	}
	s.b = append(s.b, PatBytes(seed, 0, n)...)
}

func (s *SegBuf) Clone() *SegBuf {
	return &SegBuf{b: append([]byte(nil), s.b...), runs: append([]runMark(nil), s.runs...),
		struc: append([]int(nil), s.struc...), sizeAt: append([]int(nil), s.sizeAt...)}
}

// Truncate cuts the buffer to k bytes.
func (s *SegBuf) Truncate(k int) *SegBuf {
	c := s.Clone()
	if k < len(c.b) {
		c.b = c.b[:k]
	}
	return c
}

// Set replaces byte pos by v.
func (s *SegBuf) Set(pos int, v byte) *SegBuf {
	c := s.Clone()
	if pos < len(c.b) {
		c.b[pos] = v
	}
	return c
}

// Append concatenates another buffer.
func (s *SegBuf) Append(o *SegBuf) *SegBuf {
	c := s.Clone()
	base := len(c.b)
	c.b = append(c.b, o.b...)
	for _, r := range o.runs {
		r.start += base
		c.runs = append(c.runs, r)
	}
	for _, p := range o.struc {
		c.struc = append(c.struc, p+base)
	}
	for _, p := range o.sizeAt {
		c.sizeAt = append(c.sizeAt, p+base)
	}
	return c
}

// JSON renders the current bytes as a segment list. Run marks are honoured only where the content still
// equals the pattern (verified byte by byte), so mutations can never make the projection lie.
func (s *SegBuf) JSON() Raw {
	var sb strings.Builder
	sb.WriteByte('[')
	first := true
	emitLit := func(lo, hi int) {
		if hi <= lo {
			return
		}
		if !first {
			sb.WriteByte(',')
		}
		first = false
		sb.WriteString(`{"l":[`)
		for i := lo; i < hi; i++ {
			if i > lo {
				sb.WriteByte(',')
			}
			sb.WriteString(strconv.Itoa(int(s.b[i])))
		}
		sb.WriteString(`]}`)
	}
	pos := 0
	for _, r := range s.runs {
		if r.start < pos || r.start >= len(s.b) {
			continue
		}
		end := r.start + r.n
		if end > len(s.b) {
			end = len(s.b)
		}
		if end-r.start <= litMax || !isPat(s.b[r.start:end], r.seed, r.off) {
			continue
		}
		emitLit(pos, r.start)
		if !first {
			sb.WriteByte(',')
		}
		first = false
		sb.WriteString(string(runSeg(r.seed, r.off, end-r.start)))
		pos = end
	}
	emitLit(pos, len(s.b))
	sb.WriteByte(']')
	return Raw(sb.String())
}

// ---------------------------------------------------------------------------
// Typed value generator

var allTypes = []int8{2, 3, 4, 6, 8, 10, 11, 12, 13, 14, 15}

func fixedSize(t int8) int {
	switch t {
	case 2, 3:
		return 1
	case 6:
		return 2
	case 8:
		return 4
	case 4, 10:
		return 8
	}
	return 0
}

type valGen struct {
	rng     *rand.Rand
	seedCtr int
	budget  int // remaining nodes
	bigStr  bool
}

func (g *valGen) strLen() int {
	switch g.rng.Intn(20) {
	case 0:
		return 0
	case 1:
		if g.bigStr {
			return 4090 + g.rng.Intn(12)
		}
	case 2:
		if g.bigStr {
			return 8186 + g.rng.Intn(12)
		}
	case 3:
		if g.bigStr && g.rng.Intn(6) == 0 {
			return 60000 + g.rng.Intn(12000)
		}
	case 4, 5:
		return 13 + g.rng.Intn(300)
	}
	return g.rng.Intn(12)
}

func (g *valGen) count() int {
	switch g.rng.Intn(6) {
	case 0:
		return 0
	case 1:
		return 1
	case 2:
		return 2
	case 3:
		return 3 + g.rng.Intn(20)
	}
	return g.rng.Intn(4)
}

func (g *valGen) pickType(depth int) int8 {
	if depth <= 0 || g.budget <= 0 {
		return []int8{2, 3, 4, 6, 8, 10, 11}[g.rng.Intn(7)]
	}
	return allTypes[g.rng.Intn(len(allTypes))]
}

// Value appends an encoding of a random value of type t.
func (g *valGen) Value(s *SegBuf, t int8, depth int) {
	g.budget--
	switch t {
	case 2:
		s.Lit(byte(g.rng.Intn(2)))
	case 3:
		s.Lit(byte(g.rng.Intn(256)))
	case 6, 8, 4, 10:
		for i := 0; i < fixedSize(t); i++ {
			s.Lit(byte(g.rng.Intn(256)))
		}
	case 11:
		n := g.strLen()
		s.Size4(uint32(n))
		g.seedCtr++
		s.Run(g.seedCtr%250, n)
	case 14, 15:
		et := g.pickType(depth - 1)
		n := g.count()
		if g.budget <= 0 && fixedSize(et) == 0 {
			n = 0
		}
		s.Struct(byte(et))
		s.Size4(uint32(n))
		for i := 0; i < n; i++ {
			g.Value(s, et, depth-1)
		}
	case 13:
		kt, vt := g.pickType(depth-1), g.pickType(depth-1)
		n := g.count()
		if g.budget <= 0 && (fixedSize(kt) == 0 || fixedSize(vt) == 0) {
			n = 0
		}
		s.Struct(byte(kt), byte(vt))
		s.Size4(uint32(n))
		for i := 0; i < n; i++ {
			g.Value(s, kt, depth-1)
			g.Value(s, vt, depth-1)
		}
	case 12:
		n := g.count()
		if g.budget <= 0 {
			n = g.rng.Intn(2)
		}
		for i := 0; i < n; i++ {
			ft := g.pickType(depth - 1)
			id := g.rng.Intn(65536)
			if g.rng.Intn(3) == 0 {
				id = []int{0, 1, 2, 3, 6, 255, 256, 32767, 32768, 65535}[g.rng.Intn(10)]
			}
			s.Struct(byte(ft), byte(id>>8), byte(id))
			g.Value(s, ft, depth-1)
		}
		s.Struct(0)
	}
}

// nestValue builds a value nested `levels` deep (level 0 = the outermost container of kind `kind`),
// with `inner` at the bottom: "empty", "scalar" (a fixed-size element/field), "string".
func nestValue(kind string, levels int, inner string) (*SegBuf, int8) {
	s := &SegBuf{}
	var top int8
	switch kind {
	case "struct":
		top = 12
	case "list":
		top = 15
	case "set":
		top = 14
	default:
		top = 13
	}
	closers := 0
	for lv := 0; lv < levels; lv++ {
		last := lv == levels-1
		switch kind {
		case "struct":
			if last {
				switch inner {
				case "scalar":
					s.Struct(8, 0, 1)
					s.Lit(0, 0, 0, 7)
				case "string":
					s.Struct(11, 0, 1)
					s.Size4(2)
					s.Lit('h', 'i')
				}
				s.Struct(0)
			} else {
				s.Struct(12, 0, 1)
				closers++
			}
		case "list", "set":
			if last {
				switch inner {
				case "scalar":
					s.Struct(8)
					s.Size4(1)
					s.Lit(0, 0, 0, 7)
				case "string":
					s.Struct(11)
					s.Size4(1)
					s.Size4(2)
					s.Lit('h', 'i')
				default:
					s.Struct(8)
					s.Size4(0)
				}
			} else {
				s.Struct(byte(top))
				s.Size4(1)
			}
		case "mapval", "mapkey":
			if last {
				switch inner {
				case "scalar":
					s.Struct(8, 8)
					s.Size4(1)
					s.Lit(0, 0, 0, 1, 0, 0, 0, 2)
				case "string":
					s.Struct(11, 11)
					s.Size4(1)
					s.Size4(1)
					s.Lit('k')
					s.Size4(1)
					s.Lit('v')
				default:
					s.Struct(8, 8)
					s.Size4(0)
				}
			} else if kind == "mapval" {
				s.Struct(8, 13)
				s.Size4(1)
				s.Lit(0, 0, 0, 9) // key
			} else {
				s.Struct(13, 8)
				s.Size4(1)
				closers++ // value follows after the nested key
			}
		}
	}
	for i := 0; i < closers; i++ {
		if kind == "struct" {
			s.Struct(0)
		} else {
			s.Lit(0, 0, 0, 5) // the i32 value of each mapkey level
		}
	}
	return s, top
}

// declaredMax walks the input like the grammar does and returns the largest number of bytes any
// single declared size asks for. It is a safety device of the harness (not an oracle): reader-backed
// skippers allocate what is declared, so inputs declaring more than a cap are not fed to them.
func declaredMax(b []byte, t int8) int64 {
	var mx int64
	var walk func(i int, t int8, depth int) int
	walk = func(i int, t int8, depth int) int {
		if depth <= 0 || i < 0 {
			return -1
		}
		if n := fixedSize(t); n > 0 {
			if i+n > len(b) {
				return -1
			}
			return i + n
		}
		rd4 := func(i int) int64 {
			if i+4 > len(b) {
				return -1
			}
			return int64(int32(binary.BigEndian.Uint32(b[i:])))
		}
		switch t {
		case 11:
			n := rd4(i)
			if n < 0 {
				return -1
			}
			if n > mx {
				mx = n
			}
			if int64(i)+4+n > int64(len(b)) {
				return -1
			}
			return i + 4 + int(n)
		case 14, 15:
			if i+5 > len(b) {
				return -1
			}
			et := int8(b[i])
			n := rd4(i + 1)
			if n < 0 {
				return -1
			}
			if fs := fixedSize(et); fs > 0 {
				if n*int64(fs) > mx {
					mx = n * int64(fs)
				}
				if int64(i)+5+n*int64(fs) > int64(len(b)) {
					return -1
				}
				return i + 5 + int(n)*fs
			}
			j := i + 5
			for k := int64(0); k < n; k++ {
				j = walk(j, et, depth-1)
				if j < 0 {
					return -1
				}
			}
			return j
		case 13:
			if i+6 > len(b) {
				return -1
			}
			kt, vt := int8(b[i]), int8(b[i+1])
			n := rd4(i + 2)
			if n < 0 {
				return -1
			}
			if fk, fv := fixedSize(kt), fixedSize(vt); fk > 0 && fv > 0 {
				if n*int64(fk+fv) > mx {
					mx = n * int64(fk+fv)
				}
				if int64(i)+6+n*int64(fk+fv) > int64(len(b)) {
					return -1
				}
				return i + 6 + int(n)*(fk+fv)
			}
			j := i + 6
			for k := int64(0); k < n; k++ {
				j = walk(j, kt, depth-1)
				if j < 0 {
					return -1
				}
				j = walk(j, vt, depth-1)
				if j < 0 {
					return -1
				}
			}
			return j
		case 12:
			j := i
			for {
				if j >= len(b) {
					return -1
				}
				ft := int8(b[j])
				if ft == 0 {
					return j + 1
				}
				j = walk(j+3, ft, depth-1)
				if j < 0 {
					return -1
				}
			}
		}
		return -1
	}
	walk(0, t, 80)
	return mx
}
