package main

import (
	"bytes"
	"encoding/binary"
	"encoding/json"
	"fmt"
	"io"
	"math/rand"
	"runtime"
	"time"
	"unsafe"

	"github.com/bytedance/gopkg/lang/mcache"
	"github.com/cloudwego/gopkg/bufiox"
	"github.com/cloudwego/gopkg/protocol/thrift"
)

// ---------------------------------------------------------------------------
// C09 — zero-copy slices stay valid until Release/Flush; caller memory is never touched.
// Spec: BufPool.tla (ownership rules P1..P5), MC_BufPool (life-cycle protocol x co-tenant), Trace_BufPool.

type PoolCase struct {
	Kind    string  `json:"kind"` // reader | writer | decoder | skipdec
	Rd      *RdCase `json:"rd,omitempty"`
	Wr      *WrCase `json:"wr,omitempty"`
	Vals    []int   `json:"vals,omitempty"` // decoder/skipdec: string value lengths in the stream
	Chunks  []int   `json:"chunks,omitempty"`
	RelEach int     `json:"relEach,omitempty"` // skipdec: Release after every k values
	CoEvery int     `json:"coEvery"`           // run the co-tenant after every k-th operation (0 = never)
	PowCap  bool    `json:"powCap,omitempty"`  // caller memory with power-of-two capacity
	// Companion: a second reader / writer of the same kind lives next to the instance under test and grows, hands out and
	// releases on its own schedule between the instance's operations; for the ownership rules it is a co-tenant
	Companion bool `json:"companion,omitempty"`
	// Abandon (reader): the history ends WITHOUT a Release: the reader is dropped (connection abandoned mid-frame), the
	// garbage collector and the finalizers run, the co-tenant works the pool - the slices handed out are still valid
	Abandon bool `json:"abandon,omitempty"`
}

// dataSource serves a fixed byte string under a chunk schedule, optionally with the final data delivered together with EOF.
type dataSource struct {
	data   []byte
	pos    int
	chunks []int
	ci     int
	wd     bool
	reads  int
	fail   error // the error delivered at the end of the data (default io.EOF)
}

func (s *dataSource) endErr() error {
	if s.fail != nil {
		return s.fail
	}
	return io.EOF
}

func (s *dataSource) Read(p []byte) (int, error) {
	s.reads++
	left := len(s.data) - s.pos
	if left == 0 {
		return 0, s.endErr()
	}
	m := len(p)
	if left < m {
		m = left
	}
	if len(s.chunks) > 0 {
		c := s.chunks[s.ci%len(s.chunks)]
		s.ci++
		if c >= 0 && c < m {
			m = c
		}
	}
	copy(p, s.data[s.pos:s.pos+m])
	s.pos += m
	if m == left && s.wd {
		return m, s.endErr()
	}
	return m, nil
}

type liveSlice struct {
	sid  int
	b    []byte
	copy []byte
}

type poolRec struct {
	w     *TraceWriter
	actor string
}

func (p *poolRec) install() {
	mcache.VerifSetRecorder(func(ev mcache.Event) {
		switch ev.Kind {
		case "malloc":
			p.w.Ev("pm", "buf", ev.Buf, "by", p.actor, "cap", ev.Cap)
		case "free":
			p.w.Ev("pf", "buf", ev.Buf, "by", p.actor, "cap", ev.Cap)
		case "free_ignored":
			p.w.Ev("pfi", "by", p.actor, "cap", ev.Cap)
		case "free_foreign":
			p.w.Ev("pff", "by", p.actor, "cap", ev.Cap)
		case "double_free":
			p.w.Ev("pdf", "buf", ev.Buf, "by", p.actor)
		case "poison_damaged":
			p.w.Ev("ppd", "buf", ev.Buf, "by", p.actor)
		}
	})
}
func (p *poolRec) uninstall() { mcache.VerifSetRecorder(nil) }
func (p *poolRec) co(fill byte) {
	p.actor = "co"
	mcache.VerifCoTenant(0, 16, fill)
	p.actor = "inst"
}

func bufIDOf(b []byte) int {
	if cap(b) == 0 {
		return 0
	}
	id, _, _, ok := mcache.VerifLookup(uintptr(unsafe.Pointer(&b[:1][0])))
	if !ok {
		return 0
	}
	return id
}

func checkLive(w *TraceWriter, live []liveSlice) {
	ok := true
	bad := -1
	for _, s := range live {
		if !bytes.Equal(s.b, s.copy) {
			ok = false
			bad = s.sid
			break
		}
	}
	w.Ev("livecheck", "ok", ok, "n", len(live), "bad", bad)
}

func runPoolCase(raw json.RawMessage, w *TraceWriter) {
	var pc PoolCase
	if err := json.Unmarshal(raw, &pc); err != nil {
		panic(err)
	}
	rec := &poolRec{w: w, actor: "inst"}
	nopool := pc.Kind == "writer" && pc.Wr.Fl == "bytes"
	w.Ev("reset", "fam", "pool", "kind", pc.Kind, "nopool", nopool)
	rec.install()
	defer rec.uninstall()
	defer func() {
		if p := recover(); p != nil {
			w.Ev("panic", "msg", fmt.Sprint(p))
		}
	}()
	switch pc.Kind {
	case "reader":
		runPoolReader(&pc, w, rec)
	case "writer":
		runPoolWriter(&pc, w, rec)
	case "decoder":
		runPoolDecoder(&pc, w, rec)
	case "skipdec":
		runPoolSkipDec(&pc, w, rec)
	}
}

func powCap(n int) int {
	c := 1
	for c < n {
		c *= 2
	}
	return c
}

func runPoolReader(pc *PoolCase, w *TraceWriter, rec *poolRec) {
	cs := pc.Rd
	var r bufiox.Reader
	var callerBuf, callerCopy []byte
	if cs.Fl == "bytes" {
		c := cs.Cap
		if pc.PowCap {
			c = powCap(cs.S)
		}
		if c < cs.S {
			c = cs.S
		}
		callerBuf = make([]byte, cs.S, c)
		PatFill(callerBuf, cs.Seed, 0)
		full := callerBuf[:cap(callerBuf)]
		for i := cs.S; i < len(full); i++ {
			full[i] = 0xEE
		}
		callerCopy = append([]byte(nil), full...)
		r = bufiox.NewBytesReader(callerBuf)
	} else {
		r = bufiox.NewDefaultReader(&patSource{seed: cs.Seed, S: cs.S, fk: cs.Fk, wd: cs.Wd, chunks: cs.Chunks, quiet: true})
	}
	var live []liveSlice
	sid := 0
	var comp bufiox.Reader
	compOps := []RdOp{{"next", 5000}, {"release", 0}, {"next", 100}, {"next", 9000}, {"next", 20000}, {"release", 0}, {"next", 4097}, {"next", 40000}, {"release", 0}}
	companion := func(i int) {
		if !pc.Companion {
			return
		}
		rec.actor = "co"
		defer func() { rec.actor = "inst" }()
		if comp == nil {
			comp = bufiox.NewDefaultReader(&patSource{seed: 77, S: 1 << 22, fk: "EOF", quiet: true})
		}
		if op := compOps[i%len(compOps)]; op.Op == "release" {
			comp.Release(nil)
		} else {
			comp.Next(op.N)
		}
	}
	defer func() {
		if comp != nil {
			rec.actor = "co"
			comp.Release(nil)
			rec.actor = "inst"
		}
	}()
	for i, op := range cs.Ops {
		companion(2 * i)
		switch op.Op {
		case "release":
			checkLive(w, live)
			w.Ev("epoch", "why", "release")
			live = nil
			if (op.N+i)%3 == 1 { // the argument changes nothing about who owns what
				r.Release(errReleaseArg)
			} else {
				r.Release(nil)
			}
			companion(2*i + 1)
		case "next", "peek":
			var b []byte
			var err error
			if op.Op == "next" {
				b, err = r.Next(op.N)
			} else {
				b, err = r.Peek(op.N)
			}
			if err == nil && len(b) > 0 {
				sid++
				w.Ev("slice", "sid", sid, "buf", bufIDOf(b), "len", len(b))
				live = append(live, liveSlice{sid: sid, b: b, copy: append([]byte(nil), b...)})
			}
			checkLive(w, live)
		case "skip":
			r.Skip(op.N)
			checkLive(w, live)
		case "readbinary":
			if op.N >= 0 {
				r.ReadBinary(make([]byte, op.N))
			}
			checkLive(w, live)
		}
		if pc.CoEvery > 0 && (i+1)%pc.CoEvery == 0 {
			rec.co(byte(0xC0 + i%16))
			checkLive(w, live)
		}
	}
	checkLive(w, live)
	if pc.Abandon {
		r = nil
		for k := 0; k < 3; k++ {
			runtime.GC()
			time.Sleep(2 * time.Millisecond) // the finalizer goroutine gets its turn
		}
		rec.co(0x9D)
		checkLive(w, live)
		runtime.GC()
		time.Sleep(time.Millisecond)
		rec.co(0x9E)
		checkLive(w, live)
		w.Ev("epoch", "why", "abandoned")
		return
	}
	w.Ev("epoch", "why", "end")
	r.Release(nil)
	if callerBuf != nil {
		w.Ev("callercheck", "ok", bytes.Equal(callerBuf[:cap(callerBuf)], callerCopy))
	}
	rec.co(0xAB)
	if callerBuf != nil {
		w.Ev("callercheck", "ok", bytes.Equal(callerBuf[:cap(callerBuf)], callerCopy))
	}
}

func overlaps(a, b []byte) bool {
	if len(a) == 0 || len(b) == 0 {
		return false
	}
	a0 := uintptr(unsafe.Pointer(&a[0]))
	b0 := uintptr(unsafe.Pointer(&b[0]))
	return a0 < b0+uintptr(len(b)) && b0 < a0+uintptr(len(a))
}

func runPoolWriter(pc *PoolCase, w *TraceWriter, rec *poolRec) {
	cs := pc.Wr
	var wr bufiox.Writer
	var sink *recSink
	var target, targetOrig, targetCopy []byte
	if cs.Fl == "bytes" {
		if !cs.IsNil {
			c := cs.Cap
			if pc.PowCap {
				c = powCap(cs.Init)
			}
			if c < cs.Init {
				c = cs.Init
			}
			target = make([]byte, cs.Init, c)
			PatFill(target, wrInitSeed, 0)
			targetOrig = target
			targetCopy = append([]byte(nil), target...)
		}
		wr = bufiox.NewBytesWriter(&target)
	} else {
		sink = &recSink{failAt: cs.FailAt}
		wr = bufiox.NewDefaultWriter(sink)
	}
	type payload struct{ b, copy []byte }
	var pend []*wrRegion
	var payloads []payload
	id, sid := 0, 0
	for i, op := range cs.Ops {
		switch op.Op {
		case "malloc":
			id++
			buf, err := wr.Malloc(op.N)
			if err == nil {
				r := &wrRegion{id: id, n: op.N, seed: id % 250, buf: buf}
				ok := true
				for _, o := range pend {
					if o.buf != nil && overlaps(o.buf, buf) {
						ok = false
					}
				}
				for _, p := range payloads {
					if overlaps(p.b, buf) {
						ok = false
					}
				}
				w.Ev("regions", "ok", ok, "id", id)
				pend = append(pend, r)
				if len(buf) > 0 {
					sid++
					w.Ev("slice", "sid", sid, "buf", bufIDOf(buf), "len", len(buf))
				}
				if !op.Lazy {
					PatFill(buf, r.seed, 0)
					r.filled = true
				}
			}
		case "wb":
			id++
			seed := id % 250
			n := op.N
			pb := make([]byte, n, powCap(n)) // caller payloads with pool-class capacities
			PatFill(pb, seed, 0)
			payloads = append(payloads, payload{pb, append([]byte(nil), pb...)})
			if _, err := wr.WriteBinary(pb); err == nil {
				pend = append(pend, &wrRegion{id: id, n: n, seed: seed, filled: true})
			}
		case "flush":
			for _, r := range pend { // late fills: regions must still be writable
				if !r.filled {
					PatFill(r.buf, r.seed, 0)
					r.filled = true
				}
			}
			var lens, seeds []int
			for _, r := range pend {
				lens = append(lens, r.n)
				seeds = append(seeds, r.seed)
			}
			w.Ev("epoch", "why", "flush")
			if sink != nil {
				sink.payloads = nil
				sink.failed = false
			}
			first := targetOrig != nil || cs.IsNil
			err := wr.Flush()
			if err == nil {
				// the flushed image must be the regions in order (content survived co-tenant activity)
				ok := true
				if sink != nil {
					var all []byte
					for _, p := range sink.payloads {
						all = append(all, p...)
					}
					var exp []byte
					for k, n := range lens {
						exp = append(exp, PatBytes(seeds[k], 0, n)...)
					}
					ok = bytes.Equal(all, exp)
				} else if first {
					exp := append([]byte(nil), targetCopy...)
					for k, n := range lens {
						exp = append(exp, PatBytes(seeds[k], 0, n)...)
					}
					if len(exp) > 0 || len(target) > 0 {
						ok = bytes.Equal(target, exp)
					}
				}
				w.Ev("livecheck", "ok", ok, "n", len(lens), "bad", -1, "what", "flush image")
				if sink == nil && len(target) > 0 {
					// what a Flush left in the caller's slice is the caller's from now on: later cycles of the same writer
					// do not write to it (it is re-compared after every later Flush)
					payloads = append(payloads, payload{b: target, copy: append([]byte(nil), target...)})
				}
				pend = nil
				targetOrig = nil
				cs.IsNil = false
			}
			ok := true
			for _, p := range payloads {
				if !bytes.Equal(p.b, p.copy) {
					ok = false
				}
			}
			w.Ev("callercheck", "ok", ok)
		}
		if pc.CoEvery > 0 && (i+1)%pc.CoEvery == 0 {
			rec.co(byte(0xC0 + i%16))
		}
	}
	rec.co(0xAB)
	ok := true
	for _, p := range payloads {
		if !bytes.Equal(p.b, p.copy) {
			ok = false
		}
	}
	if targetOrig != nil && !bytes.Equal(targetOrig[:len(targetCopy)], targetCopy) {
		ok = false // the caller's initial slice contents must never be modified
	}
	w.Ev("callercheck", "ok", ok)
}

func encStrings(vals []int) (data []byte, offs []int) {
	for i, n := range vals {
		offs = append(offs, len(data))
		var h [4]byte
		binary.BigEndian.PutUint32(h[:], uint32(n))
		data = append(data, h[:]...)
		data = append(data, PatBytes(i+1, 0, n)...)
	}
	offs = append(offs, len(data))
	return
}

// ReaderSkipDecoder: results are valid until the next Next; its private buffer comes from the pool.
func runPoolDecoder(pc *PoolCase, w *TraceWriter, rec *poolRec) {
	lives := 1
	if pc.RelEach < 0 { // (decoder kind) -k: k lives of the pooled decoder object, one after the other, over the same values
		lives = -pc.RelEach
	}
	for life := 0; life < lives; life++ {
		data, offs := encStrings(pc.Vals)
		if life%2 == 1 { // other bytes in the next life (the length prefixes stay)
			for i := range pc.Vals {
				for k := offs[i] + 4; k < offs[i+1]; k++ {
					data[k] ^= 0x3C
				}
			}
		}
		src := &dataSource{data: data, chunks: pc.Chunks}
		d := thrift.NewReaderSkipDecoder(src)
		var live []liveSlice
		for i := range pc.Vals {
			checkLive(w, live)
			w.Ev("epoch", "why", "next")
			live = nil
			b, err := d.Next(thrift.STRING)
			if err != nil {
				w.Ev("livecheck", "ok", false, "n", 0, "bad", i, "what", "decoder error "+err.Error())
				break
			}
			w.Ev("slice", "sid", i+1, "buf", bufIDOf(b), "len", len(b))
			exp := data[offs[i]:offs[i+1]]
			live = append(live, liveSlice{sid: i + 1, b: b, copy: append([]byte(nil), exp...)})
			checkLive(w, live)
			if pc.CoEvery > 0 && (i+1)%pc.CoEvery == 0 {
				rec.co(byte(0xC0 + i%16))
				checkLive(w, live)
			}
		}
		checkLive(w, live)
		w.Ev("epoch", "why", "release")
		d.Release()
		rec.co(0xAB)
	}
}

// SkipDecoder over a DefaultReader: results are slices of the reader's buffers, valid until the reader's Release.
func runPoolSkipDec(pc *PoolCase, w *TraceWriter, rec *poolRec) {
	data, offs := encStrings(pc.Vals)
	src := &dataSource{data: data, chunks: pc.Chunks}
	r := bufiox.NewDefaultReader(src)
	d := thrift.NewSkipDecoder(r)
	var live []liveSlice
	for i := range pc.Vals {
		b, err := d.Next(thrift.STRING)
		if err != nil {
			w.Ev("livecheck", "ok", false, "n", 0, "bad", i, "what", "decoder error "+err.Error())
			break
		}
		if len(b) > 0 {
			w.Ev("slice", "sid", i+1, "buf", bufIDOf(b), "len", len(b))
		}
		exp := data[offs[i]:offs[i+1]]
		live = append(live, liveSlice{sid: i + 1, b: b, copy: append([]byte(nil), exp...)})
		checkLive(w, live)
		if pc.CoEvery > 0 && (i+1)%pc.CoEvery == 0 {
			rec.co(byte(0xC0 + i%16))
			checkLive(w, live)
		}
		if pc.RelEach > 0 && (i+1)%pc.RelEach == 0 {
			checkLive(w, live)
			w.Ev("epoch", "why", "release")
			live = nil
			r.Release(nil)
		}
	}
	checkLive(w, live)
	w.Ev("epoch", "why", "release")
	d.Release()
	r.Release(nil)
	rec.co(0xAB)
}

func sigPool(raw json.RawMessage, line string) string {
	var ev struct {
		K    string `json:"k"`
		By   string `json:"by"`
		What string `json:"what"`
	}
	if i := indexOf(line, " // "); i >= 0 {
		line = line[:i]
	}
	json.Unmarshal([]byte(line), &ev)
	var pc PoolCase
	json.Unmarshal(raw, &pc)
	fl := ""
	if pc.Rd != nil {
		fl = pc.Rd.Fl
	}
	if pc.Wr != nil {
		fl = pc.Wr.Fl
	}
	return fmt.Sprintf("pool/%s/%s/%s-%s", pc.Kind, fl, ev.K, ev.By)
}

var famPool = Register(&Family{Name: "pool", Spec: "Trace_BufPool", Cfg: "Trace_BufPool.cfg", Run: runPoolCase, Sig: sigPool, ParallelGC: true,
	Retries: 3}) // pooled decoder objects carry their buffer from one use to the next: a rejected case is confirmed by running it back to back

func genPoolCases(c *Ctx) []json.RawMessage {
	var out []json.RawMessage
	rng := rand.New(rand.NewSource(c.Seed*15485863 + 9))
	// readers: histories that retain slices across growth
	sizes := []int{1, 100, 4000, 4096, 4097, 9000, 20000}
	nR := c.Pick(1200, 6000)
	for i := 0; i < nR; i++ {
		cs := &RdCase{Fl: "io", Fk: "EOF", Wd: rng.Intn(2) == 0, Seed: rng.Intn(250), S: 1000 + rng.Intn(120000)}
		switch rng.Intn(4) {
		case 0:
			cs.Chunks = []int{-1}
		case 1:
			cs.Chunks = []int{1 + rng.Intn(5000)}
		case 2:
			cs.Chunks = []int{4096, 100 + rng.Intn(3000)}
		default:
			cs.Chunks = []int{500 + rng.Intn(9000), 0}
		}
		pcase := PoolCase{Kind: "reader", Rd: cs, CoEvery: rng.Intn(4), Companion: i%3 == 0, Abandon: i%29 == 7 && i < c.Pick(1200, 3500)}
		if rng.Intn(3) == 0 {
			cs.Fl = "bytes"
			cs.S = []int{0, 10, 16, 4096, 5000, 8192, 20000}[rng.Intn(7)]
			cs.Cap = cs.S + []int{0, 0, 6, 4096}[rng.Intn(4)]
			pcase.PowCap = rng.Intn(2) == 0
		}
		nops := 2 + rng.Intn(c.Pick(14, 60))
		for j := 0; j < nops; j++ {
			op := RdOp{Op: []string{"next", "next", "next", "peek", "peek", "skip", "readbinary", "release"}[rng.Intn(8)]}
			op.N = sizes[rng.Intn(len(sizes))]
			if rng.Intn(3) == 0 {
				op.N = 1 + rng.Intn(12000)
			}
			cs.Ops = append(cs.Ops, op)
		}
		out = append(out, mustJSON(pcase))
	}
	nW := c.Pick(1200, 6000)
	inits := [][3]int{{0, 0, 1}, {0, 0, 0}, {0, 16, 0}, {5, 16, 0}, {16, 16, 0}, {4096, 4096, 0}, {5000, 8192, 0}}
	for i := 0; i < nW; i++ {
		cs := &WrCase{Fl: "io", Shuffle: rng.Int63()}
		if rng.Intn(5) == 0 {
			cs.FailAt = 1 + rng.Intn(3)
		}
		pcase := PoolCase{Kind: "writer", Wr: cs, CoEvery: rng.Intn(4)}
		if rng.Intn(3) == 0 {
			cs.Fl = "bytes"
			cs.FailAt = 0
			in := inits[rng.Intn(len(inits))]
			cs.Init, cs.Cap, cs.IsNil = in[0], in[1], in[2] == 1
			pcase.PowCap = rng.Intn(2) == 0
		}
		nops := 2 + rng.Intn(c.Pick(14, 60))
		for j := 0; j < nops; j++ {
			op := WrOp{Op: []string{"malloc", "malloc", "malloc", "wb", "wb", "flush"}[rng.Intn(6)], Lazy: rng.Intn(2) == 0}
			op.N = []int{0, 1, 100, 4000, 4096, 4097, 9000, 20000}[rng.Intn(8)]
			if rng.Intn(3) == 0 {
				op.N = rng.Intn(12000)
			}
			cs.Ops = append(cs.Ops, op)
		}
		cs.Ops = append(cs.Ops, WrOp{Op: "flush"})
		out = append(out, mustJSON(pcase))
	}
	nD := c.Pick(600, 3000)
	for i := 0; i < nD; i++ {
		pcase := PoolCase{Kind: "decoder", CoEvery: rng.Intn(3)}
		if i%2 == 1 {
			pcase.Kind = "skipdec"
			pcase.RelEach = rng.Intn(5)
		}
		nv := 1 + rng.Intn(12)
		for j := 0; j < nv; j++ {
			n := []int{0, 1, 10, 100, 1000, 4090, 4096, 5000, 9000, 20000, 70000}[rng.Intn(11)]
			if rng.Intn(3) == 0 {
				n = rng.Intn(9000)
			}
			pcase.Vals = append(pcase.Vals, n)
		}
		switch rng.Intn(3) {
		case 0:
			pcase.Chunks = []int{-1}
		case 1:
			pcase.Chunks = []int{1 + rng.Intn(5000)}
		default:
			pcase.Chunks = []int{4096, 0, 1 + rng.Intn(300)}
		}
		out = append(out, mustJSON(pcase))
	}
	// decoders whose buffer grew beyond a MiB in one life and are taken from the pool again for small values
	for _, big := range []int{1<<20 + 1, 1<<20 + 1<<19, 2<<20 + 5, 17 << 20} {
		for _, chunks := range [][]int{{-1}, {4096, 100000}} {
			out = append(out, mustJSON(PoolCase{Kind: "decoder", Vals: []int{300, big, 100, 70000}, Chunks: chunks, CoEvery: 1, RelEach: -3}))
		}
	}
	// multi-MiB buffers (beyond any "do not keep buffers larger than X" threshold a Release may have): bytes readers over
	// 16..32 MiB of caller memory consumed up to a small tail, stream readers grown that far, writers with regions and
	// targets of that size
	for _, S := range []int{1 << 20, 16 << 20, 16<<20 + 1, 32 << 20} {
		for _, tail := range []int{0, 1, 100, 4096, 4097, 70000} {
			if S == 1<<20 && tail > 100 {
				continue
			}
			for _, fl := range []string{"bytes", "io"} {
				cs := &RdCase{Fl: fl, Fk: "EOF", Seed: 7, S: S, Cap: S, Chunks: []int{-1}}
				cs.Ops = []RdOp{{"next", 10}, {"next", S - 10 - tail}, {"release", 0}, {"peek", 1}, {"release", 0}, {"next", tail}, {"release", 0}, {"peek", 1}}
				out = append(out, mustJSON(PoolCase{Kind: "reader", Rd: cs, CoEvery: 1, PowCap: true}))
			}
		}
		ws := &WrCase{Fl: "io", Shuffle: int64(S), Ops: []WrOp{{Op: "malloc", N: 100, Lazy: true}, {Op: "malloc", N: S}, {Op: "wb", N: 5000}, {Op: "flush"}, {Op: "malloc", N: 10}, {Op: "flush"}}}
		out = append(out, mustJSON(PoolCase{Kind: "writer", Wr: ws, CoEvery: 1}))
		wb := &WrCase{Fl: "bytes", Init: S - 100, Cap: S, Shuffle: int64(S), Ops: []WrOp{{Op: "malloc", N: 50}, {Op: "wb", N: 200}, {Op: "flush"}, {Op: "malloc", N: 10}, {Op: "flush"}}}
		out = append(out, mustJSON(PoolCase{Kind: "writer", Wr: wb, CoEvery: 1, PowCap: true}))
	}
	return out
}

func checkC09(c *Ctx) {
	c.rule = "MC: the grow-and-park / release / flush life-cycle of reader, bytes reader, writer, bytes writer and ReaderSkipDecoder, composed with a co-tenant over 3 pool buffers, keeps the ownership invariants under every interleaving (9 steps). APALACHE: the invariants plus a strengthening (Ind_BufPool.tla) are inductive for every kind, 4 buffers, runs of any length (base, step, negative control, probes). TLAPS: Proof_BufPool.tla proves MCSpec => []IndInv for an arbitrary set of pool buffers (41 obligations; a negative control must fail). TRACE: real histories over the instrumented pool double (registry, poison-on-free, foreign/double-free detection) that retain every handed-out slice across later operations, with the co-tenant draining and scribbling every size class between operations, and a second live reader growing / releasing on its own schedule next to the one under test; every pool event must be an enabled BufPool action (P1..P5) and every content/caller-memory/disjointness monitor event must be ok. Also multi-MiB buffers: bytes readers over 1 / 16 / 16+ / 32 MiB of caller memory and stream readers grown that far, consumed up to a tail of 0..70000 bytes and released; writers with regions and targets of that size. Histories that end without a Release (the reader is dropped; GC and finalizers run; slices are compared again) and decoder histories of three lives of the pooled object with values of 1..17 MiB. What a Flush left in a BytesWriter target is retained and re-compared after every later Flush."
	for _, k := range []string{"reader", "bytesreader", "writer", "byteswriter", "decoder"} {
		c.MC("MC_BufPool.tla", "MC_BufPool_"+k+".cfg", 4)
	}
	// unbounded safety (Apalache): IndInv of Ind_BufPool.tla is inductive for every instance kind, 4 pool buffers, runs of
	// any length and any number of handed-out slices; the step fails under the free-on-grow protocol (negative control)
	c.Apalache("Ind_BufPool.tla", "base: MCInit => IndInv", false, "--cinit=ConstInit", "--init=MCInit", "--next=Next", "--inv=IndInv", "--length=0")
	c.Apalache("Ind_BufPool.tla", "step: IndInv /\\ Next => IndInv'", false, "--cinit=ConstInit", "--init=IndInit", "--next=Next", "--inv=IndInv", "--length=1")
	c.Apalache("Ind_BufPool.tla", "negative control: free-on-grow breaks the step", true, "--cinit=ConstInitNeg", "--init=IndInit", "--next=Next", "--inv=IndInv", "--length=1")
	if c.Thorough() {
		for _, pr := range []string{"ProbeNoLive", "ProbeNoPend", "ProbeNoCo"} {
			c.Apalache("Ind_BufPool.tla", "non-vacuity probe "+pr, true, "--cinit=ConstInit", "--init=IndInit", "--next=Next", "--inv="+pr, "--length=0")
		}
	}
	// machine-checked proof (TLAPS) of the same inductive invariant for ANY set of pool buffers
	c.TLAPS("Proof_BufPool.tla", "MCSpec => []IndInv for an arbitrary set of buffers, every kind", false)
	if c.Thorough() {
		c.TLAPS("Proof_BufPool_neg.tla", "negative control: free-on-grow protocol", true)
	}
	c.TraceCheck(famPool, genPoolCases(c))
	c.Assume("the pool double (harness/third_party/bgopkg/lang/mcache) keeps mcache's contract: power-of-two classes, len=size, Free ignores non-power-of-two capacities; it adds registry, LIFO reuse, poison and event log")
	c.Assume("a read of a recycled buffer that still holds its old bytes is visible only through the ownership trace (free events), not through content")
}

func init() { checks["C09"] = checkC09 }
