package main

import (
	"context"
	"encoding/json"
	"fmt"
	"time"

	"github.com/cloudwego/gopkg/protocol/thrift"
	"github.com/cloudwego/gopkg/protocol/thrift/base"
	uf "github.com/cloudwego/gopkg/protocol/thrift/unknownfields"
	"github.com/cloudwego/gopkg/protocol/ttheader"
)

// ---------------------------------------------------------------------------
// C03 — decoders never panic or over-report on arbitrary bytes.

type rawEntry struct {
	name string
	fn   func(b []byte) (ok bool, n int)
}

func rawEntries() []rawEntry {
	bp := thrift.Binary
	return []rawEntry{
		{"ReadBool", func(b []byte) (bool, int) { _, l, e := bp.ReadBool(b); return e == nil, l }},
		{"ReadByte", func(b []byte) (bool, int) { _, l, e := bp.ReadByte(b); return e == nil, l }},
		{"ReadI16", func(b []byte) (bool, int) { _, l, e := bp.ReadI16(b); return e == nil, l }},
		{"ReadI32", func(b []byte) (bool, int) { _, l, e := bp.ReadI32(b); return e == nil, l }},
		{"ReadI64", func(b []byte) (bool, int) { _, l, e := bp.ReadI64(b); return e == nil, l }},
		{"ReadDouble", func(b []byte) (bool, int) { _, l, e := bp.ReadDouble(b); return e == nil, l }},
		{"ReadString", func(b []byte) (bool, int) { _, l, e := bp.ReadString(b); return e == nil, l }},
		{"ReadBinary", func(b []byte) (bool, int) { _, l, e := bp.ReadBinary(b); return e == nil, l }},
		{"ReadFieldBegin", func(b []byte) (bool, int) { _, _, l, e := bp.ReadFieldBegin(b); return e == nil, l }},
		{"ReadMapBegin", func(b []byte) (bool, int) { _, _, _, l, e := bp.ReadMapBegin(b); return e == nil, l }},
		{"ReadListBegin", func(b []byte) (bool, int) { _, _, l, e := bp.ReadListBegin(b); return e == nil, l }},
		{"ReadSetBegin", func(b []byte) (bool, int) { _, _, l, e := bp.ReadSetBegin(b); return e == nil, l }},
		{"ReadMessageBegin", func(b []byte) (bool, int) { _, _, _, l, e := bp.ReadMessageBegin(b); return e == nil, l }},
		{"Base.FastRead", func(b []byte) (bool, int) {
			if mapCountTooBig("Base", b) {
				return false, 0
			}
			l, e := base.NewBase().FastRead(b)
			return e == nil, l
		}},
		{"BaseResp.FastRead", func(b []byte) (bool, int) {
			if mapCountTooBig("BaseResp", b) {
				return false, 0
			}
			l, e := base.NewBaseResp().FastRead(b)
			return e == nil, l
		}},
		{"ApplicationException.FastRead", func(b []byte) (bool, int) {
			l, e := thrift.NewApplicationException(0, "").FastRead(b)
			return e == nil, l
		}},
		{"FastUnmarshal", func(b []byte) (bool, int) {
			if mapCountTooBig("Base", b) {
				return false, 0
			}
			return thrift.FastUnmarshal(b, base.NewBase()) == nil, 0
		}},
		{"UnmarshalFastMsg", func(b []byte) (bool, int) {
			if bodyMapTooBig("BaseResp", b) {
				return false, 0
			}
			_, _, e := thrift.UnmarshalFastMsg(b, base.NewBaseResp())
			return e == nil, 0
		}},
		{"ConvertUnknownFields", func(b []byte) (bool, int) {
			if ufCountMax(b) > 1<<16 {
				return false, 0
			}
			_, e := uf.ConvertUnknownFields(b)
			return e == nil, 0
		}},
		{"ttheader.DecodeFromBytes", func(b []byte) (bool, int) {
			p, e := ttheader.DecodeFromBytes(context.Background(), b)
			return e == nil, p.HeaderLen
		}},
	}
}

type RawCase struct {
	Entry string `json:"entry"`
	T     int    `json:"t,omitempty"`
	Hex   string `json:"hex"`
}

// callEntry runs one entry under recover/fault protection (input flush against guard pages where it fits).
func callEntry(e *rawEntry, b []byte) (ok bool, n int, panicked bool) {
	r := skipRes{}
	protect(&r, func() { ok, n = e.fn(b) })
	return ok && !r.Panic, n, r.Panic
}

// rawSweep: every byte string up to maxLen over the full alphabet into every entry point (and every type byte
// for the two allocation-free skippers).  The expectation is C03Rule only, so only failures become cases.
func rawSweep(c *Ctx, maxLen int, skipTypes []int, allTypesUpTo int) {
	rawSweepN(c, maxLen, skipTypes, allTypesUpTo, -1)
}

// rawSweepN stops after limit strings (limit < 0: no limit); used for profiling
func rawSweepN(c *Ctx, maxLen int, skipTypes []int, allTypesUpTo int, limit int) {
	someTypes := []int{2, 3, 4, 6, 8, 10, 11, 12, 13, 14, 15, 0, 1, 16, -1, -128}
	entries := rawEntries()
	var n int64
	buf := make([]byte, maxLen)
	var rec func(l, max int) bool
	shieldExtra = 64
	defer func() { shieldExtra = allocCap }()
	seen := 0
	check := func(b []byte) bool {
		seen++
		if limit >= 0 && seen > limit {
			return false
		}
		gb := guardCopy(b)
		if gb == nil {
			gb = b
		}
		for i := range entries {
			ok, k, p := callEntry(&entries[i], gb)
			n++
			if p || (ok && (k < 0 || k > len(b))) {
				c.GoViolation("raw-C03", "raw/"+entries[i].name, RawCase{Entry: entries[i].name, Hex: hexOf(&SegBuf{b: b})}, "panic or over-report on a raw input")
				return false
			}
		}
		ts := skipTypes
		if len(b) > allTypesUpTo {
			ts = someTypes
		}
		for _, t := range ts {
			rs := runSkippers(gb, int8(t), false, 0)
			n += int64(len(rs))
			for _, r := range rs {
				if r.Panic || (r.Ok && (r.N < 0 || r.N > len(b))) {
					c.GoViolation("raw-C03", "raw/skip/"+r.Impl, RawCase{Entry: "skip/" + r.Impl, T: t, Hex: hexOf(&SegBuf{b: b})}, "panic or over-report on a raw input")
					return false
				}
			}
		}
		return true
	}
	rec = func(l, max int) bool {
		if l == max {
			return check(buf[:max])
		}
		for v := 0; v < 256; v++ {
			buf[l] = byte(v)
			if !rec(l+1, max) {
				return false
			}
		}
		return true
	}
	for l := 0; l <= maxLen; l++ {
		if !rec(0, l) {
			break
		}
	}
	c.AddExtraCount("raw_sweep_calls", n)
	c.AddEvals(n)
}

func replayRaw(c *Ctx, raw json.RawMessage) {
	var rc RawCase
	json.Unmarshal(raw, &rc)
	b := hexToBytes(rc.Hex)
	entries := rawEntries()
	for i := range entries {
		if entries[i].name == rc.Entry {
			ok, k, p := callEntry(&entries[i], b)
			if p || (ok && (k < 0 || k > len(b))) {
				c.GoViolation("raw-C03", "raw/"+rc.Entry, rc, "panic or over-report on a raw input")
			}
		}
	}
	for _, r := range runSkippers(b, int8(rc.T), false, 0) {
		if "skip/"+r.Impl == rc.Entry && (r.Panic || (r.Ok && (r.N < 0 || r.N > len(b)))) {
			c.GoViolation("raw-C03", "raw/"+rc.Entry, rc, "panic or over-report on a raw input")
		}
	}
}

func checkC03(c *Ctx) {
	c.rule = "MC: the reference grammar never over-reports (Bounded) over all strings up to MaxLen. TRACE (C03Rule = no panic/fault and ok => 0 <= n <= len, evaluated by TLC): hostile inputs from the grammar-directed generators (every cut point, structural bytes x boundary values, size fields x hostile sizes, foreign and >= 0x80 type bytes, nesting to 70) into the five skippers (thrift.Binary.Skip also flush against guard pages), the scalar/header/message readers (buffer and stream), Base/BaseResp/ApplicationException.FastRead, FastUnmarshal, UnmarshalFastMsg, ConvertUnknownFields/GetUnknownFields and ttheader.DecodeFromBytes/Decode. SWEEP (Go monitor; C03Rule is the whole expectation): every byte string of length <= 2 (thorough: 3 for the skippers) over the full alphabet into every entry point, and under every one of the 256 type bytes into the allocation-free skippers; every 4-/2-/1-byte window of a corpus of valid encodings (scalars, headers, messages, Base/BaseResp/ApplicationException, a struct with every field type, random values, TTHeader frames) x hostile values (MaxInt32-4..MaxInt32, sign boundary, small negatives, powers of two) and relative changes (+1..+4, -1, -2 on the 1-, 2- and 4-byte reading), each also cut right after the window, into every entry point and the skippers. DEEP CHAINS (Go monitor, child processes): nesting of 6 Mi (thorough 12 Mi) levels along each path of the grammar (container as map key, map value, list element, set element, struct field, alternating) through the five skippers: the process survives and nothing over-reports. STACK-RESIDENT INPUTS: thrift.Binary.Skip also runs on every input (up to 1536 bytes) copied into a local array on a fresh goroutine that starts with the minimum stack, with goroutines parked on stacks of various sizes, so that the recursion has to move the stack (and the input) while skipping; deep chains cut short are part of the inputs. GIANT FIELDS (Go monitor): the shipped structs and Skip meet an unknown string field of 2^30+7 .. 2^31-1 bytes that is really present (lazily mapped). The corpus also holds values valid for one entry point and landing at another (maps of other key / value types under the Extra field ids ...), fed unmutated and mutated."
	mcSkip(c, "MC_ThriftSkip_small.cfg")
	c.TraceCheck(famSkipC03, hostileSkipCases(c, c.Pick(100, 2500), 3))
	c.TraceCheck(famWireC03, hostileWireCases(c))
	cases := hostileStructCases(c)
	for _, m := range msgStructCases(c) {
		cases = append(cases, m)
	}
	for _, m := range structCases(c) { // permuted / repeated / colliding-id fields of every type (hand-built inputs)
		cases = append(cases, m)
	}
	c.TraceCheck(famStructC03, cases)
	c.TraceCheck(famUFC03, ufCases(c, c.Pick(1500, 30000), true))
	checkC03TTHeader(c)
	types := make([]int, 0, 256)
	for t := -128; t <= 127; t++ {
		types = append(types, t)
	}
	t0 := time.Now()
	if c.Thorough() {
		rawSweep(c, 2, types, 2)
		rawSweep3Skip(c)
	} else {
		rawSweep(c, 2, types, 1)
	}
	fmt.Printf("SWEEP raw inputs: %.1fs\n", time.Since(t0).Seconds())
	t0 = time.Now()
	rawMutSweep(c)
	fmt.Printf("SWEEP mutated encodings: %.1fs\n", time.Since(t0).Seconds())
	deepChainMonitor(c)
	giantFieldMonitor(c)
	c.Assume("declared sizes are unrestricted for thrift.Binary.Skip, BytesSkipDecoder and the scalar/header readers; capped at 1 MiB (65536 entries for maps / unknown-field containers) for entry points that allocate what the input declares")
	c.Assume("out-of-slice loads are observed through PROT_NONE guard pages on both sides of inputs up to 128 KiB (debug.SetPanicOnFault)")
}

// rawSweep3Skip: all 2^24 three-byte strings under the 11 known types + 4 unknown ones into the allocation-free skippers.
func rawSweep3Skip(c *Ctx) {
	var n int64
	b := make([]byte, 3)
	types := []int8{2, 3, 4, 6, 8, 10, 11, 12, 13, 14, 15, 0, 1, 16, -1}
	for v := 0; v < 1<<24; v++ {
		b[0], b[1], b[2] = byte(v>>16), byte(v>>8), byte(v)
		for _, t := range types {
			func() {
				defer func() {
					if p := recover(); p != nil {
						c.GoViolation("raw-C03", "raw/skip/binary", RawCase{Entry: "skip/binary", T: int(t), Hex: hexOf(&SegBuf{b: b})}, "panic on a raw input")
					}
				}()
				k, err := thrift.Binary.Skip(b, t)
				n++
				if err == nil && (k < 0 || k > 3) {
					c.GoViolation("raw-C03", "raw/skip/binary", RawCase{Entry: "skip/binary", T: int(t), Hex: hexOf(&SegBuf{b: b})}, "over-report on a raw input")
				}
			}()
		}
		if len(c.violations) > 0 {
			break
		}
	}
	c.AddExtraCount("raw_sweep_calls", n)
	c.AddEvals(n)
}

func checkC03TTHeader(c *Ctx) {
	c.TraceCheck(famTTHC03, tthHostileCases(c))
	c.TraceCheck(famFraming, framingCases(c)) // header lengths reported on a reader with history (no Release between frames)
}

func init() {
	checks["C03"] = checkC03
	goReplays["raw-C03"] = replayRaw
}
