package main

import (
	"hash/fnv"
	"strconv"
	"strings"
)

// PatByte is byte i (0-based) of the position-dependent pattern stream `seed` (DESIGN.md 3.2).
// Any offset, ordering, duplication or compaction error changes the content.
func PatByte(seed, i int) byte {
	q := i & 255
	return byte(q*q*7 + i*131 + (i >> 8) + seed*17)
}

// PatFill fills b with the pattern starting at stream offset off.
func PatFill(b []byte, seed, off int) {
	for i := range b {
		b[i] = PatByte(seed, off+i)
	}
}

// PatBytes returns n pattern bytes from offset off.
func PatBytes(seed, off, n int) []byte {
	b := make([]byte, n)
	PatFill(b, seed, off)
	return b
}

func isPat(b []byte, seed, off int) bool {
	for i := range b {
		if b[i] != PatByte(seed, off+i) {
			return false
		}
	}
	return true
}

const litMax = 12 // slices up to this length are always logged literally

// SegOf projects a byte slice onto one segment of the payload abstraction:
// a literal (short), run(seed, off, len) if the content equals the pattern at
// the hinted offset (checked byte by byte) or else at the lowest matching offset
// in [0, limit), or garbage(len, hash).
func SegOf(b []byte, seed, hint, limit int) Raw {
	if len(b) <= litMax {
		return litSeg(b)
	}
	if hint >= 0 && isPat(b, seed, hint) {
		return runSeg(seed, hint, len(b))
	}
	for off := 0; off < limit; off++ {
		if b[0] == PatByte(seed, off) && isPat(b, seed, off) {
			return runSeg(seed, off, len(b))
		}
	}
	h := fnv.New32a()
	h.Write(b)
	return Raw(`{"g":[` + strconv.Itoa(len(b)) + `,` + strconv.Itoa(int(h.Sum32()>>1)) + `]}`)
}

func litSeg(b []byte) Raw {
	var sb strings.Builder
	sb.WriteString(`{"l":[`)
	for i, x := range b {
		if i > 0 {
			sb.WriteByte(',')
		}
		sb.WriteString(strconv.Itoa(int(x)))
	}
	sb.WriteString(`]}`)
	return Raw(sb.String())
}

func runSeg(seed, off, n int) Raw {
	return Raw(`{"r":[` + strconv.Itoa(seed) + `,` + strconv.Itoa(off) + `,` + strconv.Itoa(n) + `]}`)
}

// SegsOf projects b onto a list of segments given the known pattern seeds that may occur in it.
// Used for outputs composed of several pieces (writer sinks, frames).
func intsJSON(v []int) Raw {
	var sb strings.Builder
	sb.WriteByte('[')
	for i, x := range v {
		if i > 0 {
			sb.WriteByte(',')
		}
		sb.WriteString(strconv.Itoa(tlcInt(x)))
	}
	sb.WriteByte(']')
	return Raw(sb.String())
}

// tlcInt: TLC integers are 32-bit and the JSON reader wraps larger numbers silently (2^32 - 10 would read as -10),
// so every number written to a trace saturates at the int32 bounds instead (a legitimate int32 value is never changed;
// an out-of-range value can only be mistaken for MaxInt32 / MinInt32 themselves).
func tlcInt(x int) int {
	if x > 2147483647 {
		return 2147483647
	}
	if x < -2147483648 {
		return -2147483648
	}
	return x
}

func bytesJSON(b []byte) Raw {
	var sb strings.Builder
	sb.WriteByte('[')
	for i, x := range b {
		if i > 0 {
			sb.WriteByte(',')
		}
		sb.WriteString(strconv.Itoa(int(x)))
	}
	sb.WriteByte(']')
	return Raw(sb.String())
}

func fmtInt(i int) string { return strconv.Itoa(i) }
